"""C01 — protein-group q-values are the monotone decoy-based FDR estimate.

Correspondence (a) of DESIGN.md §5 C01: the REAL `fdr.calculate_protein_fdrs` (its reported FDR
estimates are observed by wrapping `fdr.fdrs_to_qvals` from outside, its q-values are the return
value), the REAL `helpers.is_decoy`, and the REAL call-site composition
`calculate_protein_fdrs -> ProteinGroupResults.from_protein_groups` (picked_group_fdr.py:454-470)
are run on generated rankings and compared with the Lean model (`PgFdr.C01.calcProteinFdrs`,
`PgFdr.C01.isDecoyGroup`, `PgFdr.C06.fromProteinGroups` fed with the model's own q-values).

Numbers: scores are exact images of doubles; the model's estimates and q-values are exact rationals,
the implementation holds their correctly rounded quotients ((D+1)/(T+1) is one IEEE division, the
minimum of correctly rounded quotients is the correctly rounded minimum), so each model value is
converted with ONE true division and compared with `==`.  No tolerance, no near-tie class.
"""
import itertools
from fractions import Fraction

from lib import Prop, rat, unrat

SENT = ["-100", "1"]
NAMES = ["A", "B", "C", "D", "E", "F"]


def fl(j):
    f = unrat(j)
    return f.numerator / f.denominator


def rfl(j):
    """canonical [num, den] of the double nearest to the exact rational j (one division)"""
    return rat(fl(j))


# ---- independent statements of the marker predicates (oracle side) -----------------------------
def o_all(group, marker):
    for x in group:
        if x.find(marker) < 0:
            return False
    return True


def o_decoy(group):
    return o_all(group, "REV__") or o_all(group, "rev_")


def o_obsolete(group):
    return o_all(group, "OBSOLETE__")


class P(Prop):
    id = "C01"
    quick_cases = 2500
    thorough_cases = 500000
    chunk = 500
    rule = (
        "rankings of 0-12 groups drawn from kinds {target, REV__ decoy, rev_ decoy, REV__/rev_ mix, target+decoy mix, "
        "OBSOLETE__ placeholder (target / decoy), empty group, marker inside an identifier}, scores non-increasing "
        "from a coarse grid (ties frequent) or arbitrary, the -100.0 sentinel as a tail, in the middle or absent, "
        "group/score lists of unequal length; one or two evidence peptides per group (some groups without) for the "
        "report composition; non-trivial = at least 2 ranked groups with both a decoy and a target among them; "
        "distinct by sha1 of the case; thorough adds every ranking of length <= 7 over "
        "{target, decoy, placeholder target, placeholder decoy}"
    )
    assumptions = [
        "int/int true division in CPython is correctly rounded; np.minimum.accumulate returns one of its inputs",
        "fdr.calculate_protein_fdrs hands its reported estimates to fdr.fdrs_to_qvals (module attribute, wrapped by the harness)",
    ]

    # ------------------------------------------------------------------ generation
    def _group(self, rng, kind, k):
        n = lambda: rng.choice(NAMES) + str(k)  # noqa: E731
        m = rng.choice([1, 1, 2, 3])
        if kind == "T":
            return [n() + ("" if i == 0 else chr(97 + i)) for i in range(m)]
        if kind == "D":
            return ["REV__" + n() + ("" if i == 0 else chr(97 + i)) for i in range(m)]
        if kind == "d":
            return ["rev_" + n() + ("" if i == 0 else chr(97 + i)) for i in range(m)]
        if kind == "mixmark":
            return ["REV__" + n(), "rev_" + n() + "x"] + (["REV__" + n() + "y"] if m > 2 else [])
        if kind == "mixTD":
            g = [n(), "REV__" + n() + "x"] + (["rev_" + n() + "y"] if m > 2 else [])
            rng.shuffle(g)
            return g
        if kind == "oT":
            return ["OBSOLETE__" + n()]
        if kind == "oD":
            return ["OBSOLETE__REV__" + n()] if rng.random() < 0.7 else ["OBSOLETE__rev_" + n()]
        if kind == "empty":
            return []
        if kind == "ent":  # target groups carrying the identifiers of the entrapment estimate: they are still targets
            tag = rng.choice(["%s_entrapment", "Random_%s", "mimic|%s", "%s_entrapment"])
            return [tag % n() + ("" if i == 0 else chr(97 + i)) for i in range(m)]
        if kind == "odd":
            return rng.choice(
                [
                    ["sp|REV__" + n()],
                    ["p" + "rev_" + n()],  # a target whose name merely contains rev_
                    ["CON__REV__" + n()],
                    ["REV_" + n()],
                    ["rev__" + n(), "REV__" + n() + "z"],  # "rev__x" contains "rev_" but not "REV__"
                    ["REV__rev_" + n(), "rev_" + n() + "q"],
                    ["CON__" + n()],
                    [""],
                    ["REV__"],
                ]
            )
        raise AssertionError(kind)

    def gen_case(self, rng, tier):
        n = rng.choice([0, 1, 2, 2, 3, 3, 4, 4, 5, 5, 6, 6, 7, 8, 8, 10, 12, 12])
        kinds = ["T"] * 6 + ["D"] * 3 + ["d"] * 2 + ["mixmark", "mixTD", "oT", "oD", "empty", "odd", "ent"]
        # per case: sometimes targets or decoys only, sometimes decoy-rich
        r = rng.random()
        if r < 0.05:
            kinds = ["T", "oT"]
        elif r < 0.1:
            kinds = ["D", "d", "oD", "empty"]
        elif r < 0.3:
            kinds = ["T"] * 2 + ["D"] * 3 + ["d", "mixmark", "mixTD", "oT", "oD", "empty", "odd"]
        groups = [self._group(rng, rng.choice(kinds), k) for k in range(n)]
        # scores
        mode = rng.random()
        if mode < 0.7:
            grid = rng.choice([[3.0, 2.0, 1.0], [5.5, 4.25, 3.0, 2.0, 1.5, 0.75, 0.0], [10.0, 1.0]])
            sc = sorted((rng.choice(grid) for _ in range(n)), reverse=True)
        elif mode < 0.85:
            sc = sorted((rng.uniform(-2, 12) for _ in range(n)), reverse=True)
        else:
            sc = [rng.choice([3.0, 2.0, 1.0, -1.0, 100.0, -99.0, -100.5]) for _ in range(n)]
        scores = [rat(x) for x in sc]
        r = rng.random()
        if n and r < 0.35:  # sentinel tail, as do_competition produces it
            k = rng.randint(0 if rng.random() < 0.1 else 1, n)
            scores = scores[:k] + [SENT] * (n - k)
        elif n and r < 0.45:  # a sentinel in the middle, ordinary scores after it
            scores[rng.randrange(n)] = SENT
        r = rng.random()
        if r < 0.08:
            scores = scores + [rat(rng.choice([0.5, -100.0]))] * rng.randint(1, 2)
        elif r < 0.16 and n:
            scores = scores[: rng.randint(0, n - 1)]
        elif r < 0.2 and n:
            groups = groups[: rng.randint(0, n - 1)]
        # evidence for the report composition
        keep_all = rng.random() < 0.25
        infos = []
        for k, g in enumerate(groups):
            ev = []
            if g and (keep_all and rng.random() < 0.97 or (not keep_all and rng.random() < 0.8)):
                for t in range(rng.choice([1, 1, 2])):
                    ps = [p for p in g if rng.random() < 0.7] or [g[0]]
                    ev.append([rat(rng.choice([0.001, 0.01, 0.05])), "PEP%d_%d" % (k, t), ps])
            infos.append(ev)
        if rng.random() < 0.05 and infos:
            infos = infos[:-1]
        return {"groups": groups, "scores": scores, "infos": infos, "keepAll": keep_all, "thr": rng.choice([0.01, 0.05, 0.5])}

    def exhaustive_cases(self, tier):
        out = []
        mk = {"T": lambda i: ["P%d" % i], "D": lambda i: ["REV__P%d" % i], "oT": lambda i: ["OBSOLETE__P%d" % i],
              "oD": lambda i: ["OBSOLETE__REV__P%d" % i]}
        for n in range(0, 8):
            for combo in itertools.product(["T", "D", "oT", "oD"], repeat=n):
                groups = [mk[c](i) for i, c in enumerate(combo)]
                scores = [rat(float(n - i)) for i in range(n)]
                infos = [[[rat(0.01), "PEP%d" % i, list(g)]] for i, g in enumerate(groups)]
                out.append({"groups": groups, "scores": scores, "infos": infos, "keepAll": False, "thr": 0.01})
        return out

    # ------------------------------------------------------------------ implementation
    def run_impl(self, case):
        from picked_group_fdr import fdr, helpers
        from picked_group_fdr.results import ProteinGroupResults

        groups = [list(g) for g in case["groups"]]
        scores = [fl(s) for s in case["scores"]]
        out = {"decoy": [bool(helpers.is_decoy(g)) for g in groups]}
        seen = []
        orig = fdr.fdrs_to_qvals

        def wrapped(f):
            seen.append([float(x) for x in f])
            return orig(f)

        fdr.fdrs_to_qvals = wrapped
        try:
            try:
                q, _ = fdr.calculate_protein_fdrs(groups, scores, case.get("thr", 0.01))
            except Exception as e:
                if type(e) is Exception and str(e).startswith("No proteins with scores found"):
                    out["err"] = "no_ranked_groups"
                    return out
                raise
        finally:
            fdr.fdrs_to_qvals = orig
        out["fdrs"] = [rat(x) for x in seen[0]] if seen else None
        out["qvals"] = [rat(float(x)) for x in q]
        # the call site: the report is built with exactly these q-values
        infos = [[(fl(e[0]), e[1], list(e[2])) for e in ev] for ev in case["infos"]]
        try:
            res = ProteinGroupResults.from_protein_groups(groups, infos, scores, q, float("inf"), bool(case["keepAll"]))
            out["rows"] = [
                {"proteinIds": r.proteinIds, "score": rat(float(r.score)), "qValue": rat(float(r.qValue))} for r in res
            ]
        except IndexError:
            out["rows"] = {"err": "no_evidence"}
        except ValueError as e:
            if "not enough values to unpack" not in str(e):
                raise
            out["rows"] = {"err": "empty_group"}
        return out

    # ------------------------------------------------------------------ model
    def model_request(self, case, impl_out):
        return [
            {"op": "fdr", "groups": case["groups"], "scores": case["scores"]},
            {"op": "is_decoy", "groups": case["groups"]},
            {"op": "fdr_report", "groups": case["groups"], "infos": case["infos"], "scores": case["scores"],
             "keepAll": case["keepAll"]},
        ]

    def model_view(self, case, resp, impl_out):
        a, d, r = resp
        for x in (a, d, r):
            if "proto_err" in x:
                return x
        out = {"decoy": d["decoy"]}
        if "err" in a:
            out["err"] = a["err"]
            return out
        out["fdrs"] = [rfl(x) for x in a["fdrs"]]
        out["qvals"] = [rfl(x) for x in a["qvals"]]
        if "err" in r:
            out["rows"] = {"err": r["err"]}
        else:
            out["rows"] = [
                {"proteinIds": x["proteinIds"], "score": rat(unrat(x["score"])), "qValue": rfl(x["qValue"])} for x in r["rows"]
            ]
        return out

    # ------------------------------------------------------------------ the property, stated directly
    def _ranked(self, case):
        r = []
        for g, s in zip(case["groups"], case["scores"]):
            if unrat(s) == -100:
                break
            r.append(g)
        return r

    def oracle(self, case, impl_out):
        if not isinstance(impl_out, dict) or "decoy" not in impl_out:
            return "no output: %r" % (impl_out,)
        # "a group counts as decoy only if all of its proteins are decoys"
        for g, d in zip(case["groups"], impl_out["decoy"]):
            if d != o_decoy(g):
                return f"is_decoy({g}) = {d}, but 'all members carry REV__, or all carry rev_' is {o_decoy(g)}"
        ranked = self._ranked(case)
        if "err" in impl_out:
            if ranked:
                return f"rejected although {len(ranked)} groups are ranked before the sentinel"
            return None
        if not ranked:
            return "no ranked group, but no error was raised"
        fd, qv = impl_out["fdrs"], impl_out["qvals"]
        if fd is None or len(fd) != len(ranked) or len(qv) != len(ranked):
            return f"{len(ranked)} ranked groups, {None if fd is None else len(fd)} estimates, {len(qv)} q-values"
        D = T = 0
        est = []
        for k, g in enumerate(ranked):
            if o_decoy(g):
                D += 1
            else:
                T += 1
            e = Fraction(D + 1, T + 1)
            est.append(e)
            if fl(fd[k]) != e.numerator / e.denominator:
                return f"estimate at rank {k} is {fl(fd[k])}, (decoys so far + 1)/(targets so far + 1) = {D + 1}/{T + 1}"
        q = [fl(x) for x in qv]
        for i in range(len(ranked)):
            m = min(est[i:])
            if q[i] != m.numerator / m.denominator:
                return f"q-value at rank {i} is {q[i]}, the minimum estimate at or below it is {m}"
        for i in range(len(q) - 1):
            if q[i] > q[i + 1]:
                return f"q-values decrease from rank {i} to {i + 1}"
        # every threshold: attained q-values and a grid around them
        ts = sorted(set(q) | {0.0, 0.01, 0.25, 0.5, 1.0, 2.0})
        for t in ts:
            S = [i for i in range(len(q)) if q[i] <= t]
            if not S:
                continue
            if S != list(range(len(S))):
                return f"groups with q <= {t} are not a prefix of the ranking: {S}"
            d = sum(1 for i in S if o_decoy(ranked[i]))
            if (d + 1) / (len(S) - d + 1) > t:
                return f"threshold {t}: {len(S)} groups accepted with (decoys+1)/(targets+1) = {d + 1}/{len(S) - d + 1} > t"
        # reported rows carry the score and q-value of their rank, in the ranking's order
        rows = impl_out.get("rows")
        n = min(len(case["groups"]), len(case["infos"]), len(case["scores"]), len(qv))
        want = []
        broken = None
        for i in range(n):
            g, ev = case["groups"][i], case["infos"][i]
            if o_obsolete(g):
                continue
            listed = [p for p in g if case["keepAll"] or any(p in e[2] for e in ev)]
            if not listed:
                continue
            if not ev:
                broken = "no_evidence"
                break
            want.append({"proteinIds": ";".join(listed), "score": rat(unrat(case["scores"][i])), "qValue": qv[i]})
        if broken:
            if rows != {"err": broken}:
                return f"expected the report to fail with {broken}, got {rows}"
        elif rows != want:
            return f"reported (proteins, score, q-value) rows {rows} differ from the ranking's {want}"
        return None

    # ------------------------------------------------------------------ bookkeeping
    def nontrivial(self, case, impl_out):
        r = self._ranked(case)
        ds = [o_decoy(g) for g in r]
        return len(r) >= 2 and any(ds) and not all(ds)

    def features(self, case, impl_out):
        r = self._ranked(case)
        f = ["ranked=%s" % (len(r) if len(r) < 8 else "8+")]
        sc = [unrat(s) for s in case["scores"]]
        if any(s == -100 for s in sc):
            k = next(i for i, s in enumerate(sc) if s == -100)
            f.append("sentinel_tail" if all(s == -100 for s in sc[k:]) else "sentinel_middle")
        if len(case["groups"]) != len(case["scores"]):
            f.append("length_mismatch")
        if len(set(sc[: len(r)])) < len(r):
            f.append("tied_scores")
        if any(not g for g in r):
            f.append("empty_group")
        if any(g and o_obsolete(g) for g in r):
            f.append("placeholder")
        if any(g and not o_decoy(g) and any("REV__" in p or "rev_" in p for p in g) for g in r):
            f.append("mixed_group_counts_as_target")
        if isinstance(impl_out, dict):
            if "err" in impl_out:
                f.append("err=" + impl_out["err"])
            elif isinstance(impl_out.get("rows"), dict):
                f.append("report_err=" + impl_out["rows"]["err"])
            elif impl_out.get("rows") is not None:
                f.append("rows_withheld" if len(impl_out["rows"]) < len(r) else "rows_all")
            q = impl_out.get("qvals") or []
            fd = impl_out.get("fdrs") or []
            if q and fd and q != fd:
                f.append("monotonisation_changed_something")
        if case["keepAll"]:
            f.append("keep_all")
        return f

    def shrink(self, case):
        g, s, inf = case["groups"], case["scores"], case["infos"]
        for i in range(max(len(g), len(s))):
            yield dict(case, groups=g[:i] + g[i + 1 :], scores=s[:i] + s[i + 1 :], infos=inf[:i] + inf[i + 1 :])
        if len(g) != len(s) or len(inf) != len(g):
            n = min(len(g), len(s))
            yield dict(case, groups=g[:n], scores=s[:n], infos=(inf + [[]] * n)[:n])
        for i, grp in enumerate(g):
            if len(grp) > 1:
                for j in range(len(grp)):
                    ng = grp[:j] + grp[j + 1 :]
                    ni = [[[e[0], e[1], [p for p in e[2] if p in ng] or ng[:1]] for e in ev] if k == i else ev
                          for k, ev in enumerate(inf)]
                    yield dict(case, groups=g[:i] + [ng] + g[i + 1 :], infos=ni)
        for i, ev in enumerate(inf):
            if len(ev) > 1:
                yield dict(case, infos=inf[:i] + [ev[:1]] + inf[i + 1 :])
        if case["keepAll"]:
            yield dict(case, keepAll=False)


# ---- pipeline-level cases (DESIGN.md §5 C01 K(b)): the whole get_protein_group_results for every shipped
# method against the composed Lean model PgFdr.Pipeline.run, with the C01 statement as the oracle
import pipeline as _pl  # noqa: E402

_BaseP = P


class P(_pl.PipelineMixin, _BaseP):
    pipeline_share = 0.12
    pipeline_oracles = ("c01",)


# ---- command-line cases: the real `picked_group_fdr.main(argv)` in-process against the composed Lean model
# PgFdr.Cli.cliOutcome (harness/cli_model.py).  Oracle = the C01 statement only (pipeline.oracle_c01), on the rows READ
# BACK FROM THE WRITTEN TABLE of every method against the ranking observed in that method's inference call: q-values are
# suffix minima of (decoys+1)/(targets+1), rows carry score and q-value of their rank in order.
# --psm_fdr_cutoff, --protein_group_fdr_threshold and --keep_all_proteins vary independently
import cli_model as _cm  # noqa: E402

_PipeP = P


class P(_cm.CliMixin, _PipeP):
    cli_model_share = 0.016   # ~40 of the 2 500 quick cases
    cli_oracles = ("c01",)
    rule = _PipeP.rule + (
        "; 1.6 % of the cases run the whole command line in process (harness/cli_model.py: 1-3 shipped MaxQuant / Percolator "
        "methods, generated FASTA and evidence files under random names in random order, --psm_fdr_cutoff from "
        "{0.01, 0.05, 0.0011, 0.2}, --protein_group_fdr_threshold from pipeline.THRESHOLDS and --keep_all_proteins drawn "
        "independently) and state C01 on the written table"
    )
