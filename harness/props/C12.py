"""C12 — intensity, iBAQ, count, ID-type columns equal recomputation from precursors.

Correspondence (in process): evidence files are rendered from abstract rows, reported groups are
built by hand as `results.ProteinGroupResult` objects, and the REAL sequence is run:

    ProteinGroups.from_protein_group_results
    score_type.get_quantification_parser()  (= quant.maxquant.add_precursor_quants, no remapping)
    writers.MaxQuantProteinGroupsWriter(..., skip_lfq=True).append_quant_columns
        = remove_protein_groups_without_precursors, fdr.calc_post_err_prob_cutoff,
          _retain_only_identified_precursors, then the column classes in the writer's own order

`precursorQuants` (after add_precursor_quants and after the identified-precursor filter) and the
`extraColumns` BEFORE formatting are compared exactly, as rationals, with the Lean model
`PgFdr.C12.quantify` (driver op "quant").  Columns are located through the header list the real
code built, so a header/value misalignment is a disagreement too.

Extra stage: a few end-to-end CLI runs (`python -m picked_group_fdr.quantification` and
`python -m picked_group_fdr --do_quant --skip_lfq`) whose written proteinGroups.txt columns are
compared with the model's values formatted with the writer's '%.0f'.

The PEP cutoff is observed from outside: `_retain_only_identified_precursors` and every column's `append` are
wrapped, the values they RECEIVE are recorded (as exact rationals of `float(value)`, plus whether each is a double)
and compared with the model's `PgFdr.C17.cutoff` and with the oracle's Fraction recomputation: the cutoff must be
exactly one of the finite PEPs or 1.0.  30 % of the cases draw PEPs from clusters that differ only beyond the 7th
significant digit.

Experimental design / file list (addendum 5): 35 % of the in-process cases and half of the
`python -m picked_group_fdr.quantification` runs carry a design (`--experimental_design_file` layout, or the
deprecated `--file_list_file` layout in process) whose experiments are mostly NOT in alphabetical order; the
real parsers read the rendered file, `add_precursor_quants` gets the data frame, the model runs
`PgFdr.C12.quantifyDesign` on the harness's own normalisation of the lines, and every per-experiment column is
looked up BY HEADER NAME and compared with the recomputation for the experiment of that name.

Evidence files with DIFFERENT SILAC / reporter columns (second audit, B2): `num_silac_channels` / `num_tmt_channels` are
fixed by the first parsed row while every row carries the values of its own file's columns.  ~8 % of the in-process
cases draw 2-3 files with independently drawn layouts (`case["layouts"]`, one entry per file).  The real code then raises
`IndexError` in `_get_intensities` (mapped to `silac_index_out_of_range`), `ValueError` / `TypeError` in
`_get_tmt_intensities` (`tmt_shape_mismatch`), or silently writes SILAC values into the slots of the following
experiments / broadcasts a single reporter value into all reporter cells.  The model follows the code in all of these;
the oracle's direct recomputation does NOT (a value under `Intensity E2` that stems from an E1 row is wrong): such
cases are counted as `mixed_layout_spill` and judged by the oracle only when known_findings.json registers the
predicate `kf_mixed_layout_spill` (candidate known finding, notes/C12.md last addendum).

DEFAULT quantification options (MaxLFQ generator enabled) and remapping (round 6, notes/C12.md last addendum):
about half of the in-process cases with one SILAC / reporter layout build the real writer with `skip_lfq=False`
(`case["lfq"]`), so `columns.LFQIntensityColumns` runs between the summed-intensity generator and the coverage /
reporter / evidence-id generators ON THE SAME per-group precursor list; half of the subprocess command lines omit
`--skip_lfq`.  LFQ values are never compared (C11); compared are the C12 cells, the header list (the model's list then
contains the `LFQ Intensity …` names, `C12.writerHeaders false`), the flat `extraColumns` of every row against the
model's column pipeline (`C12.runCells`, cells of foreign generators masked), and `pgr.precursorQuants` AFTER the
writer ran.  ~30 % of the in-process cases run a REMAPPING method (`ProteinScoringStrategy("bestPEP")` + digest maps,
`case["remap"]`): the `Leading proteins` cell is ignored, the protein list is the map's list of
`helpers.remove_modifications(modified sequence)`; the rows carry 0-4 modifications in every notation the parsers
accept (`M(ox)`, `(ac)M…`, `M(Oxidation (M))`, `[Oxidation (M)]`, `[+15.995]`, mixed), the pool of bare peptides
contains the remainders a too greedy stripping would leave (`AAAM(ox)PEPTM(ox)DEK` -> `AAAMDEK`).  The model strips with
`C10.removeMods`, the oracle with its own bracket-depth scanner `o_strip` (not the repository's helper).

Numbers: intensities are small dyadic rationals (integers and halves), PEPs are k/1024, so every
float sum the code performs is exact; iBAQ quotients are compared after one correctly rounded
division of the model's exact rational.  A case whose running PEP mean rounds onto the FDR level
without being equal to it is not sent to the model (counted as `near_tie_skipped`).
"""
import csv
import os
import random
import shutil
import subprocess
import sys
import tempfile
from fractions import Fraction

import lib
from lib import Prop, rat, unrat, rat_to_float

PEPTIDES = ["AAAAAAK", "CCCCCCR", "DDDDDDK", "EEEEEEK", "GGGGGGR", "HHHHHHK", "AAAAAAK(ox)", "LLLLLLR"]
BASE = ["A1", "B2", "C3", "D4", "E5", "F6"]
SILAC_NAMES = {2: ["L", "H"], 3: ["L", "M", "H"], 1: ["L"]}


# bare peptides of the remapping cases; the pool contains what a too greedy / too lazy stripping of a multiply modified
# spelling leaves behind (AAAM(ox)PEPTM(ox)DEK -> AAAMDEK, M(ox)AAM(ox)K -> MK, DDM(ox)AAAAM(ox)PEPTIDEK -> DDMPEPTIDEK)
MOD_BARE = ["AAAMPEPTMDEK", "AAAMDEK", "MAAMK", "MK", "DDMAAAAMPEPTIDEK", "DDMPEPTIDEK", "MSTYAAMK", "MAAMSK", "SK",
            "SAAMK", "AAAAAAK", "CCCCCCR", "MAAMPEPTMDEK", "AAAMPEPTMDEKK"]
MOD_TOKENS = {
    "short": {"ox": "(ox)", "ac": "(ac)", "ph": "(ph)", "other": "(de)"},
    "long": {"ox": "(Oxidation (M))", "ac": "(Acetyl (Protein N-term))", "ph": "(Phospho (STY))", "other": "(Deamidation (NQ))"},
    "bracket": {"ox": "[Oxidation (M)]", "ac": "[Acetyl (Protein N-term)]", "ph": "[Phospho (STY)]", "other": "[Deamidation (NQ)]"},
    "bracket_plain": {"ox": "[+15.995]", "ac": "[+42.011]", "ph": "[+79.966]", "other": "[UNIMOD:7]"},
}


def spell(rng, bare, nmods, style):
    """a modified sequence spelling `bare` with `nmods` modification tokens (well formed: balanced, at most one level
    of nesting): N-terminal acetylation, oxidation after M, phosphorylation after S/T/Y, anything after any residue"""
    sites = [(0, "ac")] + [(i + 1, "ox" if c == "M" else "ph" if c in "STY" else "other") for i, c in enumerate(bare)]
    pref = [s for s in sites if s[1] != "other"]
    rng.shuffle(pref)
    rest = [s for s in sites if s[1] == "other"]
    rng.shuffle(rest)
    chosen = dict((pref + rest)[:nmods])
    out = []
    for i in range(len(bare) + 1):
        if i in chosen:
            st = style if style != "mixed" else rng.choice(sorted(MOD_TOKENS))
            out.append(MOD_TOKENS[st][chosen[i]])
        if i < len(bare):
            out.append(bare[i])
    return "".join(out)


def o_strip(s):
    """the oracle's own reading of "modified sequence with the modifications removed": the characters outside every
    ( … ) / [ … ] token (bracket-depth scanner; None for an unbalanced string, on which the oracle does not decide)"""
    out, depth = [], 0
    for ch in s:
        if ch in "([":
            depth += 1
        elif ch in ")]":
            depth -= 1
            if depth < 0:
                return None
        elif depth == 0:
            out.append(ch)
    return "".join(out) if depth == 0 else None


def n_mods(s):
    """number of top-level modification tokens of a well-formed spelling"""
    n = depth = 0
    for ch in s:
        if ch in "([":
            n += depth == 0
            depth += 1
        elif ch in ")]":
            depth -= 1
    return n


def case_maps(case, fi):
    """the digest map (dict) of the fi-th evidence file of a remapping case: a single map serves all files"""
    maps = case["remap"]["maps"]
    m = maps[0] if len(maps) == 1 else maps[fi]
    return {k: v for k, v in m}


def o_leading(case, fi, r):
    """the protein list the mapper works on: `Leading proteins` of the row, or - remapping method - the digest map's
    list of the stripped modified sequence (None: the oracle does not decide, unbalanced spelling)"""
    if not case.get("remap"):
        return r["prot"]
    bare = o_strip(r["pep"])
    if bare is None:
        return None
    return list(case_maps(case, fi).get(bare, []))


def F(x):
    return Fraction(*float(x).as_integer_ratio())


def enc_pep(x):
    """float PEP -> protocol value"""
    if x != x:
        return "nan"
    if x in (float("inf"), float("-inf")):
        return "inf" if x > 0 else "-inf"
    return rat(float(x))


def pep_text(p):
    """protocol PEP -> field of evidence.txt"""
    if p == "nan":
        return ""
    if p == "inf":
        return "inf"
    f = unrat(p)
    return repr(f.numerator / f.denominator)


def num_text(x):
    """protocol number (R | None=NaN | "empty") -> field text"""
    if x is None:
        return "NaN"
    if x == "empty":
        return ""
    f = unrat(x)
    v = f.numerator / f.denominator
    if f.denominator == 1 and abs(f.numerator) < 10**15:
        return str(f.numerator)
    return repr(v)


def num_val(x):
    """protocol number -> what the parser holds (R or None for NaN)"""
    if x is None:
        return None
    if x == "empty":
        return ["0", "1"]
    return x


def render_evidence(path, rows, layout):
    S, T = layout["silac"], layout["tmt"]
    hdr = ["Modified sequence", "Leading proteins", "Leading razor protein", "PEP", "Score"]
    if layout["has_experiment"]:
        hdr.append("Experiment")
    hdr += ["Charge", "Intensity", "Raw file"]
    if layout["has_fraction"]:
        hdr.append("Fraction")
    hdr.append("id")
    if S:
        hdr += ["Intensity " + c for c in SILAC_NAMES[S]]
    if layout.get("tmt_single"):  # a file with ONE column starting with "reporter intensity ": numpy broadcasts it
        hdr += ["Reporter intensity 1"]
    else:
        for kind in ("Reporter intensity corrected ", "Reporter intensity ", "Reporter intensity count "):
            hdr += [kind + str(i) for i in range(1, T + 1)]
    with open(path, "w", newline="") as f:
        w = csv.writer(f, delimiter="\t")
        w.writerow(hdr)
        for r in rows:
            line = ["_" + r["pep"] + "_", ";".join(r["prot"]), r["prot"][0] if r["prot"] else "", pep_text(r["pp"]), "10"]
            if layout["has_experiment"]:
                line.append(r["exp"])
            line += [str(r["z"]), num_text(r["int"]), r.get("raw", "raw_" + r["exp"])]
            if layout["has_fraction"]:
                line.append(r["frac"])
            line.append(str(r["id"]))
            line += [num_text(x) for x in r["silac"]]
            line += [num_text(x) for x in r["tmt"]]
            w.writerow(line)


def model_row(r):
    return {
        "id": r["id"],
        "pep": r["pep"],
        "z": r["z"],
        "exp": r["exp"],
        "frac": r["frac"],
        "prot": r["prot"],
        "int": num_val(r["int"]),
        "pp": r["pp"],
        "silac": [num_val(x) for x in r["silac"]],
        "tmt": [num_val(x) for x in r["tmt"]],
        "raw": row_raw(r),
    }


def all_rows(case):
    return [r for f in case["files"] for r in f]


def file_layout(case, i):
    """the header layout of the i-th evidence file: case["layout"], with the SILAC / reporter columns of
    case["layouts"][i] when the files of the set have different headers"""
    lays = case.get("layouts")
    if not lays:
        return case["layout"]
    return dict(case["layout"], **lays[i])


def n_reporter(lay):
    return 1 if lay.get("tmt_single") else 3 * lay["tmt"]


def mixed_layouts(case):
    lays = case.get("layouts")
    return bool(lays) and len({(l["silac"], n_reporter(l)) for l in lays}) > 1


# ----------------------------------------------------------------------------------------
# experimental design / file list
# ----------------------------------------------------------------------------------------
DESIGN_EXPS = ["treated", "control", "alpha", "E1", "E2", "E10", "b", "B", "zeta", "Mock"]
DESIGN_RAWS = ["raw1", "raw2", "raw3", "raw10", "fileA", "fileB", "run_c", "Z_run"]


def render_design(path, design):
    """MaxQuant experimentalDesignTemplate layout (header Name / Fraction / Experiment [/ Condition], any column
    order) or the headerless file-list layout (raw_file <tab> condition [<tab> experiment [<tab> fraction]])"""
    with open(path, "w", newline="") as f:
        w = csv.writer(f, delimiter="\t")
        cell = lambda v: "" if v is None else str(v)
        if design["kind"] == "mq":
            cols = design["columns"]
            w.writerow(cols)
            for l in design["lines"]:
                d = {"Name": l["name"], "Fraction": cell(l["frac"]), "Experiment": cell(l["exp"]), "Condition": cell(l.get("cond"))}
                w.writerow([d[c] for c in cols])
        else:
            for l in design["lines"]:
                w.writerow([l["name"], cell(l.get("cond")), cell(l["exp"]), cell(l["frac"])][: design["ncols"]])


def design_stem(name):
    """pathlib.Path(name).stem for the generated names (forward slashes, at most one extension)"""
    base = name.rsplit("/", 1)[-1]
    if "." in base[1:]:
        base = base[: base.rindex(".")]
    return base


def normalise_design(design):
    """the harness's own reading of parsers.parse_mq_experimental_design / parse_triqler_file_list +
    normalize_experimental_design: [[raw file stem, experiment, fraction as str() prints the value pandas holds]].
    Fraction: an integer column when every cell holds an integer, otherwise floats with -1.0 for an empty cell;
    Experiment: an empty cell is the file stem."""
    lines = design["lines"]
    has_exp = design["kind"] == "mq" or design["ncols"] >= 3
    has_frac = design["kind"] == "mq" or design["ncols"] >= 4
    fr = [l["frac"] if has_frac else None for l in lines]
    ints = all(x is not None for x in fr) and len(fr) > 0
    out = []
    for l, x in zip(lines, fr):
        stem = design_stem(l["name"])
        e = l["exp"] if has_exp and l["exp"] is not None else stem
        out.append([stem, e, str(int(x)) if ints else repr(float(-1 if x is None else x))])
    return out


def o_design(case):
    """None (no design, or a design without lines: the code falls back to the parsed experiments), {"err": enum},
    or {"exps": first occurrences in design order, "map": {stem: (experiment, fraction)}}"""
    d = case.get("design")
    if not d:
        return None
    norm = normalise_design(d)
    if not norm:
        return None
    names = [x[0] for x in norm]
    if len(set(names)) != len(names):
        return {"err": "design_duplicate_name"}
    exps = []
    for _, e, _ in norm:
        if e not in exps:
            exps.append(e)
    return {"exps": exps, "map": {n: (e, f) for n, e, f in norm}}


def row_raw(r):
    return r.get("raw", "raw_" + r["exp"])


def gen_design(rng, exps_hint=None):
    """a design: 1-5 raw files over 1-4 experiments, experiments mostly NOT in alphabetical order"""
    nraw = rng.choice([1, 2, 3, 3, 4, 5])
    raws = rng.sample(DESIGN_RAWS, nraw)
    exps = rng.sample(DESIGN_EXPS, min(nraw, rng.choice([1, 2, 2, 3, 3, 4])))
    if len(exps) > 1 and rng.random() < 0.75 and exps == sorted(exps):
        exps.reverse()
    kind = rng.choice(["mq", "mq", "mq", "filelist"])
    # every experiment gets a raw file, the others are spread
    assign = list(exps) + [rng.choice(exps) for _ in range(nraw - len(exps))]
    if rng.random() < 0.5:
        head, tail = assign[:1], assign[1:]
        rng.shuffle(tail)
        assign = head + tail  # keeps exps[0] first, later experiments may first occur in any order
    frac_mode = rng.choice(["ints", "ints", "some_empty", "all_empty"])
    lines = []
    for raw, e in zip(raws, assign):
        deco = rng.choice(["", "", ".raw", ".d", "dir/sub/", "dir/"])
        name = (deco + raw) if deco.endswith("/") else (raw + deco)
        if deco.endswith("/") and rng.random() < 0.5:
            name += ".raw"
        frac = rng.choice([1, 2, 3, 12])
        if frac_mode == "all_empty" or (frac_mode == "some_empty" and rng.random() < 0.4):
            frac = None
        lines.append({"name": name, "exp": e, "frac": frac, "cond": rng.choice(["c1", "c2", "ctrl", None])})
    if rng.random() < 0.15:  # an empty Experiment cell: the experiment is the file stem
        rng.choice(lines)["exp"] = None
    d = {"kind": kind, "lines": lines}
    if kind == "mq":
        cols = ["Name", "Fraction", "Experiment"] + (["Condition"] if rng.random() < 0.4 else [])
        if rng.random() < 0.3:
            rng.shuffle(cols)
        d["columns"] = cols
    else:
        d["ncols"] = rng.choice([4, 4, 4, 3, 2])
    return d


# ----------------------------------------------------------------------------------------
# independent recomputation (the oracle's own reading of the property), exact Fractions
# ----------------------------------------------------------------------------------------
def o_is_decoy(ps):
    return all("REV__" in p for p in ps) or all("rev_" in p for p in ps)


def o_proteins(leading):
    if o_is_decoy(leading):
        return list(leading)
    return [p for p in leading if not (p.startswith("REV__") or p.startswith("rev_"))]


def o_cutoff(peps, level):
    fin = sorted(unrat(p) for p in peps if not isinstance(p, str))
    s = Fraction(0)
    for k, v in enumerate(fin):
        s += v
        if s / (k + 1) > level:
            return v
    return Fraction(1)


def _dyadic(v):
    d = v.denominator
    return d & (d - 1) == 0 and d <= 2**20


def o_near_tie(peps, level):
    """True when the float scan of the code and the exact scan may decide differently: a running mean that rounds
    onto the level without being equal to it, or - when the PEPs are not all small dyadic rationals, so that the
    float running sums are rounded - a running mean of two or more values within 2^-40 (relative) of the level."""
    fin = sorted(unrat(p) for p in peps if not isinstance(p, str))
    exact_sums = all(_dyadic(v) for v in fin)
    s = Fraction(0)
    for k, v in enumerate(fin):
        s += v
        m = s / (k + 1)
        if m != level and (m.numerator / m.denominator) == float(level):
            return True
        if not exact_sums and k >= 1 and abs(m - level) <= Fraction(1, 2**40) * max(abs(level), abs(m)):
            return True
    return False


# PEP values that are NOT representable in single precision and clusters of values that differ only beyond the
# 7th significant digit: a cutoff (or a comparison with it) that went through float32 cannot reproduce them
CLOSE_BASES = [0.1, 0.2, 0.01, 0.003, 0.05, 0.0123456789, 0.3333333333333333, 0.007, 0.7]


def close_pep(rng, bases):
    b = rng.choice(bases)
    d = rng.choice([0, 0, 1, 1, 2, -1, 3])
    return rat(float(b + d * rng.choice([1e-10, 1e-10, 1e-9, 3e-12])))


def with_cutoff_obs(view):
    """what the observation of the real writer must show for a model / oracle view: every value handed to the
    precursor filter and to the columns is the cutoff, as a double"""
    if isinstance(view, dict) and "cutoff" in view:
        view = dict(view)
        view["cutoffSeen"] = [view["cutoff"]]
        view["cutoffDouble"] = True
    return view


def o_pq(r):
    return [
        r["pep"],
        r["z"],
        r["exp"],
        r["frac"],
        num_val(r["int"]),
        r["pp"],
        [num_val(x) for x in r["tmt"]],
        [num_val(x) for x in r["silac"]],
        r["id"],
    ]


def recompute(case):
    """Everything the property talks about, recomputed from the evidence rows."""
    groups = case["groups"]
    level = unrat(case["level"])
    ibaq = dict((p, n) for p, n in case["ibaq"])
    home = {}
    for gi, g in enumerate(groups):
        for p in g:
            home[p] = gi  # the reported group of a protein (groups are disjoint in all but a few generated cases)
    design = o_design(case)
    if design is not None and "err" in design:
        return design
    parsed = []
    for fi, r in ((fi, r) for fi, rows in enumerate(case["files"]) for r in rows):
        lead = o_leading(case, fi, r)
        if lead is None:
            return {"undecided": "unbalanced modification tokens in %r" % r["pep"]}
        ps = o_proteins(lead)
        if ps:
            if design is not None:
                # experiment and fraction of the row's raw file in the design; a raw file without a line is an error
                if row_raw(r) not in design["map"]:
                    return {"err": "raw_file_not_in_design"}
                e, fr = design["map"][row_raw(r)]
                r = dict(r, exp=e, frac=fr)
            parsed.append((r, ps))
    if design is not None:
        exps = list(design["exps"])  # design order, every experiment of the design (also without rows)
    else:
        exps = sorted({r["exp"] for r, _ in parsed})
    n_silac = len(parsed[0][0]["silac"]) if parsed else -1
    n_tmt = len(parsed[0][0]["tmt"]) // 3 if parsed else -1
    if n_silac in (2, 3):
        S = n_silac
    elif n_silac > 0:
        return {"err": "bad_silac_channels"}
    else:
        S = 0
    att = [[] for _ in groups]
    peps = []
    for r, ps in parsed:
        homes = {home.get(p, -1) for p in ps}
        if len(homes) == 1 and -1 not in homes:
            att[next(iter(homes))].append(r)
            if not o_is_decoy(ps):
                peps.append(r["pp"])
    cutoff = o_cutoff([p for p in peps if p != "nan"], level)

    def passes(r):
        return not isinstance(r["pp"], str) and unrat(r["pp"]) <= cutoff

    def is_used(r):
        return r["pp"] == "nan" or passes(r)

    out_groups = []
    silac_raises = tmt_raises = spill = False
    for gi, g in enumerate(groups):
        if not att[gi]:
            continue
        ident = {(r["pep"], r["z"]) for r in att[gi] if passes(r)}
        qs = [r for r in att[gi] if (r["pep"], r["z"]) in ident]
        usedq = [r for r in qs if is_used(r)]
        counts = [len({r["pep"] for r in usedq})] + [len({r["pep"] for r in usedq if r["exp"] == e}) for e in exps]
        idt = []
        for e in exps:
            if any(passes(r) for r in qs if r["exp"] == e):
                idt.append("By MS/MS")
            elif any(r["pp"] == "nan" for r in qs if r["exp"] == e):
                idt.append("By matching")
            else:
                idt.append("")
        # rows of a file with other SILAC / reporter columns than the first parsed row: the code raises here ...
        for r in usedq:
            if num_val(r["int"]) is not None and r["silac"] and exps.index(r["exp"]) * (1 + S) + len(r["silac"]) >= len(exps) * (1 + S):
                silac_raises = True
            if n_tmt > 0 and len(r["tmt"]) not in (3 * n_tmt, 1):
                tmt_raises = True
            # ... or writes values where they do not belong (no exception): more SILAC values than slots per
            # experiment, a single reporter value broadcast into all reporter cells
            if (num_val(r["int"]) is not None and len(r["silac"]) > S) or (n_tmt > 0 and len(r["tmt"]) == 1):
                spill = True
        intens = []
        for e in exps:
            sel = [r for r in usedq if r["exp"] == e and num_val(r["int"]) is not None]
            intens.append(sum((unrat(num_val(r["int"])) for r in sel), Fraction(0)))
            for k in range(S):  # the direct recomputation: channel k of the rows of THIS experiment that have one
                intens.append(sum((unrat(num_val(r["silac"][k])) for r in sel if k < len(r["silac"])), Fraction(0)))
        total = sum(intens[:: S + 1], Fraction(0))
        npeps = [ibaq.get(p, 0) for p in g]
        lead = max(1, npeps[0])
        tmt = []
        if n_tmt > 0:
            for e in exps:
                for k in range(3 * n_tmt):
                    tmt.append(sum((unrat(num_val(r["tmt"][k])) for r in usedq if r["exp"] == e and k < len(r["tmt"])), Fraction(0)))
        out_groups.append(
            {
                "ids": list(g),
                "quants": [o_pq(r) for r in qs],
                "counts": counts,
                "idType": idt,
                "total": rat(total),
                "intens": [rat(x) for x in intens],
                "nPeps": npeps,
                "ibaqTotal": rat(total / lead),
                "ibaq": [rat(x / lead) for x in intens],
                "tmt": [rat(x) for x in tmt],
                "evidenceIds": sorted(r["id"] for r in usedq),
            }
        )
    # the summed-intensity generator runs before the reporter generator; an exception in any group ends the run
    if silac_raises:
        return {"err": "silac_index_out_of_range"}
    if tmt_raises:
        return {"err": "tmt_shape_mismatch"}
    out = {
        "experiments": exps,
        "nSilac": n_silac,
        "nTmt": n_tmt,
        "peps": peps,
        "cutoff": rat(cutoff),
        "attached": [[o_pq(r) for r in a] for a in att],
        "groups": out_groups,
        "_used_rows": sum(1 for gi in range(len(groups)) for r in att[gi]),
    }
    if spill:
        out["_spill"] = True
    return out


def spill_registered():
    """is the candidate finding `kf_mixed_layout_spill` registered in known_findings.json?  Only then does the oracle
    state the property on the cases it concerns (they would otherwise be unexplained violations on the unchanged tree)"""
    try:
        import json

        with open(os.path.join(str(lib.VERIF), "known_findings.json")) as f:
            return any(k.get("predicate") == "kf_mixed_layout_spill" and k.get("status") == "known"
                       for k in json.load(f).get("findings", []))
    except Exception:
        return False


def fill_foreign_cells(view, impl_out):
    """the model's column pipeline (`cells`: extraColumns of every written row in the writer's order) made comparable
    with the raw cells of the implementation: `;`-joined cells as text, float cells as the correctly rounded double, and
    the cells of the generators C12 does not speak about (annotation, MaxLFQ, sequence coverage: `null` in the model)
    taken over from the implementation's row when the two rows have the same length"""
    if not isinstance(view, dict) or "cells" not in view:
        return view
    icells = impl_out.get("cells") if isinstance(impl_out, dict) else None
    out = []
    for gi, row in enumerate(view["cells"]):
        irow = icells[gi] if isinstance(icells, list) and gi < len(icells) and len(icells[gi]) == len(row) else None
        new = []
        for ci, c in enumerate(row):
            if c is None:
                new.append(irow[ci] if irow is not None else None)
            elif isinstance(c, dict):
                new.append(";".join(str(x) for x in c["join"]))
            elif isinstance(c, list):
                new.append(rat(rat_to_float(c)))
            else:
                new.append(c)
        out.append(new)
    return dict(view, cells=out)


def round_quotients(view):
    """model / oracle values -> what the implementation can hold: iBAQ quotients become the
    correctly rounded double (one true division); sums stay exact"""
    if "groups" not in view:
        return view
    v = dict(view)
    v["groups"] = []
    for g in view["groups"]:
        g = dict(g)
        g["ibaqTotal"] = rat(rat_to_float(g["ibaqTotal"]))
        g["ibaq"] = [rat(rat_to_float(x)) for x in g["ibaq"]]
        v["groups"].append(g)
    v.pop("_used_rows", None)
    v.pop("_spill", None)
    return v


IBAQ_RTOL = Fraction(1, 10 ** 12)


def _skey(x):
    import json

    return json.dumps(x, sort_keys=True, default=str)


def oracle_form(view):
    """a recomputation / an implementation output up to what the property TEXT fixes (audit-3, C12-1/2/4): the precursors
    attached to a group, the precursors kept after the identification filter, the evidence ids of a group and the list of
    PEPs handed on are collections -- every C12 column is a sum, a count, an `any` or a set over them, and the text names
    no order.  The ORDER the code keeps them in is pinned by the model and compared on the correspondence side
    (model_view / impl_view are compared as they are)."""
    if not isinstance(view, dict):
        return view
    v = dict(view)
    if isinstance(v.get("attached"), list):
        v["attached"] = [sorted(a, key=_skey) if isinstance(a, list) else a for a in v["attached"]]
    if isinstance(v.get("peps"), list):
        v["peps"] = sorted(v["peps"], key=_skey)
    if isinstance(v.get("groups"), list):
        gs = []
        for g in v["groups"]:
            if isinstance(g, dict):
                g = dict(g)
                if isinstance(g.get("quants"), list):
                    g["quants"] = sorted(g["quants"], key=_skey)
                if isinstance(g.get("evidenceIds"), list):
                    g["evidenceIds"] = sorted(g["evidenceIds"], key=_skey)
            gs.append(g)
        v["groups"] = gs
    return v


def _close_rat(a, b, rtol=IBAQ_RTOL):
    try:
        x, y = unrat(a), unrat(b)
    except Exception:
        return False
    return x == y or abs(x - y) <= rtol * max(abs(x), abs(y))


def accept_close_ibaq(want, got):
    """audit-3, C12-3: "iBAQ (intensity divided by the leading protein's theoretical peptide number, at least 1)" fixes the
    real quotient, not one floating-point evaluation of it: i / n, i * (1.0 / n) ... all satisfy the text.  An iBAQ value
    of the implementation within 1e-12 (relative) of the recomputed quotient is taken over into `want`; the correctly
    rounded single division stays pinned on the correspondence side (model_view rounds the model's rational once)."""
    if not (isinstance(want, dict) and isinstance(got, dict) and isinstance(want.get("groups"), list) and isinstance(got.get("groups"), list)):
        return want
    if len(want["groups"]) != len(got["groups"]):
        return want
    gs = []
    for w, g in zip(want["groups"], got["groups"]):
        if isinstance(w, dict) and isinstance(g, dict):
            w = dict(w)
            if "ibaqTotal" in g and _close_rat(w.get("ibaqTotal"), g["ibaqTotal"]):
                w["ibaqTotal"] = g["ibaqTotal"]
            if isinstance(g.get("ibaq"), list) and isinstance(w.get("ibaq"), list) and len(g["ibaq"]) == len(w["ibaq"]):
                w["ibaq"] = [y if _close_rat(x, y) else x for x, y in zip(w["ibaq"], g["ibaq"])]
        gs.append(w)
    return dict(want, groups=gs)


def first_diff(a, b, path=""):
    if type(a) != type(b):
        return f"{path}: {a!r} vs {b!r}"
    if isinstance(a, dict):
        for k in sorted(set(a) | set(b)):
            if k not in a or k not in b:
                return f"{path}.{k}: only on one side"
            d = first_diff(a[k], b[k], f"{path}.{k}")
            if d:
                return d
        return None
    if isinstance(a, list):
        if len(a) != len(b):
            return f"{path}: length {len(a)} vs {len(b)}: {str(a)[:120]} vs {str(b)[:120]}"
        for i, (x, y) in enumerate(zip(a, b)):
            d = first_diff(x, y, f"{path}[{i}]")
            if d:
                return d
        return None
    return None if a == b else f"{path}: {a!r} vs {b!r}"


def fmt0(fr):
    """'%.0f' % float — round half to even on the exact binary value (done with integers here)"""
    v = fr.numerator / fr.denominator  # the double the implementation holds
    f = Fraction(*v.as_integer_ratio())
    sign = "-" if f < 0 else ""
    f = abs(f)
    n, rem = divmod(f.numerator, f.denominator)
    twice = 2 * rem
    if twice > f.denominator or (twice == f.denominator and n % 2 == 1):
        n += 1
    if n == 0 and sign:
        return "-0"
    return sign + str(n)


# ----------------------------------------------------------------------------------------
# end-to-end CLI cases (extra stage): written proteinGroups.txt columns, formatted with '%.0f'
# ----------------------------------------------------------------------------------------
CLI_PEPTIDES = ["AAAAAAK", "CCCCCCR", "DDDDDDK", "EEEEEEK", "GGGGGGR", "HHHHHHK", "LLLLLLR", "NNNNNNK",
                "AAAMPEPTMDEK", "AAAMDEK", "MSTYAAMK", "DDMAAAAMPEPTIDEK", "DDMPEPTIDEK"]
PG_HEADERS = [
    "Protein IDs", "Majority protein IDs", "Peptide counts (unique)", "Best peptide", "Number of proteins",
    "Q-value", "Score", "Reverse", "Potential contaminant",
]
UNMODELLED = {"Protein names", "Gene names", "Fasta headers"}


def clean_peptide(p):
    return o_strip(p)


def is_unmodelled_header(h):
    # `LFQ Intensity …`: the MaxLFQ cells of runs with the default options are not compared (property C11)
    return h in PG_HEADERS or h in UNMODELLED or "equence coverage [%]" in h or h.startswith("LFQ Intensity ")


def fmt_cell(x):
    """writers.base._format_extra_columns on a model value"""
    if isinstance(x, str):
        return x
    if isinstance(x, int):
        return "%d" % x
    return fmt0(unrat(x))


class _Raw:
    """a cell of the recomputed table as a VALUE (oracle side, audit-3 C12-5): kind 'num' (Fraction or int), 'ids' (a
    collection of integers), 'ints' (one integer per protein of the group, in the group's order), 'text'"""

    def __init__(self, kind, val):
        self.kind, self.val = kind, val

    def __repr__(self):
        return "%s:%r" % (self.kind, self.val)


def _raw_cell(x):
    if isinstance(x, str):
        return _Raw("text", x)
    if isinstance(x, int):
        return _Raw("num", Fraction(x))
    return _Raw("num", unrat(x))


def _parse_ints(text):
    try:
        return [int(float(t)) if float(t) == int(float(t)) else float(t) for t in text.split(";") if t.strip() != ""]
    except (ValueError, OverflowError):
        return None


def cell_diff(want, text):
    """does the written cell `text` hold the recomputed value?  Numbers are compared as numbers: the writer's number
    format ('%.0f' today) is not part of the property, so a written number must lie within 0.5 (+ 1e-12 relative) of the
    recomputed one -- which every rounding to integers or to more digits does; evidence ids as a collection of integers."""
    if isinstance(want, str):  # identification types: the text itself
        want = _Raw("text", want)
    if not isinstance(text, str):
        return "%r vs %r" % (want, text)
    if want.kind == "text":
        return None if text == want.val else "%r vs %r" % (want.val, text)
    if want.kind == "num":
        try:
            v = Fraction(float(text)) if text.strip().lower() not in ("nan", "inf", "-inf", "") else None
        except (ValueError, OverflowError):
            v = None
        if v is None:
            return "%r vs %r" % (float(want.val), text)
        slack = Fraction(1, 2) + IBAQ_RTOL * abs(want.val)
        return None if abs(v - want.val) <= slack else "%r vs %r" % (float(want.val), text)
    got = _parse_ints(text)
    if got is None:
        return "%r vs %r" % (want.val, text)
    if want.kind == "ids":
        return None if sorted(got, key=float) == sorted(want.val) else "ids %r vs %r" % (sorted(want.val), text)
    return None if got == list(want.val) else "%r vs %r" % (want.val, text)


def table_value_diff(want, written, path="table"):
    """the oracle's comparison of a written proteinGroups.txt with the recomputation (`want` = table_from_view(..., raw=True)):
    the same reported rows (identifier cell), and under every header the recomputation names that the table HAS, the
    recomputed value (cell_diff).  Headers of the table the recomputation does not name are not judged (other generators);
    a header the recomputation names that the table lacks is not judged either -- the header STRINGS are the model's
    (theorems cells_under_named_headers), compared as text on the correspondence side."""
    if not isinstance(want, dict) or "rows" not in want:
        return first_diff(want, written, path)
    if not isinstance(written, dict) or "rows" not in written:
        return "%s: %r vs %r" % (path, "rows", written)
    wr, gr = want["rows"], written["rows"]
    if len(wr) != len(gr):
        return "%s.rows: length %d vs %d: %s vs %s" % (path, len(wr), len(gr), [r["ids"] for r in wr][:6], [r.get("ids") for r in gr][:6])
    for i, (w, g) in enumerate(zip(wr, gr)):
        if w["ids"] != g.get("ids"):
            return "%s.rows[%d].ids: %r vs %r" % (path, i, w["ids"], g.get("ids"))
        for h, c in w["cols"].items():
            if h not in g["cols"]:
                continue
            d = cell_diff(c, g["cols"][h])
            if d:
                return "%s.rows[%d].cols.%s: %s" % (path, i, h, d)
    return None


def table_from_view(view, raw=False):
    """model / oracle values -> {header: text} per reported row, in the MaxQuant writer's header names
    (raw=True: {header: _Raw value}, for table_value_diff)"""
    if "groups" not in view:
        return view
    if raw:
        fmt_cell = _raw_cell
    else:
        fmt_cell = globals()["fmt_cell"]
    exps = view["experiments"]
    S = view["nSilac"] if view["nSilac"] > 0 else 0
    T = view["nTmt"]
    chans = SILAC_NAMES.get(S, [])
    rows = []
    for g in view["groups"]:
        col = {"Combined Total Peptides": fmt_cell(g["counts"][0])}
        for i, e in enumerate(exps):
            col["Unique peptides " + e] = fmt_cell(g["counts"][i + 1])
            col["Identification type " + e] = g["idType"][i]
        col["Intensity"] = fmt_cell(g["total"])
        col["iBAQ"] = fmt_cell(g["ibaqTotal"])
        col["Number of theoretical peptides iBAQ"] = _Raw("ints", list(g["nPeps"])) if raw else ";".join(str(n) for n in g["nPeps"])
        k = 0
        for e in exps:
            col["Intensity " + e] = fmt_cell(g["intens"][k])
            col["iBAQ " + e] = fmt_cell(g["ibaq"][k])
            k += 1
            for ch in chans:
                col["Intensity " + ch + " " + e] = fmt_cell(g["intens"][k])
                col["iBAQ " + ch + " " + e] = fmt_cell(g["ibaq"][k])
                k += 1
        if T > 0:
            k = 0
            for e in exps:
                for kind in ("Reporter intensity corrected ", "Reporter intensity ", "Reporter intensity count "):
                    for i in range(1, T + 1):
                        col[kind + str(i) + " " + e] = fmt_cell(g["tmt"][k])
                        k += 1
        col["Evidence IDs"] = _Raw("ids", list(g["evidenceIds"])) if raw else ";".join(str(i) for i in g["evidenceIds"])
        rows.append({"ids": ";".join(g["ids"]), "cols": col})
    return {"rows": rows}


def run_cli(case):
    tmp = tempfile.mkdtemp(prefix="c12cli_")
    try:
        fasta = os.path.join(tmp, "db.fasta")
        with open(fasta, "w") as f:
            for name, seq in case["fasta"]:
                f.write(">%s\n%s\n" % (name, seq))
        evs = []
        for i, rows in enumerate(case["files"]):
            p = os.path.join(tmp, f"evidence_{i}.txt")
            render_evidence(p, rows, file_layout(case, i))
            evs.append(p)
        out = os.path.join(tmp, "out.txt")
        level = rat_to_float(case["level"])
        tail = ["--protein_groups_out", out, "--fasta", fasta, "--psm_fdr_cutoff", repr(level)]
        if not case.get("lfq"):  # case["lfq"]: the DEFAULT options, MaxLFQ enabled
            tail.append("--skip_lfq")
        if case.get("design"):
            dpath = os.path.join(tmp, "experimentalDesignTemplate.txt")
            render_design(dpath, case["design"])
            tail += ["--experimental_design_file" if case["design"]["kind"] == "mq" else "--file_list_file", dpath]
        if case["cli"] == "quant":
            pg = os.path.join(tmp, "proteinGroups.txt")
            with open(pg, "w", newline="") as f:
                w = csv.writer(f, delimiter="\t")
                w.writerow(PG_HEADERS)
                for g in case["groups"]:
                    w.writerow([";".join(g), ";".join(g), ";".join("1" for _ in g), "", len(g), 0.001, 10.0, "", ""])
            argv = ["--mq_evidence"] + evs + ["--mq_protein_groups", pg] + tail
            cmd = [lib.PY, "-m", "picked_group_fdr.quantification"] + argv
        else:
            argv = ["--mq_evidence"] + evs + ["--methods", case["method"], "--do_quant"] + tail
            cmd = [lib.PY, "-m", "picked_group_fdr"] + argv
        pr = subprocess.run(cmd, env=lib.impl_env(), capture_output=True, text=True, timeout=300, cwd=tmp)
        if pr.returncode != 0 or not os.path.exists(out):
            return {"exc": "CliFailed", "msg": (pr.stderr or pr.stdout)[-600:]}
        with open(out, newline="") as f:
            table = list(csv.reader(f, delimiter="\t"))
        hdr = table[0]
        rows = []
        for line in table[1:]:
            if len(line) != len(hdr):
                return {"err": "ragged", "headers": len(hdr), "values": len(line)}
            d = dict(zip(hdr, line))
            rows.append({"ids": d["Protein IDs"], "cols": {h: v for h, v in d.items() if not is_unmodelled_header(h)}})
        if len(set(hdr)) != len(hdr):
            return {"err": "duplicate_headers"}
        # inputs of the model that the CLI derives from the FASTA (properties C08/C09): the peptide -> protein
        # map used for remapping and the iBAQ peptide numbers, obtained from the real digestion code
        from picked_group_fdr import quantification, peptide_protein_map, digest

        args = quantification.parse_args(
            ["--mq_evidence"] + evs + ["--mq_protein_groups", "unused", "--protein_groups_out", out, "--fasta", fasta]
        )
        args.mq_protein_groups = None  # only read for "_entrapment" identifiers, which are not generated
        maps = peptide_protein_map.get_peptide_to_protein_maps_from_args(args, False)
        pepmap = {}
        for r in all_rows(case):
            cp = clean_peptide(r["pep"])
            pepmap[cp] = list(digest.get_proteins(maps[0], cp))
        ibaq = digest.get_num_ibaq_peptides_per_protein_from_args(args, maps)
        prots = sorted({p for row in rows for p in row["ids"].split(";")} | {p for g in case.get("groups", []) for p in g})
        return {"rows": rows, "_rec": {"pepmap": pepmap, "ibaq": [[p, int(ibaq.get(p, 0))] for p in prots]}}
    finally:
        shutil.rmtree(tmp, ignore_errors=True)


def cli_abstract(case, impl_out):
    """the abstract case (evidence rows with the remapped protein lists, reported groups, iBAQ numbers)
    that the in-process machinery understands"""
    rec = impl_out["_rec"]
    if "no_remap" in case.get("method", ""):  # the protein lists are taken from the evidence file as they are
        files = case["files"]
    else:  # remapped through the digested FASTA; a peptide that is not found is dropped by the parser
        files = [[dict(r, prot=rec["pepmap"].get(clean_peptide(r["pep"]), [])) for r in rows] for rows in case["files"]]
    if case["cli"] == "quant":
        groups = case["groups"]
    else:  # the reported groups are read back from the written table
        groups = [row["ids"].split(";") for row in impl_out["rows"]]
    return {"files": files, "groups": groups, "level": case["level"], "ibaq": rec["ibaq"], "layout": case["layout"],
            "design": case.get("design")}


def gen_cli_case(rng, flow, with_design=False, lfq=False):
    case = _gen_cli_case(rng, flow, lfq)
    if lfq:
        case["lfq"] = True
    if with_design:
        # --experimental_design_file (the only layout the command line can use, see notes/C12.md): 2-4 raw files, the
        # experiments in NON-alphabetical design order
        d = None
        for _ in range(50):
            d = gen_design(rng)
            norm = normalise_design(d)
            exps = [e for i, (_, e, _) in enumerate(norm) if e not in [x[1] for x in norm[:i]]]
            if d["kind"] == "mq" and len(exps) >= 2 and exps != sorted(exps):
                break
        stems = [design_stem(l["name"]) for l in d["lines"]]
        for r in case["files"][0]:
            r["raw"] = rng.choice(stems)
        case["design"] = d
    return case


def _gen_cli_case(rng, flow, lfq=False):
    nprot = rng.choice([3, 4, 5])
    names = ["P%d" % (i + 1) for i in range(nprot)]
    seqs = {}
    for n in names:
        seqs[n] = rng.sample(CLI_PEPTIDES, rng.choice([2, 3, 3, 4]))
    fasta = [[n, "".join(seqs[n])] for n in names]
    layout = {
        "silac": rng.choice([0, 0, 2, 3]),
        "tmt": rng.choice([0, 0, 0, 2]),
        "has_experiment": True,
        "has_fraction": rng.random() < 0.5,
    }
    exps = rng.sample(["E1", "E2", "E10"], rng.choice([1, 2, 3]))
    if lfq:  # the MaxLFQ generator is valid with >= 2 experiments and without reporter channels
        layout["tmt"] = 0
        exps = rng.sample(["E1", "E2", "E10"], rng.choice([2, 3]))
    rows = []
    for i in range(rng.choice([10, 14, 18, 22])):
        pep = rng.choice(CLI_PEPTIDES + ["WWWWWWK"])
        if rng.random() < 0.45:  # 1-3 modification tokens in any notation (the CLI remaps through the stripped sequence)
            pep = spell(rng, pep, rng.choice([1, 2, 2, 3]), rng.choice(["short", "long", "bracket", "bracket_plain", "mixed"]))
        if rows and rng.random() < 0.35:
            pep = rng.choice(rows)["pep"]
        r = rng.random()
        pp = "nan" if r < 0.25 else rat(Fraction(rng.randint(0, 12 if r < 0.9 else 1024), 1024))
        r = rng.random()
        inten = None if r < 0.05 else "empty" if r < 0.1 else rat(Fraction(2 * rng.randint(0, 3000) + rng.choice([0, 0, 1]), 2))
        if lfq and rng.random() < 0.2:  # identified rows without an MS1 intensity
            inten = rng.choice([None, "empty", rat(0)])
        rows.append(
            {
                "id": i,
                "pep": pep,
                "z": rng.choice([2, 2, 3]),
                "exp": rng.choice(exps),
                "frac": str(rng.choice([1, 2])) if layout["has_fraction"] else "-1",
                "prot": [n for n in names if clean_peptide(pep) in seqs[n]] or ["Q0"],
                "int": inten,
                "pp": pp,
                "silac": [rat(Fraction(rng.randint(0, 5000), rng.choice([1, 2]))) for _ in range(layout["silac"])],
                "tmt": [rat(Fraction(rng.randint(0, 3000), rng.choice([1, 2]))) for _ in range(3 * layout["tmt"])],
            }
        )
    case = {
        "cli": flow,
        "fasta": fasta,
        "files": [rows],
        # mostly NOT the default 0.01 (= the default of --protein_group_fdr_threshold): a command line that hands the
        # wrong threshold to the writer is visible only when the two differ; 0.002 lies inside the running PEP means
        "level": rat(rng.choice([0.01, 0.05, 0.002, 0.002, 0.004])),
        "layout": layout,
    }
    if flow == "quant":
        pool = list(names)
        rng.shuffle(pool)
        groups = []
        while pool:
            k = rng.choice([1, 1, 2])
            groups.append(pool[:k])
            pool = pool[k:]
        if rng.random() < 0.5:
            groups = groups[:-1]  # an unreported protein
        case["groups"] = groups
    else:
        case["method"] = rng.choice(["picked_protein_group_mq_input", "picked_protein_group_mq_input_no_remap"])
    return case


class P(Prop):
    id = "C12"
    quick_cases = 1600
    thorough_cases = 60000
    chunk = 100
    rule = (
        "evidence file sets rendered from abstract rows: 1-2 files, 0-14 rows, 1-3 experiments, optional Fraction / "
        "Experiment columns, charges 2-3, 8 peptides (one modified form), MBR rows (empty PEP), NaN / empty intensities, "
        "label free / SILAC 2 / SILAC 3 / (rarely 1 = rejected) / TMT 1-2 channels; in ~8 % of the cases the 2-3 files of the set "
        "have DIFFERENT SILAC / reporter columns (label free, L only, L/H, L/M/H; 0-2 reporter channels or a single reporter "
        "column), so that the code raises IndexError / ValueError / TypeError in a column loop or writes values into the "
        "slots of other experiments; 1-4 reported groups over 6 base "
        "proteins with REV__/rev_/CON__ variants, rows unique / shared / partly unknown / decoy-mixed; PSM FDR levels on "
        "and off the attained running means; in 30 % of the cases the PEPs come from clusters around non-dyadic values "
        "(0.1, 0.2, 0.0123456789, ...) whose members differ only beyond the 7th significant digit (not representable in "
        "single precision); 35 % of the cases carry an experimental design (MaxQuant template layout with permuted columns / "
        "optional Condition, or the headerless file list with 2-4 columns): 1-5 raw files (plain, with extension, with "
        "directories) over 1-4 of 10 experiment names, design order not alphabetical in ~75 % of the multi-experiment designs, "
        "experiments without rows, empty Experiment / Fraction cells, rarely an unlisted raw file, a repeated name, a design "
        "without lines; about half of the single-layout cases build the writer with the DEFAULT options (skip_lfq=False: the "
        "MaxLFQ generator runs between the C12 generators on the same precursor lists; mostly >= 2 experiments and no reporter "
        "channels so that it is valid; a quarter of their rows are identified rows with an empty / 0 / NaN Intensity cell); "
        "~30 % of the cases run a REMAPPING method with 1 or one-per-file digest maps over 3-8 of 14 bare peptides (the pool "
        "holds the remainders of a too greedy stripping), rows spelled with 0-4 modification tokens in the notations (ox) / "
        "(Oxidation (M)) / [Oxidation (M)] / [+15.995] / mixed, N-terminal tokens included, the Leading proteins cell "
        "unrelated; non-trivial = at least one group keeps a used precursor and at least one "
        "row is left out; distinct by sha1 of the case"
    )
    assumptions = [
        "float sums of the generated dyadic intensities and PEPs are exact; float division is correctly rounded (IEEE); "
        "for the non-dyadic PEP clusters a running mean of >= 2 values within 2^-40 (relative) of the level is a near tie (skipped, counted)",
        "csv/float parsing of the rendered evidence fields returns the rendered doubles (repr round trip)",
        "only discard_shared_peptides=True (hard-coded in do_quantification) is modelled",
        "runs with the MaxLFQ generator enabled: the LFQ cells themselves are not compared (property C11); compared are the C12 "
        "cells, the header list incl. the LFQ names, the positions of all cells in extraColumns and pgr.precursorQuants after "
        "the writer ran; sets of files with different SILAC / reporter layouts are run with skip_lfq only",
        "remapping cases: generated modified sequences are well formed (balanced ( ) [ ], at most one level of nesting); the "
        "oracle strips them with its own bracket-depth scanner and does not decide on unbalanced strings (none generated); "
        "digest maps are plain dicts without repeated keys",
        "evidence files with different SILAC / reporter columns: the implementation's IndexError in _get_intensities and "
        "ValueError (broadcast) / TypeError in _get_tmt_intensities are EXPECTED exceptions (enums silac_index_out_of_range, "
        "tmt_shape_mismatch), recognised by the raising function's name; where no exception occurs and values land in other "
        "experiments' slots the oracle is undecided until known_findings.json registers kf_mixed_layout_spill (the "
        "correspondence with the model still compares every value)",
        "experimental design: the pandas parsing and normalize_experimental_design are restated by the harness (normalise_design: "
        "file stem, empty Experiment = stem, Fraction printed as the int / float pandas holds); names are non-numeric and none of "
        "pandas' NA spellings; the model starts from the normalised lines",
    ]
    trusted_extra = [
        "rendering of abstract evidence rows to evidence.txt in harness/props/C12.py (the parser's column picking, '' -> 0.0 / NaN conventions are restated there)",
        "C17 model PgFdr.C17.cutoff reused for the PEP cutoff (tied to fdr.calc_post_err_prob_cutoff by the C17 check)",
        "C10 model PgFdr.C10.removeMods / digestLookup / sourceProteins reused for the remapping of evidence rows (tied to "
        "helpers.remove_modifications and the mapper by the C10 check, and here by the remapping cases); C13 model of "
        "is_valid / header generators (C13.Gen) reused for the column pipeline and the header list with MaxLFQ",
    ]

    # -- generation -------------------------------------------------------------------
    def gen_case(self, rng, tier):
        nbase = rng.choice([2, 3, 4, 5, 6])
        base = BASE[:nbase]
        decoy_pref = rng.choice(["REV__", "REV__", "rev_"])
        # reported groups: a partition of a subset of the proteins (+ decoy / contaminant groups)
        pool = list(base)
        rng.shuffle(pool)
        groups = []
        while pool and len(groups) < 4:
            k = rng.choice([1, 1, 2, 2, 3])
            g, pool = pool[:k], pool[k:]
            if rng.random() < 0.8:
                groups.append(g)
        if rng.random() < 0.4 and base:
            groups.append([decoy_pref + rng.choice(base)])
        if rng.random() < 0.15 and base:
            groups.append(["CON__" + rng.choice(base)])
        if rng.random() < 0.06 and len(groups) >= 2:  # a protein listed by two reported groups (dict: last wins)
            groups[-1] = groups[-1] + [groups[0][0]]
        rng.shuffle(groups)
        reported = [p for g in groups for p in g]
        unknown = [p for p in base if p not in reported] + ["Z9"]

        layout = {
            "silac": rng.choice([0, 0, 0, 0, 0, 2, 2, 3, 3] + ([1] if rng.random() < 0.15 else [])),
            "tmt": rng.choice([0, 0, 0, 0, 0, 1, 2]),
            "has_experiment": rng.random() < 0.9,
            "has_fraction": rng.random() < 0.5,
        }
        exps = rng.sample(["E1", "E2", "E10", "b", "B"], rng.choice([1, 2, 2, 3]))
        if not layout["has_experiment"]:
            exps = ["Experiment1"]
        pep_grid = rng.choice([64, 1024, 1024])
        close_bases = rng.sample(CLOSE_BASES, rng.choice([1, 2, 2, 3])) if rng.random() < 0.3 else None
        nfiles = rng.choice([1, 1, 1, 2])
        # ~8 %: the evidence files of the set have DIFFERENT SILAC / reporter columns (the channel numbers of the run are
        # those of the first parsed row, every row carries the values of its own file)
        layouts = None
        if rng.random() < 0.08:
            nfiles = rng.choice([2, 2, 3])
            for _ in range(20):
                layouts = []
                for _fi in range(nfiles):
                    l = {"silac": rng.choice([0, 0, 0, 2, 2, 3, 1]), "tmt": rng.choice([0, 0, 0, 1, 2]), "tmt_single": False}
                    if l["tmt"] == 0 and rng.random() < 0.12:
                        l["tmt_single"] = True  # one "Reporter intensity 1" column only
                    layouts.append(l)
                if len({(l["silac"], n_reporter(l)) for l in layouts}) > 1:
                    break
            layout = dict(layout, silac=layouts[0]["silac"], tmt=layouts[0]["tmt"])  # labels: the first file's columns
            if rng.random() < 0.6 and layout["has_experiment"]:
                # room for values to land in a later experiment
                exps = rng.sample(["E1", "E2", "E10", "b", "B"], max(len(exps), rng.choice([3, 4, 5])))
        # ~50 % of the single-layout cases: the writer with the DEFAULT options, i.e. the MaxLFQ generator runs between the
        # C12 generators on the same per-group precursor list (valid with >= 2 experiments and no reporter channels)
        lfq = layouts is None and rng.random() < 0.5
        if lfq and rng.random() < 0.75:
            layout["tmt"] = 0
            if layout["has_experiment"] and len(exps) < 2:
                exps = rng.sample(["E1", "E2", "E10", "b", "B"], rng.choice([2, 2, 3]))
        # ~30 %: a REMAPPING method - the protein list of a row is the digest map's list of the stripped modified sequence
        remap_pool = rng.sample(MOD_BARE, rng.choice([3, 4, 6, 8])) if rng.random() < 0.3 else None
        spelled = remap_pool is not None or rng.random() < 0.15  # modification tokens also without remapping
        styles = ["short", "short", "long", "bracket", "bracket_plain", "mixed"]

        def draw_prot():
            t = rng.random()
            if groups and t < 0.55:  # unique: proteins of one group
                g = rng.choice(groups)
                prot = rng.sample(g, rng.randint(1, len(g)))
                if rng.random() < 0.15 and not o_is_decoy(prot):  # a decoy protein listed with targets is dropped
                    prot.insert(rng.randint(0, len(prot)), decoy_pref + rng.choice(base))
            elif len(groups) >= 2 and t < 0.75:  # shared between two groups
                g1, g2 = rng.sample(groups, 2)
                prot = [rng.choice(g1), rng.choice(g2)]
            elif t < 0.88 and reported:  # partly unknown
                prot = [rng.choice(reported), rng.choice(unknown)]
                rng.shuffle(prot)
            elif t < 0.95:  # unknown only
                prot = [rng.choice(unknown)]
            else:  # mixed decoy prefixes: not a decoy list, every member removed -> row dropped by the parser
                prot = ["REV__" + rng.choice(base), "rev_" + rng.choice(base)]
            return prot

        maps = None
        if remap_pool is not None:
            # one digest map for all files, or one per file (`parse_evidence_file_multiple` zips files and maps)
            maps = [[[b, draw_prot()] for b in remap_pool if rng.random() < 0.88]
                    for _ in range(nfiles if (nfiles > 1 and rng.random() < 0.5) else 1)]
        files = []
        next_id = 0
        for fi in range(nfiles):
            rows = []
            flay = dict(layout, **layouts[fi]) if layouts else layout
            for _ in range(rng.choice([0, 1, 2, 3, 4, 5, 6, 7, 8, 10, 14]) // nfiles + (1 if rng.random() < 0.5 else 0)):
                prot = draw_prot()
                r = rng.random()
                if r < 0.22:
                    pp = "nan"
                elif r < 0.25:
                    pp = "inf"
                elif close_bases and r < 0.9:
                    pp = close_pep(rng, close_bases)
                elif r < 0.8:
                    pp = rat(Fraction(rng.randint(0, max(1, pep_grid // 16)), pep_grid))
                else:
                    pp = rat(Fraction(rng.randint(0, pep_grid), pep_grid))
                r = rng.random()
                if r < 0.06:
                    inten = None
                elif r < 0.12:
                    inten = "empty"
                elif r < 0.3:
                    inten = rat(Fraction(2 * rng.randint(0, 2000) + 1, 2))
                else:
                    inten = rat(Fraction(rng.randint(0, 10**rng.choice([2, 3, 6]))))
                if lfq and rng.random() < 0.25:
                    # MaxQuant "MSMS" type rows: identified, no MS1 feature (empty / 0 / NaN Intensity cell)
                    inten = rng.choice([None, "empty", rat(0)])
                pep = rng.choice(PEPTIDES[: rng.choice([2, 4, 8])])
                if remap_pool is not None:
                    bare = rng.choice(remap_pool) if rng.random() < 0.93 else "WWWWWWK"
                    pep = spell(rng, bare, rng.choice([0, 1, 2, 2, 3, 4]), rng.choice(styles))
                elif spelled and rng.random() < 0.6:
                    pep = spell(rng, rng.choice(MOD_BARE[:6]), rng.choice([1, 2, 2, 3]), rng.choice(styles))
                row = {
                    "id": next_id if rng.random() < 0.9 else rng.randint(0, 30),
                    "pep": pep,
                    "z": rng.choice([2, 2, 3]),
                    "exp": rng.choice(exps),
                    "frac": str(rng.choice([1, 2, 3])) if layout["has_fraction"] else "-1",
                    "prot": prot,
                    "int": inten,
                    "pp": pp,
                    "silac": [
                        ("empty" if rng.random() < 0.1 else rat(Fraction(rng.randint(0, 5000), rng.choice([1, 1, 2]))))
                        for _ in range(flay["silac"])
                    ],
                    "tmt": [rat(Fraction(rng.randint(0, 3000), rng.choice([1, 1, 2]))) for _ in range(n_reporter(flay))],
                }
                prev = [x for f in files for x in f] + rows
                if prev and rng.random() < 0.35:  # another run of an earlier precursor (often match-between-runs)
                    src = rng.choice(prev)
                    row["pep"], row["prot"] = src["pep"], list(src["prot"])
                    if rng.random() < 0.8:
                        row["z"] = src["z"]
                    if rng.random() < 0.6:
                        row["pp"] = "nan"
                next_id += 1
                rows.append(row)
            files.append(rows)
        extra_keys = {}
        if lfq:
            extra_keys["lfq"] = True
            extra_keys["lfq_min"] = rng.choice([1, 2, 2])
        if maps is not None:
            extra_keys["remap"] = {"maps": maps}
        # FDR level
        rec = recompute(dict({"files": files, "groups": groups, "level": rat(0), "ibaq": []}, **extra_keys))
        fin = sorted(unrat(p) for p in rec.get("peps", []) if not isinstance(p, str))
        means = [sum(fin[: k + 1], Fraction(0)) / (k + 1) for k in range(len(fin))]
        r = rng.random()
        if means and r < 0.4:
            m = rng.choice(means)
            level = float(m)
            if F(level) != m:  # not representable: stay clear of the rounding boundary
                level += rng.choice([-1, 1]) * 2.0**-12
        elif means and r < 0.5:
            level = float(rng.choice(means)) + rng.choice([-1, 1]) * 2.0**-12
        else:
            level = rng.choice([0.0, 0.001, 0.01, 0.01, 0.05, 0.1, 0.25, 1.0])
        ibaq = [[p, rng.choice([0, 0, 1, 2, 3, 7, 12])] for p in sorted(set(reported)) if rng.random() < 0.8]
        case = dict({"files": files, "groups": groups, "level": rat(level), "ibaq": ibaq, "layout": layout}, **extra_keys)
        if layouts:
            case["layouts"] = layouts
        if rng.random() < 0.35:
            self._add_design(case, rng)
        return case

    @staticmethod
    def _add_design(case, rng):
        """an experimental design / file list over the case's evidence rows: every row gets a raw file of the design
        (the Experiment / Fraction columns of the evidence file are then ignored by the code)"""
        d = gen_design(rng)
        stems = [design_stem(l["name"]) for l in d["lines"]]
        for r in all_rows(case):
            r["raw"] = rng.choice(stems)
        x = rng.random()
        rows = all_rows(case)
        if x < 0.03 and rows:
            rng.choice(rows)["raw"] = "unlisted_raw"  # KeyError in the code when the parser yields this row
        elif x < 0.06 and len(d["lines"]) >= 2:
            d["lines"][-1]["name"] = d["lines"][0]["name"]  # pandas refuses a non-unique index
            for r in rows:
                r["raw"] = rng.choice([design_stem(l["name"]) for l in d["lines"]])
        elif x < 0.08 and d["kind"] == "mq":
            d["lines"] = []  # header only: an empty mapping is falsy, the run is the run without a design
        case["design"] = d

    def exhaustive_cases(self, tier):
        """every pair of evidence rows over 6 protein lists x 3 PEPs x 2 experiments (second row: same or
        another peptide), two reported groups, label free, level 1/100"""
        import itertools

        prot_lists = [["A1"], ["A1", "B2"], ["A1", "C3"], ["C3"], ["A1", "Z9"], ["REV__A1", "B2"]]
        peps = ["nan", rat(Fraction(1, 1024)), rat(Fraction(1, 2))]
        layout = {"silac": 0, "tmt": 0, "has_experiment": True, "has_fraction": False}
        one = list(itertools.product(prot_lists, peps, ["E1", "E2"]))
        out = []
        for (p1, q1, e1), (p2, q2, e2) in itertools.product(one, one):
            for pep2 in ("AAAAAAK", "CCCCCCR"):
                rows = [
                    {"id": 0, "pep": "AAAAAAK", "z": 2, "exp": e1, "frac": "-1", "prot": p1, "int": rat(100), "pp": q1, "silac": [], "tmt": []},
                    {"id": 1, "pep": pep2, "z": 2, "exp": e2, "frac": "-1", "prot": p2, "int": rat(7), "pp": q2, "silac": [], "tmt": []},
                ]
                out.append(
                    {
                        "files": [rows],
                        "groups": [["A1", "B2"], ["C3"]],
                        "level": rat(0.01),
                        "ibaq": [["A1", 2], ["C3", 0]],
                        "layout": layout,
                    }
                )
        return out

    # -- the implementation --------------------------------------------------------------
    def run_impl(self, case):
        if case.get("cli"):
            return run_cli(case)
        import collections
        import numpy as np
        from picked_group_fdr import results, writers
        from picked_group_fdr.protein_groups import ProteinGroups
        from picked_group_fdr.scoring_strategy import ProteinScoringStrategy

        tmp = tempfile.mkdtemp(prefix="c12_")
        try:
            paths = []
            for i, rows in enumerate(case["files"]):
                p = os.path.join(tmp, f"evidence_{i}.txt")
                render_evidence(p, rows, file_layout(case, i))
                paths.append(p)
            pgrs = results.ProteinGroupResults(
                [
                    results.ProteinGroupResult(
                        proteinIds=";".join(g),
                        majorityProteinIds=";".join(g),
                        peptideCountsUnique=";".join("1" for _ in g),
                        bestPeptide="",
                        numberOfProteins=len(g),
                        qValue=0.001,
                        score=1.0,
                        reverse="",
                        potentialContaminant="",
                    )
                    for g in case["groups"]
                ]
            )
            protein_groups = ProteinGroups.from_protein_group_results(pgrs)
            # a remapping method (what `python -m picked_group_fdr.quantification --fasta …` and the default methods of
            # `--do_quant` use): the protein list comes from the digest map of the file's position
            remap = case.get("remap")
            score_type = ProteinScoringStrategy("bestPEP" if remap else "no_remap bestPEP")
            pp_maps = [dict((k, list(v)) for k, v in m) for m in remap["maps"]] if remap else [None]
            ibaq = collections.defaultdict(int)
            for p, n in case["ibaq"]:
                ibaq[p] = n
            # case["lfq"]: the DEFAULT options of both command lines (skip_lfq=False, --lfq_min_peptide_ratios 2,
            # stabilisation and FastLFQ on, one thread): the MaxLFQ generator runs between the C12 generators
            writer = writers.MaxQuantProteinGroupsWriter(
                ibaq, {}, {}, not case.get("lfq"), case.get("lfq_min", 2), True, True, 1, {"groups": [], "groupLabels": []}, 0.01
            )
            level = rat_to_float(case["level"])
            experimental_design = None
            if case.get("design"):
                import argparse
                from picked_group_fdr import quantification

                dpath = os.path.join(tmp, "experimentalDesignTemplate.txt")
                render_design(dpath, case["design"])
                mq = case["design"]["kind"] == "mq"
                # the real selection + pandas parsing + normalisation of the design
                experimental_design = quantification.get_experimental_design(
                    argparse.Namespace(experimental_design_file=dpath if mq else None, file_list_file=None if mq else dpath)
                )
            try:
                pgrs, post_err_probs = score_type.get_quantification_parser()(
                    paths, paths, protein_groups, pgrs, pp_maps, experimental_design, True,
                    score_type=score_type, suppress_missing_peptide_warning=True,
                )
            except KeyError as e:
                if experimental_design is not None and any("file_mapping[raw_file]" in (fr.line or "") for fr in __import__("traceback").extract_tb(e.__traceback__)):
                    return {"err": "raw_file_not_in_design"}
                raise
            except ValueError as e:
                if experimental_design is not None and "index must be unique" in str(e):
                    return {"err": "design_duplicate_name"}
                raise
            attached = [[self._pq(q) for q in pgr.precursorQuants] for pgr in pgrs]
            peps = [enc_pep(x[0]) for x in post_err_probs]
            # the cutoff is OBSERVED FROM OUTSIDE: every value the real append_quant_columns hands to the precursor
            # filter and to each column's append (in the writer's own column order) is recorded as it is
            from picked_group_fdr.writers import base as wbase

            seen = []
            cols = writer.get_columns()

            def spy_on(orig, name):
                def spy(results_, cutoff_, *a, **kw):
                    seen.append((name, cutoff_))
                    return orig(results_, cutoff_, *a, **kw)

                return spy

            for c in cols:
                c.append = spy_on(c.append, type(c).__name__)
            writer.get_columns = lambda: cols
            orig_retain = wbase._retain_only_identified_precursors

            def spy_retain(precursor_list, post_err_prob_cutoff, *a, **kw):
                seen.append(("filter", post_err_prob_cutoff))
                return orig_retain(precursor_list, post_err_prob_cutoff, *a, **kw)

            wbase._retain_only_identified_precursors = spy_retain
            def raised_in(e, func):
                import traceback

                tb = traceback.extract_tb(e.__traceback__)
                return bool(tb) and tb[-1].name == func

            try:
                import warnings

                with warnings.catch_warnings(), np.errstate(all="ignore"):
                    warnings.simplefilter("ignore")  # MaxLFQ: log / division of empty ratio sets
                    writer.append_quant_columns(pgrs, post_err_probs, level)
            except IndexError as e:
                # rows with more SILAC values than the first parsed row has: `intensities[e*(1+S)+k+1] += …` beyond the list
                if raised_in(e, "_get_intensities") and "list index out of range" in str(e):
                    return {"err": "silac_index_out_of_range"}
                raise
            except ValueError as e:
                if "SILAC channels" in str(e):
                    return {"err": "bad_silac_channels"}
                # a reporter vector of another length than the first parsed row's (numpy: shapes (3T,) (n,))
                if raised_in(e, "_get_tmt_intensities") and "could not be broadcast" in str(e):
                    return {"err": "tmt_shape_mismatch"}
                raise
            except TypeError as e:
                # a row without reporter columns (`tmt_intensities is None`) in a run with reporter channels
                if raised_in(e, "_get_tmt_intensities"):
                    return {"err": "tmt_shape_mismatch"}
                raise
            finally:
                wbase._retain_only_identified_precursors = orig_retain
            col_vals = [v for name, v in seen if name != "filter"]
            if len(col_vals) != len(cols):
                return {"err": "columns_not_called", "called": len(col_vals), "columns": len(cols)}
            cutoff = col_vals[0]
            cutoff_seen = []
            for _, v in seen:
                r = rat(float(v))  # float(): under NumPy 2 `np.float32(x) == python_float` compares in single precision
                if r not in cutoff_seen:
                    cutoff_seen.append(r)
            cutoff_double = all(isinstance(v, float) for _, v in seen)  # np.float64 is a float, np.float32 is not
            exps = list(pgrs.experiments)
            S = pgrs.num_silac_channels if pgrs.num_silac_channels > 0 else 0
            T = pgrs.num_tmt_channels
            nbase = len(writers.PROTEIN_GROUP_HEADERS)
            extra_headers = pgrs.headers[nbase:]
            groups = []
            all_cells = []
            for pgr in pgrs:
                if len(pgr.extraColumns) != len(extra_headers):
                    return {"err": "ragged", "headers": len(extra_headers), "values": len(pgr.extraColumns)}
                col = dict(zip(extra_headers, pgr.extraColumns))
                chans = SILAC_NAMES.get(S, [])
                intens, ib = [], []
                for e in exps:
                    intens.append(col["Intensity " + e])
                    ib.append(col["iBAQ " + e])
                    for ch in chans:
                        intens.append(col["Intensity " + ch + " " + e])
                        ib.append(col["iBAQ " + ch + " " + e])
                tmt = []
                if T > 0:
                    for e in exps:
                        for kind in ("Reporter intensity corrected ", "Reporter intensity ", "Reporter intensity count "):
                            for i in range(1, T + 1):
                                tmt.append(col[kind + str(i) + " " + e])
                ev = col["Evidence IDs"]
                npeps = col["Number of theoretical peptides iBAQ"]
                all_cells.append([self._cell(v) for v in pgr.extraColumns])
                groups.append(
                    {
                        "ids": pgr.proteinIds.split(";"),
                        "quants": [self._pq(q) for q in pgr.precursorQuants],
                        "counts": [int(col["Combined Total Peptides"])] + [int(col["Unique peptides " + e]) for e in exps],
                        "idType": [col["Identification type " + e] for e in exps],
                        "total": rat(col["Intensity"]),
                        "intens": [rat(x) for x in intens],
                        "nPeps": [int(x) for x in npeps.split(";")] if npeps else [],
                        "ibaqTotal": rat(col["iBAQ"]),
                        "ibaq": [rat(x) for x in ib],
                        "tmt": [rat(x) for x in tmt],
                        "evidenceIds": [int(x) for x in ev.split(";")] if ev else [],
                    }
                )
            return {
                "experiments": exps,
                "nSilac": int(pgrs.num_silac_channels),
                "nTmt": int(pgrs.num_tmt_channels),
                "peps": peps,
                "cutoff": rat(float(cutoff)),
                "cutoffSeen": cutoff_seen,
                "cutoffDouble": cutoff_double,
                "attached": attached,
                "groups": groups,
                # the header list the real generators built (exact strings, in order): compared with the model's
                # CliQuant.quantHeaders, the list the Lean theorems `cells_under_named_headers` /
                # `design_cells_under_named_headers` locate the per-experiment cells in
                "headers": [str(h) for h in pgrs.headers],
                # `extraColumns` of every written row as they are, in the writer's own order (no header lookup): compared
                # with the model's column pipeline C12.runCells, the cells of generators outside C12 masked
                "cells": all_cells,
            }
        finally:
            shutil.rmtree(tmp, ignore_errors=True)

    @staticmethod
    def _cell(v):
        """a raw cell of extraColumns -> protocol value"""
        import numpy as np

        if isinstance(v, (bool, np.bool_)):
            return bool(v)
        if isinstance(v, (int, np.integer)):
            return int(v)
        if isinstance(v, (float, np.floating)):
            v = float(v)
            return "nan" if v != v else ("inf" if v in (float("inf"), float("-inf")) else rat(v))
        return str(v)

    @staticmethod
    def _pq(q):
        inten = float(q.intensity)
        return [
            q.peptide,
            int(q.charge),
            q.experiment,
            str(q.fraction),
            None if inten != inten else rat(inten),
            enc_pep(float(q.post_err_prob)),
            [] if q.tmt_intensities is None else [rat(float(x)) for x in q.tmt_intensities],
            [] if q.silac_intensities is None else [rat(float(x)) for x in q.silac_intensities],
            int(q.evidence_id),
        ]

    # -- the model -------------------------------------------------------------------------
    def _near_tie(self, case):
        rec = recompute(dict(case, level=rat(0)))
        return o_near_tie([p for p in rec.get("peps", []) if p != "nan"], unrat(case["level"]))

    def model_request(self, case, impl_out):
        if case.get("cli"):
            if not isinstance(impl_out, dict) or "_rec" not in impl_out:
                return None
            case = cli_abstract(case, impl_out)
        if self._near_tie(case):
            return None
        req = {
            "op": "quant",
            "rows": [model_row(r) for r in all_rows(case)],
            "groups": case["groups"],
            "level": case["level"],
            "ibaq": case["ibaq"],
        }
        if case.get("design"):
            req["design"] = normalise_design(case["design"])
        if not case.get("cli"):
            req["files"] = [len(rows) for rows in case["files"]]
            req["skipLfq"] = not case.get("lfq")
            if case.get("remap"):
                req["remap"] = True
                req["maps"] = case["remap"]["maps"]
        return req

    def model_view(self, case, resp, impl_out):
        if case.get("cli"):
            resp = {k: v for k, v in resp.items() if k != "cells"} if isinstance(resp, dict) else resp
            return table_from_view(round_quotients(resp))
        return with_cutoff_obs(round_quotients(fill_foreign_cells(resp, impl_out)))

    def impl_view(self, case, impl_out):
        if isinstance(impl_out, dict) and "_rec" in impl_out:
            return {k: v for k, v in impl_out.items() if k != "_rec"}
        return impl_out

    # -- the property ------------------------------------------------------------------------
    def oracle(self, case, impl_out):
        if not isinstance(impl_out, dict):
            return "no output: %r" % (impl_out,)
        if case.get("cli"):
            if "_rec" not in impl_out:
                msg = str(impl_out.get("msg", ""))
                if ("not enough values to unpack (expected 3, got 0)" in msg and "do_competition" in msg) or "No proteins with scores found" in msg:
                    # the documented degenerate input (DESIGN.md §4): no group of the generated command line has a
                    # peptide, `python -m picked_group_fdr --do_quant` ends before anything is quantified - C18's subject
                    return None
                return "CLI run gave no table: %r" % (impl_out,)
            abstract = cli_abstract(case, impl_out)
            if self._near_tie(abstract):
                return None
            want = table_from_view(round_quotients(recompute(abstract)), raw=True)
            d = table_value_diff(want, self.impl_view(case, impl_out), "table")
            return ("written proteinGroups.txt differs from the recomputation (expected vs written) at " + d) if d else None
        if self._near_tie(case):
            return None
        rec = recompute(case)
        if "undecided" in rec:
            return None
        if rec.get("_spill") and not spill_registered():
            # values of rows with more SILAC / other reporter columns than the first parsed row land in columns they do
            # not belong to, without an exception: the direct recomputation below differs from the code (and the model,
            # which follows the code).  Candidate known finding `kf_mixed_layout_spill`; judged once it is registered.
            return None
        want = with_cutoff_obs(round_quotients(rec))
        if "cutoffSeen" in impl_out and "cutoffSeen" in want:
            # the value handed to the precursor filter and to the columns must be exactly one of the finite PEPs of the
            # identified target precursors, or 1.0 (recomputed here from the evidence rows, exact rationals)
            fin = {unrat(p) for p in want.get("peps", []) if not isinstance(p, str)}
            for r in impl_out["cutoffSeen"]:
                v = unrat(r)
                if v != 1 and v not in fin:
                    return "the PEP cutoff handed to the precursor filter / the columns is %r, which is neither 1.0 nor one of the PEPs %s" % (
                        v.numerator / v.denominator, sorted(x.numerator / x.denominator for x in fin))
            if impl_out["cutoffSeen"] != want["cutoffSeen"]:
                return "the PEP cutoff handed to the precursor filter / the columns is %s, the first PEP whose running mean exceeds the level is %r" % (
                    [rat_to_float(r) for r in impl_out["cutoffSeen"]], rat_to_float(want["cutoff"]))
            # whether the value is a double is part of the correspondence (model view), not of the oracle: a single
            # precision cutoff with a representable value is a hazard, a failing input needs a wrong value / wrong rows
            want["cutoffDouble"] = impl_out["cutoffDouble"]
        if "headers" in impl_out and "groups" in want:
            want["headers"] = impl_out["headers"]  # header strings are part of the correspondence (model view) only
            want["cells"] = impl_out.get("cells")  # the flat cell order too (the oracle reads every cell by header name)
        got = oracle_form(impl_out)
        d = first_diff(accept_close_ibaq(oracle_form(want), got), got, "out")
        if d:
            return "recomputation from the evidence rows differs (expected vs implementation; lists of precursors, evidence ids and PEPs as collections) at " + d
        if "groups" in impl_out:
            # conservation: no row counted twice, none lost
            rows = all_rows(case)
            seen = {}
            for gi, a in enumerate(impl_out["attached"]):
                for q in a:
                    seen.setdefault(q[8], []).append(gi)
            ids = [r["id"] for r in rows]
            if len(set(ids)) == len(ids):
                for i, gl in seen.items():
                    if len(gl) > 1:
                        return f"evidence row id {i} is attached more than once (groups {gl})"
        return None

    def kf_mixed_layout_spill(self, case, impl_out, rec):
        """signature of the candidate known finding: evidence files with different SILAC / reporter columns, no exception,
        and a used precursor with more SILAC values than the first parsed row has (they are added to the following
        experiments' slots) or a single reporter value in a run with reporter channels (broadcast into every cell)"""
        if case.get("cli") or not isinstance(impl_out, dict) or "groups" not in impl_out:
            return False
        return bool(recompute(case).get("_spill"))

    def nontrivial(self, case, impl_out):
        if case.get("cli"):
            return isinstance(impl_out, dict) and bool(impl_out.get("rows"))
        if not isinstance(impl_out, dict) or "groups" not in impl_out:
            return False
        n_att = sum(len(a) for a in impl_out["attached"])
        used = sum(len(g["evidenceIds"]) for g in impl_out["groups"])
        return used > 0 and n_att < len(all_rows(case))

    def features(self, case, impl_out):
        if case.get("cli"):
            return ["cli=" + case["cli"]]
        f = []
        lay = case["layout"]
        f.append("silac=%d" % lay["silac"])
        f.append("tmt=%d" % lay["tmt"])
        f.append("files=%d" % len(case["files"]))
        f.append("writer=" + ("default_options(MaxLFQ_on)" if case.get("lfq") else "skip_lfq"))
        if case.get("lfq") and isinstance(impl_out, dict) and any(h.startswith("LFQ Intensity ") for h in impl_out.get("headers", [])):
            f.append("lfq_column_ran")
            if any(q[4] in (None, ["0", "1"]) and q[5] != "nan" for g in impl_out.get("groups", []) for q in g["quants"]):
                f.append("lfq_column_ran:identified_row_without_intensity")
        f.append("method=" + ("remap(%d maps)" % len(case["remap"]["maps"]) if case.get("remap") else "no_remap"))
        mods = [n_mods(r["pep"]) for r in all_rows(case)]
        if any(m >= 2 for m in mods):
            f.append("row_with_2+_modifications" + ("(remapped)" if case.get("remap") else ""))
        if case.get("remap"):
            for r in all_rows(case):
                if n_mods(r["pep"]) >= 2:
                    if "(" in r["pep"] and "[" in r["pep"]:
                        f.append("notation=mixed")
                    elif " (" in r["pep"] and r["pep"].count("(") >= 2 and "[" not in r["pep"]:
                        f.append("notation=(Name (X))")
                    elif "[" in r["pep"]:
                        f.append("notation=[…]")
                    else:
                        f.append("notation=(xx)")
            f = sorted(set(f), key=f.index)
        if mixed_layouts(case):
            f.append("mixed_layouts")
            f.append("mixed_layouts:first_file_silac=%d" % file_layout(case, 0)["silac"])
            try:
                if recompute(case).get("_spill"):
                    f.append("mixed_layout_spill(candidate finding, oracle %s)" % ("on" if spill_registered() else "undecided"))
            except Exception:
                pass
        n = len(all_rows(case))
        f.append("rows=%s" % (n if n < 8 else "8+"))
        if any(r["pp"] == "nan" for r in all_rows(case)):
            f.append("has_mbr")
        d = case.get("design")
        f.append("design=" + (d["kind"] if d else "none"))
        if d:
            od = o_design(case)
            if od is None:
                f.append("design_without_lines")
            elif "exps" in od:
                f.append("design_experiments=%d" % len(od["exps"]))
                if od["exps"] != sorted(od["exps"]):
                    f.append("design_order_NOT_alphabetical")
                used_e = {od["map"][row_raw(r)][0] for r in all_rows(case) if row_raw(r) in od["map"]}
                if any(e not in used_e for e in od["exps"]):
                    f.append("design_experiment_without_rows")
                if any(x[2].endswith(".0") for x in normalise_design(d)):
                    f.append("design_fraction_float")
        if any(not isinstance(r["pp"], str) and not _dyadic(unrat(r["pp"])) for r in all_rows(case)):
            f.append("peps_beyond_float32")
        if isinstance(impl_out, dict) and "groups" in impl_out:
            f.append("experiments=%d" % len(impl_out["experiments"]))
            n_att = sum(len(a) for a in impl_out["attached"])
            n_ret = sum(len(g["quants"]) for g in impl_out["groups"])
            n_used = sum(len(g["evidenceIds"]) for g in impl_out["groups"])
            if n_att < n:
                f.append("row_left_out")
            if n_ret < n_att:
                f.append("unidentified_precursor_dropped")
            if n_used < n_ret:
                f.append("retained_but_not_used")
            if len(impl_out["groups"]) < len(case["groups"]):
                f.append("group_without_precursors_removed")
            if impl_out["cutoff"] == ["1", "1"]:
                f.append("cutoff=1")
            else:
                f.append("cutoff=crossing")
            if any(t == "By matching" for g in impl_out["groups"] for t in g["idType"]):
                f.append("by_matching")
        elif isinstance(impl_out, dict) and "err" in impl_out:
            f.append("err=" + impl_out["err"])
        if self._near_tie(case):
            f.append("near_tie_skipped")
        return f

    # -- extra stage: end-to-end CLI runs ------------------------------------------------------
    def extra(self, ctx):
        if ctx.get("replay"):
            return None
        rng = random.Random(977 * int(ctx["seed"]) + 12)
        flows = ["quant", "quant", "quant", "quant", "main", "main"]
        designs = [True, False, True, False, True, False]  # half of the runs of either command with --experimental_design_file
        lfqs = [True, True, False, False, True, False]  # half of the runs of either command with the DEFAULT options (MaxLFQ on)
        if ctx["tier"] == "thorough":
            flows, designs, lfqs = flows * 6, designs * 6, lfqs * 6
        cases = [gen_cli_case(rng, f, wd, lq) for f, wd, lq in zip(flows, designs, lfqs)]
        recs = lib.evaluate_cases(self, cases, ctx["model"])
        failures = []
        ok = 0
        for r in recs:
            if r["oracle"] is not None or r["disagree"] is not None:
                failures.append({"case": r["case"], "impl": r.get("impl"), "disagree": r.get("disagree"), "why": r.get("oracle")})
            else:
                ok += 1
        return {
            "evaluations": len(cases),
            "failures": failures,
            "info": {
                "cli_runs": len(cases),
                "cli_runs_equal": ok,
                "flows": {f: flows.count(f) for f in set(flows)},
                "with_experimental_design_file": sum(1 for c in cases if c.get("design")),
                "with_default_options_maxlfq_on": sum(1 for c in cases if c.get("lfq")),
                "rows_with_two_or_more_modifications": sum(1 for c in cases for r in all_rows(c) if n_mods(r["pep"]) >= 2),
                "compared": "every quantification column of the written proteinGroups.txt (counts, id types, "
                "Intensity / iBAQ incl. SILAC, theoretical peptide numbers, TMT reporter sums, evidence ids) with the "
                "model's values formatted by '%.0f' (half-even on the double; text, correspondence side), and as numbers (within 0.5, "
                "evidence ids as a collection, only the headers the recomputation names) with the Fraction recomputation (oracle)",
            },
        }

    def shrink(self, case):
        if case.get("cli"):
            rows = case["files"][0]
            for i in range(len(rows)):
                yield dict(case, files=[rows[:i] + rows[i + 1 :]])
            return
        files = case["files"]
        lays = case.get("layouts")
        if case.get("lfq"):
            yield {k: v for k, v in case.items() if k not in ("lfq", "lfq_min")}
        rm = case.get("remap")
        for fi, rows in enumerate(files):
            if len(files) > 1:
                c = dict(case, files=files[:fi] + files[fi + 1 :])
                if rm and len(rm["maps"]) > 1:
                    c["remap"] = {"maps": rm["maps"][:fi] + rm["maps"][fi + 1 :]}
                if lays:
                    c["layouts"] = lays[:fi] + lays[fi + 1 :]
                    if fi == 0:
                        c["layout"] = dict(case["layout"], **{k: v for k, v in lays[1].items()})
                yield c
            for i in range(len(rows)):
                yield dict(case, files=files[:fi] + [rows[:i] + rows[i + 1 :]] + files[fi + 1 :])
        for i in range(len(case["groups"])):
            yield dict(case, groups=case["groups"][:i] + case["groups"][i + 1 :])
        d = case.get("design")
        if d:
            yield dict(case, design=None)
            refd = {row_raw(r) for r in all_rows(case)}
            for i, l in enumerate(d["lines"]):
                if design_stem(l["name"]) not in refd:
                    yield dict(case, design=dict(d, lines=d["lines"][:i] + d["lines"][i + 1 :]))
            for i, l in enumerate(d["lines"]):
                if l["name"] != design_stem(l["name"]):
                    yield dict(case, design=dict(d, lines=d["lines"][:i] + [dict(l, name=design_stem(l["name"]))] + d["lines"][i + 1 :]))
        lay = case["layout"]
        if lays:
            if any(n_reporter(l) for l in lays):
                yield dict(case, layouts=[dict(l, tmt=0, tmt_single=False) for l in lays],
                           files=[[dict(r, tmt=[]) for r in rows] for rows in files])
            if any(l["silac"] for l in lays):
                yield dict(case, layouts=[dict(l, silac=0) for l in lays],
                           files=[[dict(r, silac=[]) for r in rows] for rows in files])
        else:
            if lay["tmt"]:
                yield dict(case, layout=dict(lay, tmt=0), files=[[dict(r, tmt=[]) for r in rows] for rows in files])
            if lay["silac"]:
                yield dict(case, layout=dict(lay, silac=0), files=[[dict(r, silac=[]) for r in rows] for rows in files])
        if case["ibaq"]:
            yield dict(case, ibaq=[])
        if rm:
            for mi, m in enumerate(rm["maps"]):
                for k in range(len(m)):  # a map entry less
                    yield dict(case, remap={"maps": rm["maps"][:mi] + [m[:k] + m[k + 1 :]] + rm["maps"][mi + 1 :]})
                for k, (b, ps) in enumerate(m):  # a protein less in an entry
                    if len(ps) > 1:
                        for j in range(len(ps)):
                            yield dict(case, remap={"maps": rm["maps"][:mi] + [m[:k] + [[b, ps[:j] + ps[j + 1 :]]] + m[k + 1 :]] + rm["maps"][mi + 1 :]})
            for fi, rows in enumerate(files):
                for i, r in enumerate(rows):
                    if r["prot"] != ["X"]:  # the Leading proteins cell is ignored by a remapping method
                        yield dict(case, files=files[:fi] + [rows[:i] + [dict(r, prot=["X"])] + rows[i + 1 :]] + files[fi + 1 :])
        for fi, rows in enumerate(files):
            for i, r in enumerate(rows):
                if len(r["prot"]) > 1:
                    for k in range(len(r["prot"])):
                        nr = dict(r, prot=r["prot"][:k] + r["prot"][k + 1 :])
                        yield dict(case, files=files[:fi] + [rows[:i] + [nr] + rows[i + 1 :]] + files[fi + 1 :])


# ---- command lines with `--do_quant --skip_lfq` (MaxQuant methods): the real `picked_group_fdr.main(argv)` in-process against
# the composed Lean model PgFdr.CliQuant.quantOutcome (driver op "cli_quant", lean/PgFdr/Model/CliQuant.lean); the written
# proteinGroups.txt is compared cell by cell with the model, and the recomputation above (`recompute`) is applied to it:
# evidence rows through the harness's own digest of the FASTA, the groups the inference returned, the command line's
# --psm_fdr_cutoff, the harness's own iBAQ peptide numbers (harness/cli_model.py, notes/cli-model.md, notes/C12.md)
import cli_model as _cm  # noqa: E402

_BaseP = P


def quant_abstract(case, name, rec, ibaq_rule=None):
    """the abstract C12 case of one method of a quantification command line (None: not stated, semi-specific digestion)"""
    files = _cm.quant_evidence_truth(case, name)
    if files is None:
        return None
    groups = [r["proteinIds"].split(";") for r in rec.get("rows", [])]
    n = _cm.truth_ibaq(case, ibaq_rule)
    prots = sorted({p for g in groups for p in g})
    lay = case["quant"]["layout"]
    return {"files": files, "groups": groups, "level": case["psm"], "ibaq": [[p, n.get(p, 0)] for p in prots],
            "layout": {"silac": lay["silac"], "tmt": lay["tmt"], "has_experiment": True, "has_fraction": lay["has_fraction"]}}


def written_quant_rows(text):
    hdr, rows = _cm.read_table(text)
    if len(set(hdr)) != len(hdr):
        return {"err": "duplicate_headers"}
    out = []
    for line in rows:
        if len(line) != len(hdr):
            return {"err": "ragged", "headers": len(hdr), "values": len(line)}
        d = dict(zip(hdr, line))
        out.append({"ids": d.get("Protein IDs"), "cols": {h: v for h, v in d.items() if not is_unmodelled_header(h)}})
    return {"rows": out}


class P(_cm.QuantCliMixin, _BaseP):
    cli_model_share = 0.025
    rule = _BaseP.rule + (
        "; 2.5 % of the cases are whole command lines `python -m picked_group_fdr --do_quant --skip_lfq` run in-process "
        "(harness/cli_model.py gen_quant_case: 1-3 shipped MaxQuant methods, 1-3 evidence files, 1-3 digestion parameter sets, "
        "three identifier rules, 1-3 experiments, optional fractions, charges 2-3, match-between-runs and re-identified sibling "
        "rows, integer intensities, label free / SILAC 2 / SILAC 3 / TMT 2) whose written proteinGroups.txt is compared cell by "
        "cell with the composed model PgFdr.CliQuant.quantRun and with the recomputation"
    )
    assumptions = _BaseP.assumptions + [
        "command-line cases: integer intensities below 2^53 (float sums exact); a running PEP mean within 1e-9 (relative) of "
        "--psm_fdr_cutoff is a near tie (skipped, counted); the iBAQ peptide numbers are those under the identifier rule the code "
        "uses (first word of the header; fixes/C12-ibaq-identifier-rule.md)",
    ]
    trusted_extra = _BaseP.trusted_extra + [
        "harness/cli_model.py: rendering of the quantification cells into evidence.txt, '%.0f' / '%.1f' formatting of the model's "
        "rationals (fmt0, format_quant_cell), the harness's own digest (truth_map) and iBAQ count (truth_ibaq) used by the oracle",
        "stage models composed by PgFdr.Cli / PgFdr.CliQuant (C06, C09, C10, C13, C18, C19), tied to the code by their own checks",
    ]
    # identifiers of the iBAQ peptide numbers the recomputation uses: cli_model.QUANT_IBAQ_RULE ("first" = first word of the
    # FASTA header, which is what writers/factory.py asks the digest for whatever --fasta_use_uniprot_id / --gene_level say;
    # "run" = the run's identifier rule, see notes/C12.md and fixes/C12-ibaq-identifier-rule.md)
    quant_ibaq_rule = None

    def quant_table_oracle(self, case, name, rec, text):
        abstract = quant_abstract(case, name, rec or {}, self.quant_ibaq_rule)
        if abstract is None:
            return None
        if self._near_tie(abstract):
            return None
        want = table_from_view(round_quotients(recompute(abstract)), raw=True)
        d = table_value_diff(want, written_quant_rows(text), "table")
        return ("the quantification columns differ from the recomputation from the evidence rows (expected vs written) at " + d) if d else None
