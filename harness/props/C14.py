"""C14 — equal-score ties are broken without bias.

Same model and same real function as C02 (op "compete", do_competition called directly), on
tie-heavy inputs that arrive in three orders (targets first, decoys first, interleaved).

Compared exactly with the model, in addition to C02's three returned lists: the PASS ORDER (the
order in which the groups compete, observed by wrapping `_is_protein_seen` on the strategy object)
the number and argument lengths of the `np.random.shuffle` calls (the model: exactly two per call, over all
groups with evidence and over the survivors), and `tie_mechanism` (`P._mechanism`: tied groups compete / are ranked
in the order the first / second recorded shuffle left them in).  These describe the MECHANISM of the model; the property
text fixes only the distribution of the tie order, so a tool that draws it another way (random sort keys, `permutation`,
`default_rng`) breaks the correspondence (VIOLATION … no-failing-input-found) but is not handed a failing input.

Oracle (on the recorded data of one draw): the pass order is non-increasing in (score, not placeholder), the groups that
compete are the groups with evidence, the returned ranking is non-increasing in score.  That the order inside a tie is
drawn without bias is judged over many seeds (below).

`extra` stage (only ever to EXHIBIT bias, never to pass a check): fixed tied inputs under 200 numpy
seeds in the three arrival orders; a relative order of two tied groups (or a winner of a tied
target/decoy twin pair) that never occurs has probability 2^-199 < 1e-50 under a uniform shuffle.

END-TO-END exhibit (same stage; cases of kind "e2e", replayable): the public API
`picked_group_fdr.picked_group_fdr.get_protein_group_results` with method configurations from
`methods.parse_method_toml` (one per class of grouping x picked strategy x score family of the shipped
methods; all of them in the thorough tier) on peptide-info dicts with tied targets and decoys (distinct
proteins of equal PEP; target/decoy twins of equal PEP; a tie block between a better and a worse group) in
the three arrival orders, numpy seeded with a DIFFERENT seed before each of 112 calls.  Fails if a relative
order of two tied groups, a winner of a tied twin pair, or a relative order of two tied twin pairs never
occurs (2^-112 under a uniform shuffle that depends on the caller's seed), and if the q-values of a returned
table are not the suffix minima of (decoys+1)/(targets+1) counted along the RETURNED ranking (ties must be
counted in the order they were drawn, not in another one).

WRITTEN-TABLE exhibit (same stage; cases of kind "written", replayable): what a user of the command line sees is the file
`writers.finalize_output` writes, which the in-process API never touches.  The real `main(argv)` (in process) writes the
table of a method for an input with a block of exactly equally scoring targets and decoys; the WRITTEN file is read back.
The draws are varied through the RUN'S SEED, as the property states them ("drawn uniformly at random under the run's seed
instead of following input order"): the tool seeds numpy itself (`np.random.seed(1)`, once per run), and for the duration
of one main(argv) the exhibit replaces the value of that first `np.random.seed` call by its own seed (100 seeds); the
evidence file is held FIXED over the seeds, in each of the three arrival orders (targets first / decoys first /
interleaved).  For a fixed seed nothing is demanded of how the written order depends on the row order of the file.
Two families: methods that read the proteins from the evidence file (no FASTA; Percolator and MaxQuant input; identifiers
`sp|…` / `REV__sp|…` and identifiers that sort the other way round) and remapping methods through --fasta (the default
method among them; target/decoy twins compete).  Fails if, over the seeds of one arrival order, the tie block of the
written table is always written in the same order; if the number of runs in which it starts with a target leaves the
Hoeffding band around its expectation Σ t/(t+d) (probability < 1e-9 under an exchangeable order; per arrival order and
pooled over the three); or — for methods without a rescue step — if the written q-values are not the suffix minima of
(decoys+1)/(targets+1) counted along the WRITTEN rows.  A tool that never calls `np.random.seed` cannot be seeded this way:
its runs are not judged on the first two clauses and the fact is reported as a broken correspondence (the model says: one
seed call per run), not as a failing input.  Thorough tier: also real `python -m picked_group_fdr` subprocesses, whose
files must equal the ones main(argv) wrote in process under the tool's own seed.
"""
import math
import os
import random
import shutil
import subprocess
import tempfile

import gen_cli
import lib
from lib import rat, unrat
from props.C02 import P as P02
from props.C02 import all_contain, run_competition

NAMES = ["A", "B", "C", "D", "E", "F"]
ARRIVALS = ["targets_first", "decoys_first", "interleaved"]
N_SEEDS = 200
E2E_SEEDS = 112  # a relative order that never occurs has probability 2^-112 < 2^-100 under a uniform shuffle
# (name, PEP) of the proteins, one unique peptide each; kind: "ranking" = all survive, "twins" = tied target/decoy twins
E2E_INPUTS = [
    ("ranking", [("A", 0.001), ("B", 0.001)], [("REV__C", 0.001), ("REV__D", 0.001)]),
    ("twins", [("A", 0.001), ("B", 0.001)], [("REV__A", 0.001), ("REV__B", 0.001)]),
    # a tie block between a better target and a worse decoy; a better twin pair decided by the score
    ("ranking", [("E", 0.0001), ("A", 0.001), ("B", 0.001)], [("REV__C", 0.001), ("rev_D", 0.001), ("REV__F", 0.005)]),
    ("twins", [("E", 0.0001), ("A", 0.001), ("B", 0.002)], [("REV__E", 0.005), ("REV__A", 0.001), ("REV__B", 0.002)]),
]


def base_name(p):
    for pre in ("OBSOLETE__", "REV__", "rev_"):
        if p.startswith(pre):
            return base_name(p[len(pre):])
    return p


def row_is_decoy(protein_ids):
    ps = protein_ids.split(";")
    return all("REV__" in p for p in ps) or all("rev_" in p for p in ps)


def expected_qvalues(decoy_flags):
    """suffix minima of (decoys+1)/(targets+1) counted along the given ranking"""
    d = t = 0
    fdrs = []
    for f in decoy_flags:
        if f:
            d += 1
        else:
            t += 1
        fdrs.append((d + 1) / (t + 1))
    out, best = [], float("inf")
    for f in reversed(fdrs):
        best = min(best, f)
        out.append(best)
    return out[::-1]


def e2e_method_classes(all_methods=False):
    """method names from the shipped TOML files: all, or the first of every class
    (grouping, pickedStrategy, multPEP or bestPEP score)"""
    import tomllib

    names = sorted(p.stem for p in (lib.REPO / "picked_group_fdr" / "methods").glob("*.toml"))
    if all_methods:
        return names
    seen, out = set(), []
    for n in names:
        d = tomllib.loads((lib.REPO / "picked_group_fdr" / "methods" / (n + ".toml")).read_text())
        k = (d.get("grouping"), d.get("pickedStrategy"), "multPEP" in d.get("scoreType", ""))
        if k not in seen:
            seen.add(k)
            out.append(n)
    return out


def run_e2e(case):
    """the real public API on one tied input under case["seeds"] different numpy seeds"""
    import numpy as np
    from picked_group_fdr import methods
    from picked_group_fdr.picked_group_fdr import get_protein_group_results

    cfg = methods.parse_method_toml(case["method"], use_pseudo_genes=False)
    prots = [(p, fl_(s)) for p, s in case["proteins"]]
    names = [p for p, _ in prots]
    before, wins, tables, seen = {}, {}, 0, set()
    q_mismatch, q_checked, q_abstained = None, 0, 0
    for k in range(case["seeds"]):
        pil = {"PEPTIDE%dK" % i: (pep, [p]) for i, (p, pep) in enumerate(prots)}
        np.random.seed(case["seed_base"] + k)  # the caller's seed: a different one before every call
        res = get_protein_group_results(pil, method_config=cfg)
        rows = [(r.proteinIds, float(r.qValue), float(r.score)) for r in res]
        tables += 1
        ids = [r[0] for r in rows]
        seen.add(tuple(ids))
        for a in range(len(ids)):
            wins[ids[a]] = wins.get(ids[a], 0) + 1
            for b in range(a + 1, len(ids)):
                before[(ids[a], ids[b])] = before.get((ids[a], ids[b]), 0) + 1
        # q-values on the returned ranking; judged when every row is one input protein and no pair of twins is split
        # over two rows only because a group was hidden (classic: all proteins; picked: one of each pair)
        single = all(i in names for i in ids) and len(set(ids)) == len(ids)
        complete = {base_name(i) for i in ids} == {base_name(p) for p in names}
        if single and complete:
            q_checked += 1
            want = expected_qvalues([row_is_decoy(i) for i in ids])
            got = [r[1] for r in rows]
            if got != want and q_mismatch is None:
                q_mismatch = {"seed": case["seed_base"] + k, "ranking": ids, "scores": [r[2] for r in rows], "qvalues": got, "expected": want}
        else:
            q_abstained += 1
    return {
        "e2e": {
            "tables": tables,
            "distinct_rankings": len(seen),
            "before": sorted([x, y, c] for (x, y), c in before.items()),
            "wins": wins,
            "q_checked": q_checked,
            "q_abstained": q_abstained,
            "q_mismatch": q_mismatch,
        }
    }


def fl_(r):
    f = unrat(r)
    return f.numerator / f.denominator


def judge_e2e(case, out):
    """the tie statement on the summary of run_e2e; None = nothing exhibited"""
    e = out["e2e"]
    n = e["tables"]
    where = "end-to-end get_protein_group_results, method %s, arrival %s, %d calls each under a different numpy seed: " % (
        case["method"], case["arrival"], n)
    if e["q_mismatch"]:
        m = e["q_mismatch"]
        return where + (
            "seed %d: the returned ranking %r carries q-values %r, but the estimate (decoys+1)/(targets+1) with suffix minima "
            "counted along this ranking is %r (equal scores must be counted in the order the ranking shows them)"
            % (m["seed"], m["ranking"], m["qvalues"], m["expected"])
        )
    before = {(x, y): c for x, y, c in e["before"]}
    wins = e["wins"]
    pep = {p: tuple(s) for p, s in case["proteins"]}
    names = [p for p, _ in case["proteins"]]
    # classic strategy: nothing competes, twins are ordinary tied groups
    competes = case["picked"] != "classic"
    if case["exhibit"] == "ranking" or not competes:
        for x in names:
            for y in names:
                if x != y and pep[x] == pep[y] and before.get((x, y), 0) == 0:
                    return where + (
                        "equally scoring groups %s and %s: %s is never ranked before %s (%d distinct rankings in all); probability 2^-%d "
                        "under a uniform shuffle driven by the caller's seed" % (x, y, x, y, e["distinct_rankings"], n)
                    )
        return None
    for x in names:
        twins = [y for y in names if y != x and base_name(y) == base_name(x)]
        if twins and pep[twins[0]] == pep[x] and wins.get(x, 0) == 0:
            return where + (
                "%s never wins the competition against its equally scoring twin %s; probability 2^-%d under a uniform shuffle "
                "driven by the caller's seed" % (x, twins[0], n)
            )
    tied_pairs = {}
    for x in names:
        tied_pairs.setdefault((base_name(x), pep[x]), []).append(x)
    bases = sorted({b for (b, s), v in tied_pairs.items() if len(v) == 2})
    for bx in bases:
        for by in bases:
            sx = [s for (b, s) in tied_pairs if b == bx][0]
            sy = [s for (b, s) in tied_pairs if b == by][0]
            if bx != by and sx == sy:
                c = sum(v for (x, y), v in before.items() if base_name(x) == bx and base_name(y) == by)
                if c == 0:
                    return where + "the survivor of the tied pair %s is never ranked before the equally scoring survivor of the pair %s; probability 2^-%d" % (bx, by, n)
    return None



# --------------------------------------------------------------------------------------------------
# the table the command line WRITES (cases of kind "written")
# --------------------------------------------------------------------------------------------------
W_SEEDS = 100          # numpy seeds per (method, input, arrival order); the input file is held FIXED over the seeds
W_ALPHA = 1e-9         # bound on the probability that the band is left under an exchangeable order (Hoeffding)
TIE_PEP = 0.01


def w_band(n):
    """largest deviation |S - E S| of a sum of n independent [0,1] variables that has probability >= W_ALPHA"""
    return math.sqrt(n * math.log(2.0 / W_ALPHA) / 2.0)


def w_file_input(k):
    """(targets, decoys, others): (peptide, PEP, protein) triples of an evidence file whose proteins are read from the
    file itself.  A block of equally scoring targets and decoys with distinct base names (nothing competes: all are
    reported), between better and worse groups."""
    if k == 0:  # UniProt-style identifiers: `REV__sp|…` sorts BEFORE `sp|…`
        t = [("TIEDTARGET%sK" % c, TIE_PEP, "sp|T%03d|TIE%d_HUMAN" % (i, i)) for i, c in enumerate("ACDE")]
        d = [("TIEDDECQY%sK" % c, TIE_PEP, "REV__sp|D%03d|TIE%d_HUMAN" % (i, i + 4)) for i, c in enumerate("ACDE")]
        o = [("HIGHPEPTIDE%sK" % c, 1e-6 * (i + 1), "sp|A%03d|HIGH%d_HUMAN" % (i, i)) for i, c in enumerate("ACD")]
        o += [("LQWPEPTIDE%sK" % c, 0.2 + 0.05 * i, "sp|Z%03d|LOW%d_HUMAN" % (i, i)) for i, c in enumerate("AC")]
        o += [("LQWDECQY%sK" % c, 0.3, "REV__sp|Y%03d|LOW%d_HUMAN" % (i, i + 5)) for i, c in enumerate("A")]
    else:       # accessions that sort BEFORE `REV__`: alphabetical order would put the targets first
        t = [("BLQCKTARGET%sR" % c, 0.001, "A0A%03d" % i) for i, c in enumerate("ACD")]
        d = [("BLQCKDECQY%sR" % c, 0.001, "REV__Q%03d" % i) for i, c in enumerate("ACD")]
        o = [("BETTERTARGETAK", 1e-5, "B0B001"), ("WQRSEDECQYAK", 0.05, "rev_Q900"), ("WQRSETARGETAK", 0.1, "C0C002")]
    return t, d, o


def w_fasta_input(seed):
    """database of proteins with ONE peptide each; every target peptide and every generated decoy peptide identified
    with the same PEP (twins compete under the picked strategies), two better targets"""
    rng = random.Random("written-fasta:%d" % seed)
    used = set()
    db = [("sp|Q%05d|P%d_HUMAN" % (10000 + 13 * i, i), gen_cli.make_peptide(rng, used)) for i in range(1, 9)]
    better = {pid for pid, _ in db[:2]}
    t, d, o = [], [], []
    for pep, prots in gen_cli.peptide_map(db).items():  # the harness's own digest: targets and generated decoys
        if len(prots) != 1:
            continue
        q = prots[0]
        if q.startswith("REV__"):
            if q[len("REV__"):] not in better:
                d.append((pep, TIE_PEP, q))
        elif q in better:
            o.append((pep, 1e-5 * (len(o) + 1), q))
        else:
            t.append((pep, TIE_PEP, q))
    return db, t, d, o


def w_seeds(case):
    return int(case.get("seeds", W_SEEDS))


def w_rows(case, a):
    """the PSM rows of a "written" case in arrival order a (targets first / decoys first / interleaved), in the order in
    which the file lists them; the SAME file for every seed"""
    if case["family"] == "fasta":
        _, t, d, o = w_fasta_input(case["input"])
    else:
        t, d, o = w_file_input(case["input"])
    rows = o[:1] + arrange(t, d, ARRIVALS[a]) + o[1:]
    return [{"peptide": p, "proteins": [prot], "pep": pep, "experiment": "exp1", "charge": 2, "intensity": 1000000, "fraction": 1}
            for p, pep, prot in rows]


def w_argv(case, d, k, out):
    ev = os.path.join(d, "in_%d.txt" % k)
    rows = w_rows(case, k)
    with open(ev, "w") as fh:
        fh.write(gen_cli.evidence_text(rows) if case["evidence"] == "mq" else gen_cli.percolator_text(rows))
    argv = ["--mq_evidence" if case["evidence"] == "mq" else "--perc_evidence", ev, "--methods", case["method"], "--protein_groups_out", out]
    if case["family"] == "fasta":
        fa = os.path.join(d, "db.fasta")
        if not os.path.exists(fa):
            with open(fa, "w") as fh:
                fh.write("".join(gen_cli.fasta_text(w_fasta_input(case["input"])[0])))
        argv += ["--fasta", fa, "--min-length", "5", "--cleavages", "0"]
    return argv


def w_read(path):
    with open(path, newline="", encoding="utf-8") as fh:
        ls = [ln.rstrip("\r\n").split("\t") for ln in fh]
    h = ls[0]
    c = [h.index(n) for n in ("Protein IDs", "Q-value", "Score", "Reverse")]
    return [[r[c[0]], float(r[c[1]]), float(r[c[2]]), r[c[3]]] for r in ls[1:]]


def run_written(case):
    """the real main(argv) in process, for each of the three arrival orders of the case's input under case["seeds"]
    different seeds; the WRITTEN tables, read back.  The tool seeds numpy itself (`np.random.seed(1)` once per run); "the
    run's seed" is varied by replacing, for the duration of one main(argv), the value of the FIRST `np.random.seed` call
    of the run by the seed of the exhibit (later calls, if a tool makes any, pass unchanged).  A run that never calls
    `np.random.seed` cannot be given a seed this way: recorded ("seed_calls" 0) and not judged."""
    import logging

    import numpy as np
    from picked_group_fdr import picked_group_fdr as pgf

    d = tempfile.mkdtemp(prefix="c14w_")
    prev = logging.root.manager.disable
    logging.disable(logging.CRITICAL)
    runs, sub = [], []
    orig_seed = np.random.seed
    state = {"seed": None, "calls": 0}

    def seed_wrapper(*a, **k):
        state["calls"] += 1
        if state["calls"] == 1 and state["seed"] is not None:
            return orig_seed(state["seed"])
        return orig_seed(*a, **k)

    try:
        for a in range(len(ARRIVALS)):
            for k in range(w_seeds(case)):
                out = os.path.join(d, "out_%d_%d.txt" % (a, k))
                argv = w_argv(case, d, a, out)
                state["seed"], state["calls"] = (int(case["seed"]) + k) % 2**32, 0
                np.random.seed = seed_wrapper
                try:
                    pgf.main(argv)
                finally:
                    np.random.seed = orig_seed
                runs.append({"arrival": a, "seed": state["seed"], "seed_calls": state["calls"], "rows": w_read(out)})
        for a in range(min(case.get("subprocesses", 0), len(ARRIVALS))):  # the same command line as a real process (seed: the tool's own)
            out = os.path.join(d, "own_%d.txt" % a)
            pgf.main(w_argv(case, d, a, out))
            out2 = os.path.join(d, "sub_%d.txt" % a)
            p = subprocess.run([lib.PY, "-m", "picked_group_fdr"] + w_argv(case, d, a, out2), capture_output=True, text=True,
                               env=lib.impl_env({"PYTHONHASHSEED": str(a)}), timeout=600)
            same = p.returncode == 0 and open(out2, "rb").read() == open(out, "rb").read()
            sub.append({"rc": p.returncode, "same_bytes": same, "stderr": p.stderr[-300:] if p.returncode else ""})
    finally:
        np.random.seed = orig_seed
        logging.disable(prev)
        shutil.rmtree(d, ignore_errors=True)
    return {"written": {"runs": runs, "subprocess": sub}}


def w_block(rows):
    """the tie block of a written table: the rows of the most frequent score that holds a target and a decoy (the
    first such score down the table), as (identifier, is decoy)"""
    by = {}
    for r in rows:
        by.setdefault(r[2], []).append((r[0], row_is_decoy(r[0])))
    best = None
    for sc, b in by.items():
        if len({x[1] for x in b}) == 2 and (best is None or len(b) > len(best)):
            best = b
    return best or []


def w_seed_observed(out):
    """None, or why the exhibit could not vary the seed of the runs (correspondence side: the model says the run seeds
    numpy's global generator exactly once, Model/C07Stream; nothing in the property text demands `np.random.seed`)"""
    calls = sorted({r["seed_calls"] for r in out["written"]["runs"]})
    if calls != [1]:
        return "np.random.seed was called %s times during one main(argv) (the model: exactly once per run)" % "/".join(map(str, calls))
    return None


def judge_written(case, out):
    """the tie statement on the WRITTEN tables, over SEEDS with the input file held fixed; None = nothing exhibited"""
    w = out["written"]
    where = "table written by the command line (main(argv), --methods %s, %s input, %s): " % (
        case["method"], case["evidence"], "maps from --fasta" if case["family"] == "fasta" else "proteins from the evidence file")
    for k, s_ in enumerate(w["subprocess"]):
        if s_["rc"] != 0 or not s_["same_bytes"]:
            return where + "`python -m picked_group_fdr` as a real process (arrival %s) %s" % (
                ARRIVALS[k], "exited with %d: %s" % (s_["rc"], s_["stderr"]) if s_["rc"] else "wrote other bytes than main(argv) in process")
    runs = w["runs"]
    for r in runs:
        rows = r["rows"]
        at = "arrival %s, seed %d" % (ARRIVALS[r["arrival"]], r["seed"])
        sc = [x[2] for x in rows]
        if any(a < b for a, b in zip(sc, sc[1:])):
            return where + "%s: the written scores are not non-increasing" % at
        if not case["rescue"] and all(";" not in x[0] for x in rows):
            want = expected_qvalues([row_is_decoy(x[0]) for x in rows])
            got = [x[1] for x in rows]
            if got != want:
                return where + ("%s: the written ranking %r carries q-values %r, but the estimate (decoys+1)/(targets+1) with "
                                "suffix minima counted along the WRITTEN rows is %r (the file must list equal scores in the order in which "
                                "they were counted)" % (at, [x[0] for x in rows], got, want))
    pooled = []
    for a, arrival in enumerate(ARRIVALS):
        # a run whose seed the exhibit could not set (no np.random.seed call) is not a draw under the exhibit's seed
        blocks = [w_block(r["rows"]) for r in runs if r["arrival"] == a and r["seed_calls"] >= 1]
        blocks = [b for b in blocks if len(b) >= 2]
        pooled += blocks
        why = w_judge_blocks(blocks, "the evidence file held fixed (%s)" % arrival.replace("_", " "))
        if why:
            return where + why
    why = w_judge_blocks(pooled, "the three arrival orders of the evidence file", band_only=True)
    return where + why if why else None


def w_judge_blocks(blocks, what, band_only=False):
    n = len(blocks)
    if n < 16:
        return None
    if not band_only:
        orders = {tuple(x[0] for x in b) for b in blocks}
        if len(orders) < 2:
            return "%d runs under %d different seeds, %s: the block of equally scoring groups is always written in the same order %r" % (
                n, n, what, sorted(orders)[0])
    first_t = sum(1 for b in blocks if not b[0][1])
    expect = sum(sum(1 for x in b if not x[1]) / len(b) for b in blocks)
    if abs(first_t - expect) > w_band(n):
        return ("over %d runs under different seeds, %s, the block of equally scoring groups starts with a target in %d written tables "
                "(expected %.1f +- %.1f if the order inside the block is drawn at random under the run's seed; probability < %g): e.g. %r"
                % (n, what, first_t, expect, w_band(n), W_ALPHA, [x[0] for x in blocks[0]]))
    return None


def arrange(targets, decoys, arrival, rng=None):
    if arrival == "targets_first":
        return targets + decoys
    if arrival == "decoys_first":
        return decoys + targets
    out = []
    for k in range(max(len(targets), len(decoys))):
        if k < len(targets):
            out.append(targets[k])
        if k < len(decoys):
            out.append(decoys[k])
    return out


def is_decoy(g):
    return all_contain(g, "REV__") or all_contain(g, "rev_")


class P(P02):
    id = "C14"
    quick_cases = 3000
    thorough_cases = 200000
    chunk = 200
    rule = (
        "tie-heavy inputs: 1-4 target groups and 1-4 decoy groups (twins of the targets or other names from A-F, a few "
        "OBSOLETE__ placeholders), one or two peptides each with PEPs from a 2-value grid (or a 2-value score table), arriving "
        "targets first / decoys first / interleaved; all strategies and picking modes; non-trivial = at least one tie class "
        "of two or more groups with evidence; distinct by sha1 of the case"
    )
    assumptions = P02.assumptions + [
        "numpy's legacy generator draws the shuffle permutation uniformly (trusted; the counting theorem is about all n! permutations)",
    ]
    trusted_extra = P02.trusted_extra + ["wrapper recording the pass order via ProteinCompetitionStrategy._is_protein_seen",
                                         "harness/gen_cli.py (Percolator / MaxQuant evidence and FASTA text, own digest) and the reader of the written table in the written-table exhibit"]

    # -- generation --------------------------------------------------------------------------
    def gen_call(self, rng, scorer, arrival):
        nt, nd = rng.randint(1, 4), rng.randint(1, 4)
        tnames = rng.sample(NAMES, nt)
        targets, decoys = [], []
        for b in tnames:
            if rng.random() < 0.25:
                other = rng.choice([x for x in NAMES if x != b])
                targets.append([b, other])
            elif rng.random() < 0.12:
                targets.append(["OBSOLETE__" + b])
            else:
                targets.append([b])
        for _ in range(nd):
            pre = rng.choice(["REV__", "REV__", "rev_", "OBSOLETE__REV__"])
            b = rng.choice(tnames) if rng.random() < 0.5 else rng.choice(NAMES)
            g = [pre + b]
            if g not in decoys:
                decoys.append(g)
        groups = arrange(targets, decoys, arrival)
        grid = rng.choice([[0.01], [0.01, 0.01, 0.05], [0.001, 0.01]])
        infos = []
        for k, g in enumerate(groups):
            ev = [[rat(rng.choice(grid)), "PEP%d" % k, list(g)]]
            if rng.random() < 0.25:
                ev.append([rat(rng.choice(grid)), "PEX%d" % k, [g[0]]])
            if rng.random() < 0.04:
                ev = []
            infos.append(ev)
        call = {"groups": groups, "infos": infos}
        if scorer == "table":
            tab = rng.choice([[1.0], [2.0, 1.0, 1.0]])
            call["table_scores"] = [rat(rng.choice(tab)) for _ in groups]
        return call

    def gen_case(self, rng, tier):
        from props.C02 import STRATS

        strat, picking = rng.choice(STRATS)
        scorer = rng.choice(["bestPEP", "bestPEP", "table"])
        arrival = rng.choice(ARRIVALS)
        case = {
            "strategy": strat,
            "scorer": scorer,
            "np_seed": rng.randrange(2**31),
            "arrival": arrival,
            "calls": [self.gen_call(rng, scorer, arrival) for _ in range(2 if rng.random() < 0.15 else 1)],
        }
        if picking:
            case["picking"] = picking
        return case

    def exhaustive_cases(self, tier):
        # two tied targets and two tied decoys (one a twin), every arrival order, every strategy, 12 seeds each
        out = []
        targets, decoys = [["A"], ["B"]], [["REV__A"], ["REV__C"]]
        for arrival in ARRIVALS:
            groups = arrange(targets, decoys, arrival)
            infos = [[[rat(0.01), "PEP%d" % k, list(g)]] for k, g in enumerate(groups)]
            for strat, picking in (("picked", None), ("picked_group", "leading"), ("picked_group", "all"), ("classic", None)):
                for seed in range(12):
                    case = {
                        "strategy": strat,
                        "scorer": "bestPEP",
                        "np_seed": seed,
                        "arrival": arrival,
                        "calls": [{"groups": groups, "infos": infos}],
                    }
                    if picking:
                        case["picking"] = picking
                    out.append(case)
        return out

    # -- end-to-end exhibit cases (kind "e2e") are evaluated by the oracle only; they make the exhibit replayable ----
    def run_impl(self, case):
        if case.get("kind") == "written":
            return run_written(case)
        if case.get("kind") == "e2e":
            return run_e2e(case)
        return super().run_impl(case)

    def model_request(self, case, impl_out):
        if case.get("kind") in ("e2e", "written"):
            return None
        return super().model_request(case, impl_out)

    def shrink(self, case):
        if case.get("kind") in ("e2e", "written"):
            return iter(())
        return super().shrink(case)

    def written_cases(self, tier, seed):
        """one case per (method, input): methods that read the proteins from the evidence file (the tool needs no
        peptide->protein map for them) on the two block inputs, and remapping Percolator methods through --fasta"""
        import tomllib

        from picked_group_fdr import methods as M

        out = []
        names = sorted(p.stem for p in (lib.REPO / "picked_group_fdr" / "methods").glob("*.toml"))
        for m in names:
            d = tomllib.loads((lib.REPO / "picked_group_fdr" / "methods" / (m + ".toml")).read_text())
            st = d.get("scoreType", "")
            if any(x in st for x in ("FragPipe", "Sage", "DIA-NN")) or "multPEP" in st:
                continue  # other file formats; multPEP: the score is not a function of the best PEP alone
            try:
                needs_map = M.requires_peptide_to_protein_map([M.parse_method_toml(m, use_pseudo_genes=False)])
            except Exception:
                continue
            ev = "perc" if "Perc" in st else "mq"
            base = {"kind": "written", "method": m, "evidence": ev, "rescue": "rescued" in str(d.get("grouping")),
                    "picked": d.get("pickedStrategy"), "seeds": W_SEEDS, "subprocesses": 0}
            if not needs_map:
                for k in (0, 1):
                    out.append(dict(base, family="file", input=k, seed=1000 * (len(out) + 1) + 7 * seed))
            elif ev == "perc" and d.get("sharedPeptides") != "razor":
                out.append(dict(base, family="fasta", input=seed, seed=1000 * (len(out) + 1) + 7 * seed))
        if tier == "quick":  # every method that needs no map; of the remapping ones the default method and one per strategy
            keep, seen = [], set()
            for c in out:
                k = (c["picked"], c["rescue"])
                if c["family"] == "file" or c["method"] == "picked_protein_group" or k not in seen:
                    keep.append(c)
                    if c["family"] == "fasta":
                        seen.add(k)
            out = keep
        else:
            for c in out[:: max(1, len(out) // 6)]:
                c["subprocesses"] = 2
        return out

    def e2e_cases(self, tier, seed):
        import tomllib

        out = []
        for m in e2e_method_classes(all_methods=(tier == "thorough")):
            d = tomllib.loads((lib.REPO / "picked_group_fdr" / "methods" / (m + ".toml")).read_text())
            for kind, targets, decoys in E2E_INPUTS:
                for arrival in ARRIVALS:
                    prots = arrange(targets, decoys, arrival)
                    out.append({
                        "kind": "e2e", "exhibit": kind, "method": m, "picked": d.get("pickedStrategy"), "arrival": arrival,
                        "proteins": [[p, rat(pep)] for p, pep in prots],
                        "seeds": E2E_SEEDS, "seed_base": 1000 * (len(out) + 1) + 7 * seed,
                    })
        return out

    # -- views: C02's + pass order + shuffle signature ---------------------------------------------
    def model_view(self, case, resp, impl_out):
        v = super().model_view(case, resp, impl_out)
        if "results" not in resp:
            return v
        v["pass_orders"] = resp["pass_orders"]
        v["shuffle_lens"] = [
            [len(po), 0 if "err" in r else len(r["groups"])] for po, r in zip(resp["pass_orders"], resp["results"])
        ]
        v["tie_mechanism"] = [None for _ in resp["results"]]  # what the MODEL says: two shuffles, ties keep their order (see _mechanism)
        return v

    def impl_view(self, case, impl_out):
        v = super().impl_view(case, impl_out)
        if not isinstance(impl_out, dict) or "_rec" not in impl_out:
            return v
        v["pass_orders"] = [
            [call["groups"][i] if i is not None else None for i in rec["pass"]]
            for call, rec in zip(case["calls"], impl_out["_rec"])
        ]
        v["shuffle_lens"] = [[s["n"] for s in rec["shuffles"]] for rec in impl_out["_rec"]]
        v["tie_mechanism"] = [self._mechanism(call, rec, res) for call, rec, res in zip(case["calls"], impl_out["_rec"], impl_out["results"])]
        return v

    # -- oracle ------------------------------------------------------------------------------------
    @staticmethod
    def _mechanism(call, rec, res):
        """None, or how the recorded call departs from the MECHANISM the model describes (Model/C02: exactly two
        `np.random.shuffle` calls, over the groups with evidence and over the survivors, each before a stable sort, so
        that tied groups stay in the order the shuffle left them in).  The property text fixes the DISTRIBUTION of the tie
        order (uniform under the run's seed), not the mechanism: a tool drawing uniform random keys, `permutation`, or a
        `default_rng` satisfies the text.  This is therefore an observation of the correspondence side (impl_view
        "tie_mechanism"; the model says None) and never a failing input."""
        groups, infos = call["groups"], call["infos"]
        try:
            scores = [unrat(s) for s in rec["scores"]]
            obs = [all_contain(g, "OBSOLETE__") for g in groups]
            with_ev = [i for i in range(len(groups)) if infos[i]]
            sh = rec["shuffles"]
            n_out = 0 if "err" in res else len(res["groups"])
            if len(sh) != 2:
                return "np.random.shuffle was called %d times in do_competition (the model: twice, before each sort)" % len(sh)
            if sh[0]["n"] != len(with_ev):
                return "first shuffle over %d elements, but %d groups have evidence" % (sh[0]["n"], len(with_ev))
            if sh[1]["n"] != n_out:
                return "second shuffle over %d elements, but %d groups survive" % (sh[1]["n"], n_out)
            after1 = [sh[0]["before"][i] for i in sh[0]["perm"]]
            after2 = [sh[1]["before"][i] for i in sh[1]["perm"]]
            po, out = rec["pass"], rec["out_idx"]
            if None in after1 or None in after2 or None in po or None in out:
                return None  # positions cannot be observed from outside
            if sorted(after1) != sorted(with_ev):
                return "the first shuffle was not applied to the groups with evidence"
            if sorted(after2) != sorted(out):
                return "the second shuffle was not applied to the survivors"
            if len(scores) != len(groups):
                return None
            k1 = lambda i: (scores[i], not obs[i])
            pos1 = {g: k for k, g in enumerate(after1)}
            for a in range(len(po)):
                for b in range(a + 1, len(po)):
                    x, y = po[a], po[b]
                    if x in pos1 and y in pos1 and k1(x) == k1(y) and pos1[x] > pos1[y]:
                        return "tied groups %r and %r compete in an order that is not the order the first shuffle gave them" % (groups[x], groups[y])
            pos2 = {g: k for k, g in enumerate(after2)}
            for a in range(len(out)):
                for b in range(a + 1, len(out)):
                    x, y = out[a], out[b]
                    if scores[x] == scores[y] and pos2[x] > pos2[y]:
                        return "equally scoring survivors %r and %r are ranked in an order that is not the order the second shuffle gave them" % (groups[x], groups[y])
        except (KeyError, IndexError, TypeError) as e:
            return "not observed (%s)" % type(e).__name__
        return None

    @staticmethod
    def _check_call(call, rec, res):
        """what the property text fixes on ONE draw: equal scores are the only freedom, i.e. the groups compete and are
        ranked by non-increasing key.  How ties are drawn (number of shuffle calls, their order) is the model's business
        (`_mechanism`, correspondence side); that they are drawn without bias is judged over many seeds (extra stage)."""
        groups, infos = call["groups"], call["infos"]
        scores = [unrat(s) for s in rec["scores"]]
        obs = [all_contain(g, "OBSOLETE__") for g in groups]
        with_ev = [i for i in range(len(groups)) if infos[i]]
        if "err" not in res:  # the returned ranking, on the returned scores themselves
            rs = [unrat(x) for x in res["scores"]]
            if any(a < b for a, b in zip(rs, rs[1:])):
                return "ranking is not by non-increasing score"
        po = rec["pass"]
        if None in po or len(scores) != len(groups):
            # the code handed copies of groups with ambiguous content around, or did not score every group once in input
            # order: positions cannot be observed from outside; the exact comparison of pass order and ranking with the
            # model (by content) still applies
            return None
        if sorted(po) != sorted(with_ev):
            return "the groups that compete (%r) are not the groups with evidence (%r)" % (po, with_ev)
        k1 = lambda i: (scores[i], not obs[i])
        for a in range(len(po)):
            for b in range(a + 1, len(po)):
                x, y = po[a], po[b]
                if k1(x) < k1(y):
                    return "pass order is not by non-increasing (score, regular-before-placeholder): %r before %r" % (groups[x], groups[y])
        return None

    def oracle(self, case, impl_out):
        if case.get("kind") == "written":
            if not isinstance(impl_out, dict) or "written" not in impl_out:
                return "no written table: %r" % (impl_out,)
            return judge_written(case, impl_out)
        if case.get("kind") == "e2e":
            if not isinstance(impl_out, dict) or "e2e" not in impl_out:
                return "no end-to-end result: %r" % (impl_out,)
            return judge_e2e(case, impl_out)
        if "results" not in impl_out:
            return "no result: %r" % (impl_out,)
        for k, (call, rec, res) in enumerate(zip(case["calls"], impl_out["_rec"], impl_out["results"])):
            why = self._check_call(call, rec, res)
            if why:
                return "call %d: %s" % (k + 1, why)
        return None

    # -- bookkeeping -----------------------------------------------------------------------------------
    def nontrivial(self, case, impl_out):
        if case.get("kind") == "written":
            return isinstance(impl_out, dict) and "written" in impl_out and len({tuple(x[0] for x in r["rows"]) for r in impl_out["written"]["runs"]}) > 1
        if case.get("kind") == "e2e":
            return isinstance(impl_out, dict) and "e2e" in impl_out and impl_out["e2e"]["distinct_rankings"] > 1
        return self._stats(case, impl_out)["tie"]

    def features(self, case, impl_out):
        if case.get("kind") == "written":
            return ["written", "written:%s" % case.get("family"), "written:method=%s" % case.get("method")]
        if case.get("kind") == "e2e":
            return ["e2e", "e2e:%s" % case.get("exhibit"), "arrival=%s" % case.get("arrival")]
        f = super().features(case, impl_out)
        f.append("arrival=%s" % case.get("arrival"))
        if isinstance(impl_out, dict) and "_rec" in impl_out:
            if any(None in rec["pass"] or None in rec["out_idx"] for rec in impl_out["_rec"]):
                f.append("group_identity_not_observable(oracle abstains)")
        if isinstance(impl_out, dict) and "_rec" in impl_out:
            for call, rec in zip(case["calls"], impl_out["_rec"]):
                sc = {}
                for i, g in enumerate(call["groups"]):
                    if call["infos"][i] and i < len(rec["scores"]):
                        sc.setdefault(tuple(rec["scores"][i]), set()).add(is_decoy(g))
                if any(len(v) == 2 for v in sc.values()):
                    f.append("target_decoy_tie")
                    break
        return f

    # -- extra: exhibit bias over many seeds ---------------------------------------------------------------
    def extra(self, ctx):
        lib.setup_impl_path()
        n_seeds = N_SEEDS
        evals, failures, info = 0, [], {"seeds": n_seeds, "inputs": 0, "min_count_of_any_relative_order": None}
        mins = []
        fixed = [
            # (targets, decoys): all four survive and tie -> the second shuffle decides the ranking
            ("ranking", [["A"], ["B"]], [["REV__C"], ["REV__D"]]),
            # tied twins -> the first shuffle decides who competes first and survives
            ("twins", [["A"], ["B"]], [["REV__A"], ["REV__B"]]),
            # tied regular groups and placeholders: regular ones compete first, the second shuffle mixes them again
            ("ranking", [["A"], ["OBSOLETE__B"]], [["REV__C"], ["OBSOLETE__REV__D"]]),
        ]
        for kind, targets, decoys in fixed:
            for arrival in ARRIVALS:
                groups = arrange(targets, decoys, arrival)
                infos = [[[rat(0.01), "PEP%d" % k, list(g)]] for k, g in enumerate(groups)]
                for strat, picking in (("picked_group", "leading"), ("picked", None), ("classic", None)):
                    if kind == "twins" and strat == "classic":
                        continue
                    case = {"strategy": strat, "scorer": "bestPEP", "np_seed": 0, "arrival": arrival,
                            "calls": [{"groups": groups, "infos": infos}], "seeds": n_seeds}
                    if picking:
                        case["picking"] = picking
                    info["inputs"] += 1
                    before = {}  # (x, y) -> number of seeds in which x is ranked before y
                    winners = {}
                    for seed in range(n_seeds):
                        out = run_competition(case, seed_override=seed)
                        evals += 1
                        res = out["results"][0]
                        if "err" in res:
                            continue
                        names = [g[0] for g in res["groups"]]
                        for a in range(len(names)):
                            winners[names[a]] = winners.get(names[a], 0) + 1
                            for b in range(a + 1, len(names)):
                                before[(names[a], names[b])] = before.get((names[a], names[b]), 0) + 1
                    why = None
                    if kind == "ranking":
                        all_names = [g[0] for g in groups]
                        for x in all_names:
                            for y in all_names:
                                if x != y:
                                    c = before.get((x, y), 0)
                                    mins.append(c)
                                    if c == 0 and why is None:
                                        why = (
                                            "tied groups %s and %s: %s is never ranked before %s in %d seeds (arrival %s, strategy %s); "
                                            "probability 2^-%d under a uniform shuffle" % (x, y, x, y, n_seeds, arrival, strat, n_seeds - 1)
                                        )
                    else:
                        for g in groups:
                            c = winners.get(g[0], 0)
                            mins.append(c)
                            if c == 0 and why is None:
                                why = (
                                    "tied twin %s never wins the competition against its equally scoring twin in %d seeds "
                                    "(arrival %s, strategy %s); probability 2^-%d under a uniform shuffle" % (g[0], n_seeds, arrival, strat, n_seeds - 1)
                                )
                    if why:
                        failures.append({"case": case, "why": why, "kind": "bias"})
        info["min_count_of_any_relative_order"] = min(mins) if mins else None
        # ---- the same question asked of the public API, under the caller's seeds ----
        e2e = {"inputs": 0, "calls": 0, "qvalue_tables_checked": 0, "qvalue_tables_abstained": 0,
               "min_distinct_rankings": None, "seeds_per_input": E2E_SEEDS, "methods": []}
        distinct_nontrivial = 0
        if not ctx.get("replay"):
            seen_fail = set()
            for case in self.e2e_cases(ctx.get("tier", "quick"), int(ctx.get("seed", 0) or 0)):
                out = lib._safe(self.run_impl, case)
                if not (isinstance(out, dict) and "e2e" in out):
                    failures.append({"case": case, "why": "get_protein_group_results raised: %r" % (out,), "kind": "e2e"})
                    continue
                e = out["e2e"]
                e2e["inputs"] += 1
                e2e["calls"] += e["tables"]
                evals += e["tables"]
                e2e["qvalue_tables_checked"] += e["q_checked"]
                e2e["qvalue_tables_abstained"] += e["q_abstained"]
                if case["method"] not in e2e["methods"]:
                    e2e["methods"].append(case["method"])
                d = e["distinct_rankings"]
                e2e["min_distinct_rankings"] = d if e2e["min_distinct_rankings"] is None else min(d, e2e["min_distinct_rankings"])
                distinct_nontrivial += 1 if d > 1 else 0
                why = self.oracle(case, out)
                if why:
                    k = (case["method"], why.split(":", 1)[1][:60] if ":" in why else why[:60])
                    if k[1] not in seen_fail or len(failures) < 3:
                        failures.append({"case": case, "why": why, "impl": out, "kind": "e2e"})
                    seen_fail.add(k[1])
        info["end_to_end"] = e2e
        # ---- the same question asked of the table the command line WRITES ----
        wr = {"inputs": 0, "tables": 0, "subprocess_runs": 0, "methods": [], "min_distinct_block_orders_per_arrival": None,
              "target_first_fraction_min_max": None, "qvalue_tables_checked": 0, "seeds_per_arrival": W_SEEDS,
              "band": round(w_band(W_SEEDS), 1), "band_pooled": round(w_band(3 * W_SEEDS), 1), "alpha": W_ALPHA}
        if not ctx.get("replay"):
            fr = []
            for case in self.written_cases(ctx.get("tier", "quick"), int(ctx.get("seed", 0) or 0)):
                out = lib._safe(self.run_impl, case)
                if not (isinstance(out, dict) and "written" in out):
                    failures.append({"case": case, "why": "the command line raised: %r" % (out,), "kind": "written"})
                    continue
                runs = out["written"]["runs"]
                wr["inputs"] += 1
                wr["tables"] += len(runs)
                wr["subprocess_runs"] += len(out["written"]["subprocess"])
                evals += len(runs)
                if case["method"] not in wr["methods"]:
                    wr["methods"].append(case["method"])
                n_orders = []
                for a in range(len(ARRIVALS)):
                    blocks = [b for b in (w_block(r["rows"]) for r in runs if r["arrival"] == a) if b]
                    n_orders.append(len({tuple(x[0] for x in b) for b in blocks}))
                    if blocks:
                        fr.append(sum(1 for b in blocks if not b[0][1]) / len(blocks))
                m = min(n_orders)
                wr["min_distinct_block_orders_per_arrival"] = m if wr["min_distinct_block_orders_per_arrival"] is None else min(m, wr["min_distinct_block_orders_per_arrival"])
                if not case["rescue"]:
                    wr["qvalue_tables_checked"] += sum(1 for r in runs if all(";" not in x[0] for x in r["rows"]))
                distinct_nontrivial += 1 if m > 1 else 0
                why = self.oracle(case, out)
                if why:
                    failures.append({"case": case, "why": why, "impl": out if len(failures) < 2 else None, "kind": "written"})
                else:
                    unseeded = w_seed_observed(out)
                    if unseeded:
                        # not demanded by the property text: a departure from what the model says (one np.random.seed per
                        # run); the exhibit could not vary the seed -> broken correspondence, never a failing input
                        failures.append({"case": case, "why": None, "impl": {"seed_calls": sorted({r["seed_calls"] for r in runs})},
                                         "disagree": {"impl": unseeded, "model": "the run seeds numpy's global generator once (np.random.seed in run_picked_group_fdr; Model/C07Stream.lean)"}})
            if fr:
                wr["target_first_fraction_min_max"] = [round(min(fr), 3), round(max(fr), 3)]
        info["written_tables"] = wr
        return {"evaluations": evals, "failures": failures, "info": info, "distinct_nontrivial": distinct_nontrivial}
