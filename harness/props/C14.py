"""C14 — equal-score ties are broken without bias.

Same model and same real function as C02 (op "compete", do_competition called directly), on
tie-heavy inputs that arrive in three orders (targets first, decoys first, interleaved).

Compared exactly with the model, in addition to C02's three returned lists: the PASS ORDER (the
order in which the groups compete, observed by wrapping `_is_protein_seen` on the strategy object)
and the number and argument lengths of the `np.random.shuffle` calls (exactly two per call: over all
groups with evidence, over the survivors).

Oracle (on the recorded data): two shuffles of the right lengths, each BEFORE its sort: the pass
order is non-increasing in (score, not placeholder) and groups of equal (score, placeholder) compete
in the order the first recorded shuffle left them in; the ranking is non-increasing in score and
equally scoring survivors are ranked in the order the second recorded shuffle left them in.

`extra` stage (only ever to EXHIBIT bias, never to pass a check): fixed tied inputs under 200 numpy
seeds in the three arrival orders; a relative order of two tied groups (or a winner of a tied
target/decoy twin pair) that never occurs has probability 2^-199 < 1e-50 under a uniform shuffle.
"""
import random

import lib
from lib import rat, unrat
from props.C02 import P as P02
from props.C02 import all_contain, run_competition

NAMES = ["A", "B", "C", "D", "E", "F"]
ARRIVALS = ["targets_first", "decoys_first", "interleaved"]
N_SEEDS = 200


def arrange(targets, decoys, arrival, rng=None):
    if arrival == "targets_first":
        return targets + decoys
    if arrival == "decoys_first":
        return decoys + targets
    out = []
    for k in range(max(len(targets), len(decoys))):
        if k < len(targets):
            out.append(targets[k])
        if k < len(decoys):
            out.append(decoys[k])
    return out


def is_decoy(g):
    return all_contain(g, "REV__") or all_contain(g, "rev_")


class P(P02):
    id = "C14"
    quick_cases = 3000
    thorough_cases = 200000
    chunk = 200
    rule = (
        "tie-heavy inputs: 1-4 target groups and 1-4 decoy groups (twins of the targets or other names from A-F, a few "
        "OBSOLETE__ placeholders), one or two peptides each with PEPs from a 2-value grid (or a 2-value score table), arriving "
        "targets first / decoys first / interleaved; all strategies and picking modes; non-trivial = at least one tie class "
        "of two or more groups with evidence; distinct by sha1 of the case"
    )
    assumptions = P02.assumptions + [
        "numpy's legacy generator draws the shuffle permutation uniformly (trusted; the counting theorem is about all n! permutations)",
    ]
    trusted_extra = P02.trusted_extra + ["wrapper recording the pass order via ProteinCompetitionStrategy._is_protein_seen"]

    # -- generation --------------------------------------------------------------------------
    def gen_call(self, rng, scorer, arrival):
        nt, nd = rng.randint(1, 4), rng.randint(1, 4)
        tnames = rng.sample(NAMES, nt)
        targets, decoys = [], []
        for b in tnames:
            if rng.random() < 0.25:
                other = rng.choice([x for x in NAMES if x != b])
                targets.append([b, other])
            elif rng.random() < 0.12:
                targets.append(["OBSOLETE__" + b])
            else:
                targets.append([b])
        for _ in range(nd):
            pre = rng.choice(["REV__", "REV__", "rev_", "OBSOLETE__REV__"])
            b = rng.choice(tnames) if rng.random() < 0.5 else rng.choice(NAMES)
            g = [pre + b]
            if g not in decoys:
                decoys.append(g)
        groups = arrange(targets, decoys, arrival)
        grid = rng.choice([[0.01], [0.01, 0.01, 0.05], [0.001, 0.01]])
        infos = []
        for k, g in enumerate(groups):
            ev = [[rat(rng.choice(grid)), "PEP%d" % k, list(g)]]
            if rng.random() < 0.25:
                ev.append([rat(rng.choice(grid)), "PEX%d" % k, [g[0]]])
            if rng.random() < 0.04:
                ev = []
            infos.append(ev)
        call = {"groups": groups, "infos": infos}
        if scorer == "table":
            tab = rng.choice([[1.0], [2.0, 1.0, 1.0]])
            call["table_scores"] = [rat(rng.choice(tab)) for _ in groups]
        return call

    def gen_case(self, rng, tier):
        from props.C02 import STRATS

        strat, picking = rng.choice(STRATS)
        scorer = rng.choice(["bestPEP", "bestPEP", "table"])
        arrival = rng.choice(ARRIVALS)
        case = {
            "strategy": strat,
            "scorer": scorer,
            "np_seed": rng.randrange(2**31),
            "arrival": arrival,
            "calls": [self.gen_call(rng, scorer, arrival) for _ in range(2 if rng.random() < 0.15 else 1)],
        }
        if picking:
            case["picking"] = picking
        return case

    def exhaustive_cases(self, tier):
        # two tied targets and two tied decoys (one a twin), every arrival order, every strategy, 12 seeds each
        out = []
        targets, decoys = [["A"], ["B"]], [["REV__A"], ["REV__C"]]
        for arrival in ARRIVALS:
            groups = arrange(targets, decoys, arrival)
            infos = [[[rat(0.01), "PEP%d" % k, list(g)]] for k, g in enumerate(groups)]
            for strat, picking in (("picked", None), ("picked_group", "leading"), ("picked_group", "all"), ("classic", None)):
                for seed in range(12):
                    case = {
                        "strategy": strat,
                        "scorer": "bestPEP",
                        "np_seed": seed,
                        "arrival": arrival,
                        "calls": [{"groups": groups, "infos": infos}],
                    }
                    if picking:
                        case["picking"] = picking
                    out.append(case)
        return out

    # -- views: C02's + pass order + shuffle signature ---------------------------------------------
    def model_view(self, case, resp, impl_out):
        v = super().model_view(case, resp, impl_out)
        if "results" not in resp:
            return v
        v["pass_orders"] = resp["pass_orders"]
        v["shuffle_lens"] = [
            [len(po), 0 if "err" in r else len(r["groups"])] for po, r in zip(resp["pass_orders"], resp["results"])
        ]
        return v

    def impl_view(self, case, impl_out):
        v = super().impl_view(case, impl_out)
        if not isinstance(impl_out, dict) or "_rec" not in impl_out:
            return v
        v["pass_orders"] = [
            [call["groups"][i] if i is not None else None for i in rec["pass"]]
            for call, rec in zip(case["calls"], impl_out["_rec"])
        ]
        v["shuffle_lens"] = [[s["n"] for s in rec["shuffles"]] for rec in impl_out["_rec"]]
        return v

    # -- oracle ------------------------------------------------------------------------------------
    @staticmethod
    def _check_call(call, rec, res):
        groups, infos = call["groups"], call["infos"]
        scores = [unrat(s) for s in rec["scores"]]
        obs = [all_contain(g, "OBSOLETE__") for g in groups]
        with_ev = [i for i in range(len(groups)) if infos[i]]
        sh = rec["shuffles"]
        n_out = 0 if "err" in res else len(res["groups"])
        if len(sh) != 2:
            return "np.random.shuffle was called %d times in do_competition (exactly two are needed: before each sort)" % len(sh)
        if sh[0]["n"] != len(with_ev):
            return "first shuffle over %d elements, but %d groups have evidence" % (sh[0]["n"], len(with_ev))
        if sh[1]["n"] != n_out:
            return "second shuffle over %d elements, but %d groups survive" % (sh[1]["n"], n_out)
        after1 = [sh[0]["before"][i] for i in sh[0]["perm"]]
        after2 = [sh[1]["before"][i] for i in sh[1]["perm"]]
        po = rec["pass"]
        if None in after1 or None in after2 or None in po or None in rec["out_idx"]:
            # the code handed copies of groups with ambiguous content around: positions cannot be observed from
            # outside; the exact comparison of pass order and ranking with the model (by content) still applies
            return None
        if sorted(after1) != sorted(with_ev):
            return "the first shuffle was not applied to the groups with evidence"
        if sorted(po) != sorted(with_ev):
            return "the groups that compete (%r) are not the groups with evidence (%r)" % (po, with_ev)
        k1 = lambda i: (scores[i], not obs[i])
        pos1 = {g: k for k, g in enumerate(after1)}
        for a in range(len(po)):
            for b in range(a + 1, len(po)):
                x, y = po[a], po[b]
                if k1(x) < k1(y):
                    return "pass order is not by non-increasing (score, regular-before-placeholder): %r before %r" % (groups[x], groups[y])
                if k1(x) == k1(y) and pos1[x] > pos1[y]:
                    return (
                        "tied groups %r and %r compete in an order that is not the order the first shuffle gave them "
                        "(the shuffle must precede a stable sort on (score, placeholder) only)" % (groups[x], groups[y])
                    )
        out = rec["out_idx"]
        if sorted(after2) != sorted(out):
            return "the second shuffle was not applied to the survivors"
        pos2 = {g: k for k, g in enumerate(after2)}
        for a in range(len(out)):
            for b in range(a + 1, len(out)):
                x, y = out[a], out[b]
                if scores[x] < scores[y]:
                    return "ranking is not by non-increasing score"
                if scores[x] == scores[y] and pos2[x] > pos2[y]:
                    return (
                        "equally scoring survivors %r and %r are ranked in an order that is not the order the second shuffle gave "
                        "them (the shuffle must precede a stable sort on the score only)" % (groups[x], groups[y])
                    )
        return None

    def oracle(self, case, impl_out):
        if "results" not in impl_out:
            return "no result: %r" % (impl_out,)
        for k, (call, rec, res) in enumerate(zip(case["calls"], impl_out["_rec"], impl_out["results"])):
            why = self._check_call(call, rec, res)
            if why:
                return "call %d: %s" % (k + 1, why)
        return None

    # -- bookkeeping -----------------------------------------------------------------------------------
    def nontrivial(self, case, impl_out):
        return self._stats(case, impl_out)["tie"]

    def features(self, case, impl_out):
        f = super().features(case, impl_out)
        f.append("arrival=%s" % case.get("arrival"))
        if isinstance(impl_out, dict) and "_rec" in impl_out:
            if any(None in rec["pass"] or None in rec["out_idx"] for rec in impl_out["_rec"]):
                f.append("group_identity_not_observable(oracle abstains)")
        if isinstance(impl_out, dict) and "_rec" in impl_out:
            for call, rec in zip(case["calls"], impl_out["_rec"]):
                sc = {}
                for i, g in enumerate(call["groups"]):
                    if call["infos"][i] and i < len(rec["scores"]):
                        sc.setdefault(tuple(rec["scores"][i]), set()).add(is_decoy(g))
                if any(len(v) == 2 for v in sc.values()):
                    f.append("target_decoy_tie")
                    break
        return f

    # -- extra: exhibit bias over many seeds ---------------------------------------------------------------
    def extra(self, ctx):
        lib.setup_impl_path()
        n_seeds = N_SEEDS
        evals, failures, info = 0, [], {"seeds": n_seeds, "inputs": 0, "min_count_of_any_relative_order": None}
        mins = []
        fixed = [
            # (targets, decoys): all four survive and tie -> the second shuffle decides the ranking
            ("ranking", [["A"], ["B"]], [["REV__C"], ["REV__D"]]),
            # tied twins -> the first shuffle decides who competes first and survives
            ("twins", [["A"], ["B"]], [["REV__A"], ["REV__B"]]),
            # tied regular groups and placeholders: regular ones compete first, the second shuffle mixes them again
            ("ranking", [["A"], ["OBSOLETE__B"]], [["REV__C"], ["OBSOLETE__REV__D"]]),
        ]
        for kind, targets, decoys in fixed:
            for arrival in ARRIVALS:
                groups = arrange(targets, decoys, arrival)
                infos = [[[rat(0.01), "PEP%d" % k, list(g)]] for k, g in enumerate(groups)]
                for strat, picking in (("picked_group", "leading"), ("picked", None), ("classic", None)):
                    if kind == "twins" and strat == "classic":
                        continue
                    case = {"strategy": strat, "scorer": "bestPEP", "np_seed": 0, "arrival": arrival,
                            "calls": [{"groups": groups, "infos": infos}], "seeds": n_seeds}
                    if picking:
                        case["picking"] = picking
                    info["inputs"] += 1
                    before = {}  # (x, y) -> number of seeds in which x is ranked before y
                    winners = {}
                    for seed in range(n_seeds):
                        out = run_competition(case, seed_override=seed)
                        evals += 1
                        res = out["results"][0]
                        if "err" in res:
                            continue
                        names = [g[0] for g in res["groups"]]
                        for a in range(len(names)):
                            winners[names[a]] = winners.get(names[a], 0) + 1
                            for b in range(a + 1, len(names)):
                                before[(names[a], names[b])] = before.get((names[a], names[b]), 0) + 1
                    why = None
                    if kind == "ranking":
                        all_names = [g[0] for g in groups]
                        for x in all_names:
                            for y in all_names:
                                if x != y:
                                    c = before.get((x, y), 0)
                                    mins.append(c)
                                    if c == 0 and why is None:
                                        why = (
                                            "tied groups %s and %s: %s is never ranked before %s in %d seeds (arrival %s, strategy %s); "
                                            "probability 2^-%d under a uniform shuffle" % (x, y, x, y, n_seeds, arrival, strat, n_seeds - 1)
                                        )
                    else:
                        for g in groups:
                            c = winners.get(g[0], 0)
                            mins.append(c)
                            if c == 0 and why is None:
                                why = (
                                    "tied twin %s never wins the competition against its equally scoring twin in %d seeds "
                                    "(arrival %s, strategy %s); probability 2^-%d under a uniform shuffle" % (g[0], n_seeds, arrival, strat, n_seeds - 1)
                                )
                    if why:
                        failures.append({"case": case, "why": why, "kind": "bias"})
        info["min_count_of_any_relative_order"] = min(mins) if mins else None
        return {"evaluations": evals, "failures": failures, "info": info}
