"""C15 — merging rescoring results rewrites exactly the matched PSMs of evidence files.

Correspondence: the real `update_evidence_from_pout.main` (run in a temp dir on generated evidence +
Percolator / mokapot target and decoy result files) vs `PgFdr.C15.mergeRaw` (Lean model, driver op
"merge").  Output rows are read back with the csv dialect the repo selects and compared field by
field as strings.  Oracle: an independent join on (raw file, scan, modified sequence).

The only value conversion outside the model is `repr(float(field))` for the score / PEP fields of
the result files (the implementation holds them as floats and csv writes their repr): the generator
records which columns those are and `model_request` hands the model the written form.

File names and the order given (addendum 3): every case names its evidence and result files itself
(`ev_paths`, `res_paths`: random directories / base names, the same base name in different directories,
non-alphabetical orders common) and lists them in its own order (`ev_args`, `res_args`: indices into
`evidence` / `results`; an index may occur twice = the same path given twice, which the code merges
twice).  `entry` selects the entry point: `update_evidence_files` (api), `main(argv)` (main),
`python -m picked_group_fdr.pipeline.update_evidence_from_pout` (module), or
`pipeline.run_update_evidence` (pipeline: one merge per evidence file, each with all result files).
The model and the oracle receive the files in the order GIVEN, never in path order.

The csv layer (round 5, seeded C15-g): the evidence files are TEXT.  The case holds the cell values and a
writing style per file (`ev_style`: quoting minimal / all / MaxQuant-lenient / mixed, line ends CRLF / LF /
CR, final line end or not, BOM); `tsv_encode` (independent of the csv module) makes the bytes, the model
(`merge_text`) gets the decoded text and answers the TEXT of the output file, which must equal the real
output byte for byte; the oracle reads the real output with `tsv_parse` (an independent minimal reader of
the dialect) and compares CELL VALUES with the join.  Cells carry everything the dialect can carry
(quotes inside / at the start / doubled, commas, semicolons, blanks, empty, non-ASCII, tab and line
breaks inside quotes) in header, matched, unmatched and MBR rows.

The classification (round 5, seeded C15-h): the `Type` cell takes every MaxQuant value (MSMS, MULTI-MSMS,
MULTI-SECPEP, MULTI-MATCH, MULTI-MATCH-MSMS, ISO-MSMS, empty) independently of whether the row has a scan
number; the oracle's rule is the property's: a row WITHOUT scan number passes unchanged, a row WITH one is
rewritten with the matched values or dropped.
"""
import csv
import os
import re
import shutil
import subprocess
import tempfile
import traceback

import lib
from lib import Prop

EV_BASE = [
    "Sequence",
    "Modified sequence",
    "Raw file",
    "MS/MS scan number",
    "Score",
    "PEP",
    "Type",
    "Reverse",
    "Potential contaminant",
    "Proteins",
    "id",
]
RAWS = ["raw_1", "raw_2_b", "r3", "sample_x_y_z", "a__b", "raw_1_7"]
MODS = ["AAAK", "AAM(ox)K", "(ac)AAAK", "CCCK", "M(ox)M(ox)K", "(ac)M(ox)K", "AAS(ph)K", "MK"]
SCORES = ["2.5", "-0.125", "1e-05", "0.10", "3", "1E-3", "0.001", "10.75", "-1.5", "0.5", "1.0", "nan"]
PEPS = ["0.001", "0.05", "0.5", "1.0", "1e-10", "0.010", "1", "2.5e-3"]


TYPES = ["MSMS", "MULTI-MSMS", "MULTI-SECPEP", "MULTI-MATCH", "MULTI-MATCH-MSMS", "ISO-MSMS", ""]
# cell values: everything the tab-separated dialect can carry
EXOTIC = [
    '5"-nucleotidase', '"starts with a quote', 'ends with a quote"', '""', '"', 'say ""hi""', '"fully quoted"', 'a"b"c',
    "a,b", ",", "x;y;z", ";", " lead", "trail ", "  ", "", "", "\u00c4pfel \u00b5 \u03b2", "\u86cb\u767d\u8cea", "\U0001f9ec dna",
    "tab\there", "line\nbreak", "cr\rlf\r\nmix", '"\t"', "'single'", "\\backslash\\", "\u00a0nbsp", "in\ufeffside", "nel\x85ls\u2028",
    '3\' 5"', '"";"";""', "P1;5\"-NT;\"x\"",
]
EXOTIC_HEADERS = ["Protein names", 'Fasta "headers"', '"Quoted"', " Gene names", "Gene names ", "a,b", "x;y", "\u00b5-mass \u0394",
                  "\u86cb\u767d", "", "Tab\there", '5"-end', 'Proteins "leading"', "Line\nbreak", '""']
EXOTIC_RAWS = ['raw "q"', " raw_1", "r\u00e4w_5", "r,3;x", 'a"_b']
EXOTIC_MODS = ['AA"K', "A K", "\u00c4AK"]
FREE_COLUMNS = ("sequence", "proteins", "id", "intensity", "retention time")


def tsv_encode(rows, style=None):
    """The text of a tab-separated file holding these cell values — written WITHOUT the csv module.
    style = {"quote": "minimal" | "all" | "lenient" | "mixed", "eol": "\r\n" | "\n" | "\r", "final_eol": bool}.
    minimal: a cell is quoted iff it contains a tab, a quote, CR or LF (what csv.writer does);
    all: every cell is quoted; mixed: every other cell is quoted as well;
    lenient: the MaxQuant way — a quote inside a cell that does not START with one (and holds no tab / line
    break) is written as it is (`5"-nucleotidase`): the standard reader takes it literally."""
    style = style or {}
    q, eol = style.get("quote", "minimal"), style.get("eol", "\r\n")
    lines = []
    for r, row in enumerate(rows):
        if row == [""]:
            lines.append('""')  # a record of one empty cell; an empty line is a record without cells
            continue
        out = []
        for c, cell in enumerate(row):
            must = any(ch in cell for ch in '\t"\r\n')
            if q == "lenient" and must and not cell.startswith('"') and not any(ch in cell for ch in "\t\r\n"):
                must = False
            if must or q == "all" or (q == "mixed" and (r + c) % 2 == 0):
                out.append('"' + cell.replace('"', '""') + '"')
            else:
                out.append(cell)
        lines.append("\t".join(out))
    if not lines:
        return ""
    final = style.get("final_eol", True) or rows[-1] == []
    return eol.join(lines) + (eol if final else "")


def tsv_parse(text):
    """An independent minimal reader of the tab-separated dialect: records end at CRLF, LF or CR outside
    quotes, cells are separated by tabs outside quotes; a cell that STARTS with a double quote runs to the
    closing quote, a doubled quote inside standing for one quote; in any other cell every character is
    literal (also a quote).  An empty line is a record without cells."""
    rows, i, n = [], 0, len(text)
    while i < n:
        cells = []
        if text[i] not in "\r\n":
            while True:
                if i < n and text[i] == '"':
                    i += 1
                    buf = []
                    while i < n:
                        if text[i] == '"':
                            if i + 1 < n and text[i + 1] == '"':
                                buf.append('"')
                                i += 2
                                continue
                            i += 1
                            break
                        buf.append(text[i])
                        i += 1
                    while i < n and text[i] not in "\t\r\n":  # (malformed: text after the closing quote)
                        buf.append(text[i])
                        i += 1
                    cells.append("".join(buf))
                else:
                    j = i
                    while j < n and text[j] not in "\t\r\n":
                        j += 1
                    cells.append(text[i:j])
                    i = j
                if i < n and text[i] == "\t":
                    i += 1
                    continue
                break
        if i < n:
            i += 2 if text[i] == "\r" and text[i + 1 : i + 2] == "\n" else 1
        rows.append(cells)
    return rows


def perc_pep(m, rng):
    """spelling of a modified sequence in a Percolator / mokapot result file"""
    r = rng.random()
    if r < 0.75:
        s = m.replace("(ac)", "[42]").replace("M(ox)", "M[16]").replace("S(ph)", "S[80]")
    elif r < 0.9:
        s = m  # MaxQuant spelling kept: needs no conversion
    else:
        s = m.replace("(ac)", "[42]")  # only one of the two conversions needed
    return "-." + s + ".-"


def scan_spelling(n, rng):
    r = rng.random()
    if r < 0.7:
        return str(n)
    if r < 0.85:
        return "0" + str(n)
    if r < 0.95:
        return "00" + str(n)
    return "+" + str(n)


def written(s):
    """what csv writes for float(s)"""
    return repr(float(s))


class P(Prop):
    id = "C15"
    quick_cases = 1500
    thorough_cases = 40000
    chunk = 100
    rule = (
        "1-3 evidence files (0-7 rows, columns permuted / re-cased / evidence.txt or msms.txt scan column, optional "
        "Labeling State and extra columns, headers may differ between files) and 0-3 native-Percolator or mokapot result "
        "files (.txt tab / .csv comma, 0-9 rows) over 6 raw-file names with underscores, 8 modified sequences, scans 1-4 "
        "with leading zeros / plus sign, duplicate keys within and across result files, MBR rows, rare malformed inputs "
        "(12 % of the cases exercise parse_andromeda_psmid_and_peptide alone on identifiers built from 14 tokens) "
        "(bad PSM id, missing column, short row, empty file); files named by the case (9 directories x 6 base names, same base "
        "name in different directories 45 %, order given not the sorted path order in >= 80 % of the multi-file cases), "
        "8 % / 6 % list an evidence / result file twice; entry point per case: update_evidence_files 25 %, "
        "pipeline.run_update_evidence 18 % (needs a result file), python -m subprocess 1.5 %, main(argv) the rest; "
        "evidence files are TEXT: 65 % written in a style of their own (quoting minimal / all / MaxQuant-lenient / mixed, CRLF / LF / CR, "
        "with or without final line end, BOM 15 %); 55 % of the cases carry cells from a 32-value list of everything the dialect can "
        "carry (quotes inside / leading / doubled, comma, semicolon, blanks, empty, non-ASCII incl. non-BMP, tab, CR, LF) in free "
        "columns, 0-3 extra columns with such header names, raw-file names / modified sequences with quotes or blanks; the Type cell "
        "takes all 7 MaxQuant values independently of the scan-number cell in 60 % of the cases; "
        "result files carry 0-3 extra columns (filename equal to / differing from / unrelated to the raw file or empty, ExpMass, CalcMass, "
        "Label, ScanNr, rank ...) at random positions, --pout_input_type andromeda explicit 30 %; 10 % of the cases compare the dictionary "
        "of get_percolator_results alone (andromeda / empty / prosit input type, prosit identifiers with dashes, filename column, labelled "
        "sequences), 5 % parse_prosit_psmid_and_peptide alone on identifiers glued from 16 tokens; "
        "non-trivial = non-empty results and at least one rewritten "
        "and one dropped-or-MBR row; distinct by sha1 of the case"
    )
    assumptions = [
        "score / PEP fields are Python float literals; csv writes repr(float(x)) for the rescored values (harness converts with repr(float(.)))",
        "scan numbers are ASCII [+-]digits (Python int() also accepts white space, '_' separators, non-ASCII digits: outside the model)",
        "the names of the columns the merge looks up are ASCII; other header cells may hold any character that str.lower() does not map into ASCII (not U+212A KELVIN SIGN, U+0130)",
        "the output file is written with the locale's encoding (get_tsv_writer opens it without one): the check runs in Python's UTF-8 mode and decodes it as UTF-8",
        "result files (Percolator / mokapot) are handed to the model as rows of cells: their csv layer (tab or comma by extension) is the harness's csv.writer and the code's reader, not the Lean reader",
        "Andromeda-style identifiers (--pout_input_type andromeda) for the merge; for prosit identifiers the result-file side only (key, dictionary, fixed-modification table) is compared with the model, without oracle; --mq_input_type peptides is outside the property",
        "int(float(s)) of the prosit branch is modelled on [+-]digits[.digits] below 2^53 (no exponent, inf, nan, blanks)",
    ]

    # ------------------------------------------------------------------ generation
    ID_TOKENS = ["", "a", "raw", "1", "07", "+3", "-2", "x1", "1x", "+", "-", "12345678901234567890", "r.2", "0"]
    PEPT_STRINGS = ["-.AAM[16]K.-", "-.[42]M[16]K.-", "ab", "", "-.M[16]M[16].-", "[42]", "-.M[1[42]6]K.-", "-.M[16.-",
                    "-.[42][42]K.-", "K.AAM(ox)K.A", "-.AM[16.-", "abc", "-.M[16][42].-"]

    def gen_case(self, rng, tier):
        if rng.random() < 0.12:
            # the identifier parser alone (malformed identifiers included)
            psmid = "_".join(rng.choice(self.ID_TOKENS) for _ in range(rng.randint(1, 6)))
            return {"psmid": psmid, "peptide": rng.choice(self.PEPT_STRINGS)}
        r0 = rng.random()
        if r0 < 0.05:
            # parse_prosit_psmid_and_peptide alone (identifiers glued from tokens, filename cell empty / dashed / plain)
            psmid = "-".join(rng.choice(self.PROSIT_TOKENS) for _ in range(rng.randint(1, 7)))
            return {"prosit_key": psmid, "peptide": rng.choice(self.PROSIT_PEPT), "filename": rng.choice(self.PROSIT_FILENAMES)}
        if r0 < 0.15:
            return self._gen_dict_case(rng)
        nfiles = rng.choice([1, 1, 2, 2, 3])
        raws = rng.sample(RAWS, rng.randint(2, 4))
        mods = rng.sample(MODS, rng.randint(2, 5))
        exotic = rng.random() < 0.55  # cells / header names / raw files that need the whole dialect
        if exotic and rng.random() < 0.3:
            raws.append(rng.choice(EXOTIC_RAWS))
        if exotic and rng.random() < 0.15:
            mods.append(rng.choice(EXOTIC_MODS))
        res_raws = [r for r in raws if rng.random() < 0.8] or raws[:1]
        realistic_types = rng.random() < 0.4  # MULTI-MATCH exactly on the rows without scan number
        evidence = []
        keys = []
        idc = 0
        for f in range(nfiles):
            hdr = list(EV_BASE)
            if rng.random() < 0.3:
                hdr[3] = "Scan number"  # msms.txt
            if rng.random() < 0.1:
                hdr.insert(rng.randint(0, len(hdr)), "Scan number" if hdr[3] != "Scan number" else "Retention time")
            if rng.random() < 0.25:
                hdr.append("Labeling State")
            if rng.random() < 0.3:
                hdr.insert(rng.randint(0, len(hdr)), "Intensity")
            if rng.random() < 0.08:
                hdr.append("Score")  # duplicate column name: index() takes the first
            if exotic:
                for _ in range(rng.choice([0, 1, 1, 2, 3])):
                    hdr.insert(rng.randint(0, len(hdr)), rng.choice(EXOTIC_HEADERS))
            if rng.random() < 0.4:
                rng.shuffle(hdr)
            # what each column holds is decided by the canonical (first-occurrence, lower-case) name
            names = [h.lower() for h in hdr]
            r = rng.random()
            if r < 0.15:
                hdr = [h.upper() for h in hdr]
            elif r < 0.3:
                hdr = [h.lower() for h in hdr]
            rows = []
            for _ in range(rng.choice([0, 1, 2, 3, 4, 5, 7])):
                m = rng.choice(mods)
                raw = rng.choice(raws)
                mbr = rng.random() < 0.2
                scan = "" if mbr else scan_spelling(rng.randint(1, 4), rng)
                if not mbr and rng.random() < 0.02:
                    scan = "-1"
                vals = {
                    "sequence": re.sub(r"\([a-z]+\)", "", m),
                    "modified sequence": "_" + m + "_",
                    "raw file": raw,
                    "ms/ms scan number": scan,
                    "scan number": scan,
                    "score": "NaN" if mbr else rng.choice(["0.0", "10.5", "50.0", "-1"]),
                    "pep": "NaN" if mbr else rng.choice(["0.01", "0.2", "1"]),
                    # every MaxQuant value, with and without a scan number (the Type cell decides nothing)
                    "type": ("MULTI-MATCH" if mbr else rng.choice(["MSMS", "MULTI-MSMS", "MULTI-SECPEP"])) if realistic_types
                    else rng.choice(TYPES),
                    "reverse": rng.choice(["", "+"]),
                    "potential contaminant": rng.choice(["", "+"]),
                    "proteins": rng.choice(["P1;P2", "REV__P1", "CON__P3", ""]),
                    "id": str(idc),
                    "labeling state": rng.choice(["", "0", "1", "-1"]),
                    "intensity": rng.choice(["", "1000", "2.5e6"]),
                    "retention time": "12.5",
                }
                idc += 1
                if not mbr and scan != "-1":
                    keys.append((raw, int(scan), m))
                if "ms/ms scan number" in names and "scan number" in names:
                    # the code prefers "ms/ms scan number": make the other one misleading
                    vals["scan number"] = str(rng.randint(1, 4))
                if exotic:
                    for n in FREE_COLUMNS:
                        if rng.random() < 0.35:
                            vals[n] = rng.choice(EXOTIC)
                row = [vals[n] if n in vals else rng.choice(EXOTIC) for n in names]
                seen_score = False
                for i, n in enumerate(names):  # duplicate "score" column: second copy holds something else
                    if n == "score":
                        if seen_score:
                            row[i] = "999"
                        seen_score = True
                rows.append(row)
            evidence.append([hdr] + rows)
        results = []
        for pf in range(rng.choice([0, 1, 1, 2, 2, 3])):
            fmt = rng.choice(["native", "native", "mokapot"])
            ext = rng.choice([".txt", ".txt", ".csv"])
            if fmt == "native":
                hdr = ["PSMId", "score", "q-value", "posterior_error_prob", "peptide", "proteinIds"]
            else:
                hdr = ["SpecId", "Label", "ScanNr", "ExpMass", "Peptide", "mokapot score", "mokapot q-value", "mokapot PEP", "Proteins"]
                if rng.random() < 0.5:
                    body = hdr[:-1]
                    rng.shuffle(body)
                    hdr = body + hdr[-1:]
            fn_of = self._add_extra_result_columns(hdr, fmt, rng, raws)
            if rng.random() < 0.15:
                hdr = [h.lower() for h in hdr]
            names = [h.lower() for h in hdr]
            rows = []
            for _ in range(rng.choice([0, 1, 2, 3, 4, 6, 9])):
                raw = rng.choice(res_raws)
                scan = rng.randint(1, 4)
                m = rng.choice(mods)
                if keys and rng.random() < 0.5:  # aim at an evidence row
                    raw, scan, m = rng.choice(keys)
                vals = {
                    "filename": fn_of(raw, rng),
                    "calcmass": "1000.49",
                    "rank": "1",
                    "spectrum": "controllerType=0 scan=%d" % scan,
                    "retention_time": "12.5",
                    "charge2": "1",
                    "psmid": f"{raw}_{scan_spelling(scan, rng)}_{rng.randint(2, 4)}_1",
                    "specid": f"{raw}_{scan_spelling(scan, rng)}_{rng.randint(2, 4)}_1",
                    "score": rng.choice(SCORES),
                    "mokapot score": rng.choice(SCORES),
                    "q-value": "0.01",
                    "mokapot q-value": "0.01",
                    "posterior_error_prob": rng.choice(PEPS),
                    "mokapot pep": rng.choice(PEPS),
                    "peptide": perc_pep(m, rng),
                    "proteinids": "P1",
                    "proteins": "P1",
                    "label": rng.choice(["1", "-1"]),
                    "scannr": str(scan),
                    "expmass": "1000.5",
                }
                row = [vals[n] for n in names]
                if fmt == "native" and rng.random() < 0.3:
                    row.append("P9")  # ragged protein columns of native Percolator output
                rows.append(row)
            sc = names.index("score" if fmt == "native" else "mokapot score")
            pc = names.index("posterior_error_prob" if fmt == "native" else "mokapot pep")
            results.append({"ext": ext, "value_cols": [sc, pc], "rows": [hdr] + rows})
        case = {"evidence": evidence, "results": results}
        # how each evidence file is written (None = what csv.writer would write)
        case["ev_style"] = [
            None if rng.random() < 0.35 else {
                "quote": rng.choice(["minimal", "all", "lenient", "lenient", "mixed"]),
                "eol": rng.choice(["\r\n", "\r\n", "\n", "\n", "\r"]),
                "final_eol": rng.random() < 0.7,
                "bom": rng.random() < 0.15,
            } for _ in evidence]
        self._gen_naming(case, rng)
        # rare malformed inputs (at most one per case)
        r = rng.random()
        if r < 0.015 and results and len(results[0]["rows"]) > 1:
            i = results[0]["rows"][0].index(next(h for h in results[0]["rows"][0] if h.lower() in ("psmid", "specid")))
            results[0]["rows"][1][i] = rng.choice(["abc_1", "raw_x_2_1", "nounderscore", "raw__2_1", "a_b"])
        elif r < 0.03:
            f = rng.choice(evidence)
            j = rng.randrange(len(f[0]))
            for row in f:
                del row[j]  # drops a (possibly required) column
        elif r < 0.04:
            f = rng.choice(evidence)
            if len(f) > 1:
                row = rng.choice(f[1:])
                del row[rng.randrange(len(row)) :]
        elif r < 0.045:
            rng.choice(evidence).clear()  # empty file: no header line
        elif r < 0.055 and results:
            rf = rng.choice(results)
            req = {"psmid", "score", "q-value", "posterior_error_prob", "peptide", "proteinids", "specid",
                   "mokapot score", "mokapot q-value", "mokapot pep", "proteins"}
            js = [j for j, h in enumerate(rf["rows"][0]) if h.lower() in req]
            del rf["rows"][0][rng.choice(js)]  # result header loses a required column name
        return case

    # ------------------------------------------------------------------ column layouts of the result files
    EXTRA_RES_COLS = ["filename", "filename", "filename", "ExpMass", "CalcMass", "Label", "ScanNr", "rank", "spectrum",
                      "retention_time", "charge2"]
    FILENAME_MODES = ["same", "mzml", "path", "pin", "empty", "other", "mixed"]

    def _add_extra_result_columns(self, hdr, fmt, rng, raws):
        """0-3 EXTRA columns in a result file, at random positions (every reader of the merge locates its columns by
        name; the positional tail of native Percolator files - everything from proteinIds on - is not read by the
        merge, so a column may also follow it).  Returns the function raw file -> value of the `filename` cell."""
        have = {h.lower() for h in hdr}
        for _ in range(rng.choice([0, 0, 1, 1, 2, 3])):
            c = rng.choice(self.EXTRA_RES_COLS)
            if c.lower() in have:
                continue
            have.add(c.lower())
            last = len(hdr) - (1 if rng.random() < 0.8 else 0)  # mostly in front of the protein column
            hdr.insert(rng.randint(0, last), c)
        mode = rng.choice(self.FILENAME_MODES)
        pin = rng.choice(["andromeda.tab", "rescore.pin", "all_raw_files"])

        def fn_of(raw, rng, mode=mode):
            if mode == "mixed":
                mode = rng.choice(self.FILENAME_MODES[:-1])
            if mode == "same":
                return raw
            if mode == "mzml":
                return raw + ".mzML"
            if mode == "path":
                return "/data/" + raw + ".raw"
            if mode == "pin":
                return pin
            if mode == "other":  # the name of ANOTHER raw file of the case
                return raws[(raws.index(raw) + 1) % len(raws)] if raw in raws else raws[0]
            return ""

        return fn_of

    # ---- the dictionary of rescoring results alone, for both identifier conventions
    PROSIT_RAWS = ["raw1", "raw-2-b", "r3", "sample-x-y", "a--b"]
    PROSIT_SEQS = ["AAAK", "AAmK", "mmK", "[UNIMOD:737]-AAK[UNIMOD:737]", "[UNIMOD:737]AAK[UNIMOD:737]", "[UNIMOD:2016]-mK[UNIMOD:2016]",
                   "AC[UNIMOD:4]K", "[UNIMOD:214]-AmC[UNIMOD:4]K", "[UNIMOD:730]AK", "A[UNIMOD:737]-K", "K[UNIMOD:259]AR[UNIMOD:267]"]
    PROSIT_SCANS = ["12", "012", "3.0", "7.9", "+4", "1", "2", "2.0", "3"]
    PROSIT_TOKENS = ["", "raw", "a", "1", "07", "3.0", "7.9", "+3", "-2", "x1", "AAmK", "[UNIMOD:737]", "2", "1.", ".5x", "0"]
    PROSIT_PEPT = ["_.AAmK._", "_.[UNIMOD:737]-AAK._", "_.[UNIMOD:737]AAK._", "ab", "", "_.mm._", "_.[UNIMOD:2016]-mK[UNIMOD:2016]._",
                   "_.A-B-C._", "_.[UNIMOD:730]-[UNIMOD:737]-K._", "_.[UNIMOD:73]-mK._"]
    PROSIT_FILENAMES = ["", "", "raw", "raw-a", "a-1-07", "x", "r-a-w-1-2-3-4"]

    def _gen_dict_case(self, rng):
        prosit = rng.random() < 0.6
        results = []
        raws = rng.sample(self.PROSIT_RAWS if prosit else RAWS, rng.randint(2, 3))
        seqs = rng.sample(self.PROSIT_SEQS if prosit else MODS, rng.randint(2, 5))
        for pf in range(rng.choice([1, 1, 2, 3])):
            fmt = rng.choice(["native", "mokapot"])
            ext = rng.choice([".txt", ".txt", ".csv"])
            if fmt == "native":
                hdr = ["PSMId", "score", "q-value", "posterior_error_prob", "peptide", "proteinIds"]
            else:
                hdr = ["SpecId", "Label", "ScanNr", "ExpMass", "Peptide", "mokapot score", "mokapot q-value", "mokapot PEP", "Proteins"]
                if rng.random() < 0.5:
                    body = hdr[:-1]
                    rng.shuffle(body)
                    hdr = body + hdr[-1:]
            fn_of = self._add_extra_result_columns(hdr, fmt, rng, raws)
            if prosit and "filename" not in hdr and rng.random() < 0.6:
                hdr.insert(rng.randint(0, len(hdr) - 1), "filename")  # Oktoberfest output: the raw file is this column
            if rng.random() < 0.15:
                hdr = [h.lower() for h in hdr]
            names = [h.lower() for h in hdr]
            with_event = "filename" not in names or rng.random() < 0.5
            label = rng.choice([None, None, "737", "2016", "214", "730"])  # a labelled experiment: every peptide carries it
            rows = []
            for _ in range(rng.choice([0, 1, 2, 3, 4, 6])):
                raw, m, scan = rng.choice(raws), rng.choice(seqs), rng.randint(1, 4)
                if prosit and label and rng.random() < 0.93:
                    m = "[UNIMOD:%s]%s%s[UNIMOD:%s]" % (label, rng.choice(["-", "-", ""]), rng.choice(["AAK", "AmK", "mK", "AC[UNIMOD:4]K"]), label)
                if prosit:
                    sc = rng.choice(self.PROSIT_SCANS)
                    ident = "%s-%s-%s-%d%s" % (raw, sc, m, rng.randint(2, 4), "-1" if with_event else "")
                    pept = "_." + m + "._"
                else:
                    ident = f"{raw}_{scan_spelling(scan, rng)}_{rng.randint(2, 4)}_1"
                    pept = perc_pep(m, rng)
                vals = {
                    "psmid": ident, "specid": ident, "score": rng.choice(SCORES), "mokapot score": rng.choice(SCORES),
                    "q-value": "0.01", "mokapot q-value": "0.01", "posterior_error_prob": rng.choice(PEPS),
                    "mokapot pep": rng.choice(PEPS), "peptide": pept, "proteinids": "P1", "proteins": "P1",
                    "label": rng.choice(["1", "-1"]), "scannr": str(scan), "expmass": "1000.5",
                    "filename": fn_of(raw, rng) if not prosit or rng.random() < 0.12 else (raw if with_event or rng.random() < 0.9 else ""),
                    "calcmass": "1000.49", "rank": "1", "spectrum": "scan=%d" % scan, "retention_time": "12.5", "charge2": "1",
                }
                row = [vals[n] for n in names]
                if fmt == "native" and rng.random() < 0.3:
                    row.append("P9")
                rows.append(row)
            sc = names.index("score" if fmt == "native" else "mokapot score")
            pc = names.index("posterior_error_prob" if fmt == "native" else "mokapot pep")
            results.append({"ext": ext, "value_cols": [sc, pc], "rows": [hdr] + rows})
        case = {"kind": "dict", "input_type": "prosit" if prosit else rng.choice(["andromeda", "andromeda", ""]), "results": results}
        r = rng.random()
        if r < 0.03 and len(results[0]["rows"]) > 1:
            i = [h.lower() for h in results[0]["rows"][0]].index("psmid" if "psmid" in [h.lower() for h in results[0]["rows"][0]] else "specid")
            results[0]["rows"][1][i] = rng.choice(["abc_1", "raw-x-2-1", "nodash", "raw--2-1", "a_b", "a-b"])
        elif r < 0.05:
            rf = rng.choice(results)
            if len(rf["rows"]) > 1:
                row = rng.choice(rf["rows"][1:])
                del row[rng.randrange(len(row)):]
        return case

    # ------------------------------------------------------------------ file names, order given, entry point
    EV_DIRS = ["", "run_C", "run_A", "run_B", "Z", "a", "run_C/sub", "10", "9"]
    EV_BASES = ["evidence.txt", "msms.txt", "evidence_2.txt", "Evidence.txt", "evidence_10.txt", "b_evidence.txt"]
    RES_BASES = ["andromeda.mokapot.psms", "andromeda.mokapot.decoy.psms", "pout", "pout_decoy", "Target", "a.percolator"]

    @staticmethod
    def _distinct_paths(rng, n, dirs, bases, ext_of):
        paths = []
        base0 = rng.choice(bases)
        same_base = rng.random() < 0.45  # the same base name in different directories
        guard = 0
        while len(paths) < n:
            guard += 1
            b = base0 if same_base and guard < 40 else rng.choice(bases)
            p = os.path.join(rng.choice(dirs), b + ext_of(len(paths)))
            if p not in paths:
                paths.append(p)
        return paths

    @staticmethod
    def _arrange(rng, paths):
        """assign the generated names to the positions: mostly so that the order given is NOT the sorted one"""
        r = rng.random()
        if r < 0.45:
            out = sorted(paths, reverse=True)
        elif r < 0.85:
            out = list(paths)
            rng.shuffle(out)
            if len(out) > 1 and out == sorted(out):
                out[0], out[-1] = out[-1], out[0]
        else:
            out = sorted(paths)
        return out

    def _gen_naming(self, case, rng):
        ne, nr = len(case["evidence"]), len(case["results"])
        ev = self._arrange(rng, self._distinct_paths(rng, ne, self.EV_DIRS, self.EV_BASES, lambda i: ""))
        # a result file's extension selects its delimiter: it stays with the file
        exts = [r["ext"] for r in case["results"]]
        names = self._arrange(rng, self._distinct_paths(rng, nr, self.EV_DIRS, self.RES_BASES, lambda i: ""))
        res = []
        for i, nm in enumerate(names):
            p = nm + exts[i]
            while p in res or p in ev:
                nm += "_"
                p = nm + exts[i]
            res.append(p)
        case["ev_paths"], case["res_paths"] = ev, res
        ev_args, res_args = list(range(ne)), list(range(nr))
        if rng.random() < 0.08:  # the same evidence path given twice: merged twice (see notes, addendum 3)
            ev_args.insert(rng.randint(0, len(ev_args)), rng.randrange(ne))
        if nr and rng.random() < 0.06:  # the same result file given twice: its rows overwrite again
            res_args.insert(rng.randint(0, len(res_args)), rng.randrange(nr))
        case["ev_args"], case["res_args"] = ev_args, res_args
        # --pout_input_type: left to its default ("andromeda") or given explicitly (main / module entries)
        case["pout_flag"] = rng.random() < 0.3
        r = rng.random()
        if r < 0.25:
            case["entry"] = "api"
        elif r < 0.43 and nr:
            case["entry"] = "pipeline"  # run_update_evidence always passes --perc_results: needs >= 1 result file
        elif 0.43 <= r < 0.445:
            case["entry"] = "module"
        else:
            case["entry"] = "main"

    @staticmethod
    def _naming(case):
        """(ev_paths, res_paths, ev_args, res_args, entry) with the defaults of the cases recorded before addendum 3"""
        ne, nr = len(case["evidence"]), len(case["results"])
        ev = case.get("ev_paths") or [f"evidence_in_{i}.txt" for i in range(ne)]
        res = case.get("res_paths") or [f"pout_{i}{r['ext']}" for i, r in enumerate(case["results"])]
        ev_args = case.get("ev_args")
        res_args = case.get("res_args")
        return (ev, res, list(range(ne)) if ev_args is None else ev_args,
                list(range(nr)) if res_args is None else res_args, case.get("entry", "main"))

    @staticmethod
    def ev_style(case, i):
        st = case.get("ev_style")
        return (st[i] if st and i < len(st) and st[i] else None) or {}

    def ev_text(self, case, i):
        """the decoded text of evidence file i (what `open(..., encoding="utf-8-sig")` hands to the csv reader)"""
        return tsv_encode(case["evidence"][i], self.ev_style(case, i))

    def given(self, case):
        """the evidence files and result files in the order GIVEN on the command line / to the function"""
        _, _, ev_args, res_args, _ = self._naming(case)
        return [case["evidence"][i] for i in ev_args], [case["results"][i] for i in res_args]

    # ------------------------------------------------------------------ the implementation
    @staticmethod
    def _write(path, rows, delim="\t"):
        with open(path, "w", newline="") as fh:
            w = csv.writer(fh, delimiter=delim)
            w.writerows(rows)

    def materialise(self, case, d):
        ev_paths, res_paths, ev_args, res_args, _ = self._naming(case)
        for i, f in enumerate(case["evidence"]):
            p = os.path.join(d, ev_paths[i])
            os.makedirs(os.path.dirname(p), exist_ok=True)
            text = self.ev_text(case, i)
            if tsv_parse(text) != f:
                raise RuntimeError("harness: tsv_parse(tsv_encode(cells)) differs from the cells of evidence file %d" % i)
            with open(p, "wb") as fh:
                fh.write((b"\xef\xbb\xbf" if self.ev_style(case, i).get("bom") else b"") + text.encode("utf-8"))
        for i, r in enumerate(case["results"]):
            p = os.path.join(d, res_paths[i])
            os.makedirs(os.path.dirname(p), exist_ok=True)
            self._write(p, r["rows"], "," if r["ext"] == ".csv" else "\t")
        ev = [os.path.join(d, ev_paths[i]) for i in ev_args]
        res = [os.path.join(d, res_paths[i]) for i in res_args]
        out = os.path.join(d, "m_evidence_out.txt")
        return ev, res, out

    @staticmethod
    def argv(ev, res, out, pout_flag=False):
        args = ["--mq_evidence"] + ev + ["--mq_evidence_out", out]
        if res:
            args += ["--perc_results"] + res
        if pout_flag:
            args += ["--pout_input_type", "andromeda"]
        return args

    @staticmethod
    def classify(tname, msg, frames):
        if tname == "IndexError":
            return "bad_psmid" if ("parse_andromeda_psmid_and_peptide" in frames or "parse_prosit_psmid_and_peptide" in frames) else "short_row"
        if tname == "ValueError":
            if "could not convert string to float" in msg and "parse_prosit_psmid_and_peptide" in frames:
                return "bad_scan"
            if "is missing" in msg:
                return "missing_column"
            if "invalid literal for int" in msg:
                return "bad_scan"
            if "Could not determine percolator input file format" in msg:
                return "unknown_result_format"
        if tname in ("StopIteration", "RuntimeError") and ("StopIteration" in tname + msg or "generator" in msg or msg == ""):
            return "no_header"
        return None

    @classmethod
    def classify_exc(cls, e):
        frames = [f.name for f in traceback.extract_tb(e.__traceback__)]
        return cls.classify(type(e).__name__, str(e), frames) or cls.unclassified("%s: %s (in %s)" % (type(e).__name__, str(e)[:200], frames[-1] if frames else "?"))

    @staticmethod
    def unclassified(tname):
        """an exception the table above does not know (a reworded message, another type): the merge REFUSED the input.
        Whether it may is the oracle's question (well-formed input must be merged); which enum the model expects is
        the correspondence's.  Never an exception out of run_impl (audit 3, X2)."""
        return "unclassified:" + tname

    @classmethod
    def classify_stderr(cls, text):
        """the same classification from the traceback a `python -m ...` run prints"""
        lines = [l for l in text.splitlines() if l.strip()]
        if not lines or "Traceback (most recent call last)" not in text:
            return None
        tail = text[text.rindex("Traceback (most recent call last)"):]
        frames = re.findall(r'^  File "[^"]*", line [0-9]+, in (\S+)', tail, re.M)
        last = lines[-1]
        tname, _, msg = last.partition(":")
        return cls.classify(tname.strip().split(".")[-1], msg.strip(), frames)

    @staticmethod
    def _read_text(path):
        """the output file as text (the writer opens it without an encoding: the check runs in Python's UTF-8 mode)"""
        with open(path, "rb") as fh:
            return fh.read().decode("utf-8")

    def run_impl(self, case):
        if "psmid" in case:
            from picked_group_fdr.parsers import percolator

            pept = case["peptide"]
            try:
                # what parse_percolator_out_file_to_dict hands over: row[pept_col][2:-2]
                raw, scan, seq = percolator.parse_andromeda_psmid_and_peptide(case["psmid"], pept[2:-2])
            except IndexError:
                return {"err": "bad_psmid"}
            except ValueError:  # the only conversion in that function is the scan number's (by type + call site, not by text)
                return {"err": "bad_scan"}
            return {"raw": raw, "scan": scan, "modseq": seq}
        if "prosit_key" in case:
            from picked_group_fdr.parsers import percolator, modifications

            try:
                raw, scan, seq = percolator.parse_prosit_psmid_and_peptide(
                    case["prosit_key"], case["peptide"][2:-2], case["filename"], modifications.prosit_mod_to_proforma())
            except IndexError:
                return {"err": "bad_psmid"}
            except ValueError:
                return {"err": "bad_scan"}
            return {"raw": raw, "scan": scan, "modseq": seq}
        from picked_group_fdr.pipeline import update_evidence_from_pout as u

        if case.get("kind") == "dict":
            return self._run_dict(case, u)
        entry = self._naming(case)[4]
        d = tempfile.mkdtemp(prefix="c15_")
        try:
            ev, res, out = self.materialise(case, d)
            if entry == "pipeline":
                return self._run_pipeline(ev, res, d)
            try:
                if entry == "api":
                    u.update_evidence_files(ev, res, out, "auto", "andromeda", False)
                elif entry == "module":
                    p = subprocess.run(
                        [lib.PY, "-m", "picked_group_fdr.pipeline.update_evidence_from_pout"] + self.argv(ev, res, out, case.get("pout_flag", False)),
                        env=lib.impl_env(), cwd=d, capture_output=True, text=True, timeout=300)
                    if p.returncode != 0:
                        enum = self.classify_stderr(p.stderr) or self.unclassified("exit %d: %s" % (p.returncode, p.stderr.strip()[-300:]))
                        if os.path.exists(out):
                            return {"err": enum, "published_despite_error": True}
                        return {"err": enum}
                else:
                    u.main(self.argv(ev, res, out, case.get("pout_flag", False)))
            except Exception as e:
                enum = self.classify_exc(e)
                if os.path.exists(out):
                    return {"err": enum, "published_despite_error": True}
                return {"err": enum}
            text = self._read_text(out)
            return {"text": text, "rows": tsv_parse(text)}
        finally:
            shutil.rmtree(d, ignore_errors=True)

    def _run_dict(self, case, u):
        """get_percolator_results(files, input_type): the dictionary of rescoring results in insertion order and the
        fixed-modification table of the last file (as its index in FIXED_MODS_DICTS)"""
        from picked_group_fdr.parsers import modifications

        d = tempfile.mkdtemp(prefix="c15d_")
        try:
            paths = []
            for i, r in enumerate(case["results"]):
                p = os.path.join(d, "pout_%d%s" % (i, r["ext"]))
                self._write(p, r["rows"], "," if r["ext"] == ".csv" else "\t")
                paths.append(p)
            try:
                fixed, res = u.get_percolator_results(paths, case["input_type"])
            except Exception as e:
                enum = self.classify_exc(e)
                return {"err": enum}
            k = [i for i, x in enumerate(modifications.FIXED_MODS_DICTS) if x is fixed]
            if len(k) != 1:
                raise RuntimeError("fixed modifications returned are none of FIXED_MODS_DICTS: %r" % (fixed,))
            return {"dict": [[raw, [[scan, seq, repr(sc), repr(pep)] for (scan, seq), (sc, pep) in inner.items()]]
                             for raw, inner in res.items()], "fixed": k[0]}
        finally:
            shutil.rmtree(d, ignore_errors=True)

    def _run_pipeline(self, ev, res, d):
        """pipeline.run_update_evidence: one rescored file per evidence file, each merged with ALL result files"""
        from picked_group_fdr.pipeline import pipeline as pl

        outs = [os.path.join(d, "rescored_%d_%s" % (k, os.path.basename(p))) for k, p in enumerate(ev)]
        err = None
        try:
            pl.run_update_evidence(ev, res, outs, "andromeda", False)
        except Exception as e:
            err = self.classify_exc(e)
        texts = []
        for o in outs:
            if not os.path.exists(o):
                break
            texts.append(self._read_text(o))
        files = [tsv_parse(t) for t in texts]
        if err is None:
            if len(files) != len(outs):
                raise RuntimeError("run_update_evidence returned without writing %s" % outs[len(files)])
            return {"texts": texts, "files": files}
        # the call stops at the first file that fails: exactly the files before it are published
        return {"err": err, "texts": texts, "files": files}

    # ------------------------------------------------------------------ the model
    def model_request(self, case, impl_out):
        if "psmid" in case:
            return {"op": "psmid", "psmid": case["psmid"], "peptide": case["peptide"]}
        if "prosit_key" in case:
            return {"op": "prosit_key", "psmid": case["prosit_key"], "peptide": case["peptide"], "filename": case["filename"]}
        if case.get("kind") == "dict":
            results = case["results"]
        else:
            _, results = self.given(case)
        raw = []
        for r in results:
            rows = [list(x) for x in r["rows"][:1]]
            for row in r["rows"][1:]:
                row = list(row)
                for c in r["value_cols"]:
                    if c < len(row):
                        try:
                            row[c] = written(row[c])
                        except ValueError:
                            pass
                rows.append(row)
            raw.append(rows)
        if case.get("kind") == "dict":
            return {"op": "results_dict", "input_type": case["input_type"], "results_raw": raw}
        ev_args = self._naming(case)[2]
        evidence = [self.ev_text(case, i) for i in ev_args]  # the TEXT of the files, in the order given
        if self._naming(case)[4] == "pipeline":
            return [{"op": "merge_text", "evidence_text": [f], "results_raw": raw} for f in evidence]
        return {"op": "merge_text", "evidence_text": evidence, "results_raw": raw}

    def model_view(self, case, resp, impl_out):
        if isinstance(resp, list):  # pipeline entry: one merge per evidence file, stops at the first error
            texts = []
            for r in resp:
                if not isinstance(r, dict) or "text" not in r:
                    if isinstance(r, dict) and set(r) == {"err"}:
                        return {"err": r["err"], "texts": texts}
                    return r
                texts.append(r["text"])
            return {"texts": texts}
        return resp

    def impl_view(self, case, impl_out):
        # the TEXT of the output file(s) is compared (byte for byte); the parsed cells are the oracle's business
        if isinstance(impl_out, dict):
            return {k: v for k, v in impl_out.items() if k not in ("rows", "files")}
        return impl_out

    # ------------------------------------------------------------------ the property, stated directly
    PSMID = re.compile(r"^(?:(.*)_)?([+-]?[0-9]+)_[^_]*_[^_]*$", re.S)

    def _join_table(self, results, every=None):
        """(raw, scan, modseq) -> (score, pep) written strings; later rows win (the reading of the code and the model).
        None if a result file is malformed.  `every` (a dict), when given, receives key -> the (score, PEP) VALUES of
        EVERY result row with that key: the property says nothing on which of several rows of one scan is used."""
        table = {}
        for r in results:
            rows = r["rows"]
            if not rows:
                return None
            names = [h.lower() for h in rows[0]]
            if "psmid" in names:
                need = {"id": "psmid", "pept": "peptide", "score": "score", "pep": "posterior_error_prob"}
                also = ["q-value", "proteinids"]
            elif "specid" in names:
                need = {"id": "specid", "pept": "peptide", "score": "mokapot score", "pep": "mokapot pep"}
                also = ["mokapot q-value", "proteins"]
            else:
                return None
            if any(n not in names for n in list(need.values()) + also):
                return None
            ix = {k: names.index(v) for k, v in need.items()}
            # a `filename` column, when present, is READ by the code for every row (a row too short for it is
            # malformed) - its value plays no part for Andromeda-style identifiers: the key comes from the identifier
            fcol = names.index("filename") if "filename" in names else -1
            for row in rows[1:]:
                if max(max(ix.values()), fcol) >= len(row):
                    return None
                m = self.PSMID.match(row[ix["id"]])
                if not m:
                    return None
                pept = row[ix["pept"]]
                seq = pept[2:-2] if len(pept) >= 4 else ""
                seq = seq.replace("[42]", "(ac)").replace("M[16]", "M(ox)")
                key = (m.group(1) or "", int(m.group(2)), seq)
                table[key] = (written(row[ix["score"]]), written(row[ix["pep"]]))
                if every is not None:
                    every.setdefault(key, []).append((float(row[ix["score"]]), float(row[ix["pep"]])))
        return table

    def _expected(self, evidence, results):
        """expected output rows for the files IN THE ORDER GIVEN, or None when the input is malformed (then the
        step must not publish)"""
        table = self._join_table(results)
        if table is None:
            return None
        raws_in = {k[0] for k in table}
        exp = []
        for fi, f in enumerate(evidence):
            if not f:
                return None
            names = [h.lower() for h in f[0]]
            scan_name = "ms/ms scan number" if "ms/ms scan number" in names else "scan number"
            req = ["score", "pep", "raw file", scan_name, "modified sequence", "type", "reverse", "potential contaminant"]
            if any(n not in names for n in req):
                return None
            ix = {n: names.index(n) for n in req}
            opt = names.index("labeling state") if "labeling state" in names else None
            if fi == 0:
                exp.append(list(f[0]))
            for row in f[1:]:
                if max(ix.values()) >= len(row) or (opt is not None and opt >= len(row)):
                    return None
                scan = row[ix[scan_name]]
                if scan != "" and not re.fullmatch(r"[+-]?[0-9]+", scan):
                    return None
                if not table or scan == "" or int(scan) == -1:
                    exp.append(list(row))
                    continue
                if row[ix["raw file"]] not in raws_in:
                    continue
                ms = row[ix["modified sequence"]]
                key = (row[ix["raw file"]], int(scan), ms[1:-1] if len(ms) >= 2 else "")
                if key in table:
                    new = list(row)
                    new[ix["score"]] = table[key][0]
                    new[ix["pep"]] = table[key][1]
                    exp.append(new)
        return exp

    # ---- what the property TEXT fixes (audit 3, C15-1..6).  `_expected` above is the reading of the code and of the
    # model: repr(float) strings, the LAST result row of a scan wins, match-between-runs = empty scan cell (or -1),
    # result files without rows = concatenation, a path given twice is merged twice.  Output equal to it is accepted
    # at once; output that differs from it is a failing input only when NO reading the text allows produces it.
    @staticmethod
    def _num(cell):
        try:
            return float(cell)
        except (TypeError, ValueError):
            try:
                return float(str(cell).strip("'\""))
            except ValueError:
                return None

    @classmethod
    def _same_value(cls, cell, v):
        g = cls._num(cell)
        return g is not None and (g == v or (g != g and v != v))

    def _fates(self, evidence, results, concat):
        """[(input row, score column, PEP column, may pass unchanged, may be dropped, [(score, PEP) values it may be
        rewritten with])] for the rows of the files in order, or None when the input is malformed.
        concat: the reading 'no rescoring results = plain concatenation'."""
        every = {}
        if self._join_table(results, every) is None:
            return None
        raws_in = {k[0] for k in every}
        fates = []
        for f in evidence:
            if not f:
                return None
            names = [h.lower() for h in f[0]]
            scan_name = "ms/ms scan number" if "ms/ms scan number" in names else "scan number"
            req = ["score", "pep", "raw file", scan_name, "modified sequence", "type", "reverse", "potential contaminant"]
            if any(n not in names for n in req):
                return None
            ix = {n: names.index(n) for n in req}
            for row in f[1:]:
                if max(ix.values()) >= len(row):
                    return None
                scan = row[ix[scan_name]]
                if concat:
                    fates.append((row, ix["score"], ix["pep"], True, False, []))
                    continue
                # match-between-runs row: the text does not say how one is recognised.  Two readings: the row has no
                # scan number (the code; -1, the code's internal mark, is not judged) / MaxQuant labels it MULTI-MATCH.
                # A row on which they agree is judged as that; otherwise either treatment is accepted.
                minus1 = scan != "" and int(scan) == -1
                mbr_by_scan = scan == ""
                mbr_by_type = row[ix["type"]] == "MULTI-MATCH"
                as_mbr = mbr_by_scan or mbr_by_type or minus1
                as_msms = not (mbr_by_scan and mbr_by_type)
                same, gone, pairs = as_mbr, False, []
                if as_msms:
                    ms = row[ix["modified sequence"]]
                    key = (row[ix["raw file"]], int(scan), ms[1:-1] if len(ms) >= 2 else "") if scan != "" else None
                    if key is not None and row[ix["raw file"]] in raws_in and key in every:
                        pairs = every[key]
                    else:
                        gone = True
                fates.append((row, ix["score"], ix["pep"], same, gone, pairs))
        return fates

    def _fits(self, out, fate):
        row, sc, pc, same, gone, pairs = fate
        if same and out == row:
            return True
        if pairs and len(out) == len(row) and all(a == b for k, (a, b) in enumerate(zip(out, row)) if k not in (sc, pc)):
            return any(self._same_value(out[sc], s) and self._same_value(out[pc], p) for s, p in pairs)
        return False

    def _allowed(self, got, evidence, results):
        """is `got` (header + rows read from the output) what SOME reading the text allows gives?"""
        ev_lists = [evidence]
        dedup = [f for k, f in enumerate(evidence) if not any(f is g for g in evidence[:k])]
        if len(dedup) != len(evidence):
            ev_lists.append(dedup)  # a path given twice: the text speaks of a SET of files
        nrows = sum(max(0, len(r["rows"]) - 1) for r in results)
        readings = [True] if not results else ([False, True] if nrows == 0 else [False])
        for ev in ev_lists:
            for concat in readings:
                fates = self._fates(ev, results, concat)
                if fates is None or not got or got[0] != ev[0][0]:
                    continue
                out, reach = got[1:], {0}
                for fate in fates:
                    nxt = set()
                    for j in reach:
                        if fate[4]:
                            nxt.add(j)
                        if j < len(out) and self._fits(out[j], fate):
                            nxt.add(j + 1)
                    reach = nxt
                    if not reach:
                        break
                if len(out) in reach:
                    return True
        return False

    def _judge(self, got, evidence, results, exp):
        if got == exp:
            return None
        if self._allowed(got, evidence, results):
            return None
        return self._diff(got, exp)

    def oracle(self, case, impl_out):
        if not isinstance(impl_out, dict):
            return "no output: %r" % (impl_out,)
        if "psmid" in case:
            m = self.PSMID.match(case["psmid"])
            if m is None:
                return None if "err" in impl_out else "malformed PSM id %r accepted: %r" % (case["psmid"], impl_out)
            pept = case["peptide"]
            seq = (pept[2:-2] if len(pept) >= 4 else "").replace("[42]", "(ac)").replace("M[16]", "M(ox)")
            want = {"raw": m.group(1) or "", "scan": int(m.group(2)), "modseq": seq}
            return None if impl_out == want else "PSM id %r read as %r, expected %r" % (case["psmid"], impl_out, want)
        if "prosit_key" in case:
            return None  # prosit identifiers are outside the property text: correspondence only
        if case.get("kind") == "dict":
            if case["input_type"] == "prosit":
                return None  # outside the property text: correspondence only
            every = {}
            table = self._join_table(case["results"], every)
            if "err" in impl_out:
                return None if table is None else "well-formed result files rejected with %s (get_percolator_results, input type %r)" % (
                    impl_out["err"], case["input_type"])
            if table is None:
                return None
            got = {(raw, scan, seq): (sc, pep) for raw, inner in impl_out["dict"] for scan, seq, sc, pep in inner}
            if got != table:
                # audit 3 (C15-1/2): the VALUES count, not their spelling, and any row of a repeated key may supply them
                if set(got) == set(every) and all(
                        any(self._same_value(sc, s) and self._same_value(pep, p) for s, p in every[k]) for k, (sc, pep) in got.items()):
                    return None
                diff = sorted(set(got.items()) ^ set(table.items()), key=repr)[:4]
                return ("rescoring results filed under other keys / values than (raw file, scan) of the identifier "
                        "<raw file>_<scan>_<charge>_<rank>, the peptide cell and the values of a row with that key give (input type %r); "
                        "entries differing from the last-row-wins table: %r" % (case["input_type"], diff))
            return None
        # (an output file under the final name after an error is C16's subject: `published_despite_error` stays in the
        # implementation's view, where the model - which has no such field - disagrees with it; audit 3, C15-18)
        evidence, results = self.given(case)
        ev_paths, res_paths, ev_args, res_args, entry = self._naming(case)
        how = "%s entry, evidence given as %s, results as %s" % (entry, [ev_paths[i] for i in ev_args], [res_paths[i] for i in res_args])
        if entry == "pipeline":
            # one rescored file per evidence file; the call stops at the first malformed one
            if impl_out.get("texts") is None:
                return "no per-file output: %r" % (impl_out,)
            got_files = [tsv_parse(t) for t in impl_out["texts"]]  # cell values, read with the independent reader
            for k, f in enumerate(evidence):
                exp = self._expected([f], results)
                if k >= len(got_files):
                    if "err" not in impl_out:
                        return "file %d of %d not written (%s)" % (k, len(evidence), how)
                    if exp is not None:
                        return "well-formed input rejected with %s (file %d; %s)" % (impl_out["err"], k, how)
                    return None
                if exp is None:
                    return None  # malformed input the implementation tolerated: outside the property
                why = self._judge(got_files[k], [f], results, exp)
                if why:
                    return "file %d: %s (%s)" % (k, why, how)
            if "err" in impl_out or len(got_files) != len(evidence):
                return "all %d files well-formed and written, yet %r" % (len(evidence), {k: v for k, v in impl_out.items() if k != "files"})
            return None
        exp = self._expected(evidence, results)
        if "err" in impl_out:
            if exp is not None:
                return "well-formed input rejected with %s (%s)" % (impl_out["err"], how)
            return None
        if exp is None:
            return None  # malformed input the implementation tolerated: outside the property
        why = self._judge(tsv_parse(impl_out["text"]), evidence, results, exp)  # cell values, read with the independent reader
        return "%s (%s)" % (why, how) if why else None

    @staticmethod
    def _diff(got, exp):
        if got != exp:
            for i in range(max(len(got), len(exp))):
                g = got[i] if i < len(got) else None
                e = exp[i] if i < len(exp) else None
                if g != e:
                    cells = ""
                    if g is not None and e is not None and len(g) == len(e):
                        cells = " [cells " + ", ".join("%d: %r instead of %r" % (k, a, b) for k, (a, b) in enumerate(zip(g, e)) if a != b) + "]"
                    return (f"output row {i} (cell values as read from the output file): got {g} but the header of the first file "
                            f"given / the join on (raw file, scan, modified sequence) over the files in the order given - rows "
                            f"without scan number unchanged, rows with one rewritten (score, PEP only) or dropped - gives {e}{cells}; "
                            f"nor is the output what any other reading of the text gives (score / PEP compared as numbers, any result "
                            f"row of a repeated scan, match-between-runs rows recognised by Type MULTI-MATCH, rows dropped instead of "
                            f"concatenated when the result files hold no rows, a file given twice merged once)")
        return None

    # ------------------------------------------------------------------ bookkeeping
    def _row_stats(self, case, impl_out):
        evidence, _ = self.given(case)
        st = {"rewritten": 0, "unchanged": 0, "dropped": 0, "in": sum(max(0, len(f) - 1) for f in evidence)}
        if not isinstance(impl_out, dict) or "err" in impl_out or ("rows" not in impl_out and "files" not in impl_out):
            return st
        if "files" in impl_out:
            out = [r for f in impl_out["files"] for r in f[1:]]
        else:
            out = impl_out["rows"][1:]
        inp = [r for f in evidence for r in f[1:]]
        st["dropped"] = len(inp) - len(out)
        j = 0
        for r in inp:
            if j < len(out) and out[j] == r:
                st["unchanged"] += 1
                j += 1
            elif j < len(out) and len(out[j]) == len(r) and sum(1 for a, b in zip(out[j], r) if a != b) <= 2 and st["dropped"] >= 0:
                # greedy alignment is only for the histogram
                st["rewritten"] += 1
                j += 1
        return st

    def _filename_feats(self, results):
        """how the `filename` cells of the result files relate to the raw file of the identifier"""
        f = set()
        for r in results:
            if not r["rows"]:
                continue
            names = [h.lower() for h in r["rows"][0]]
            idn = "psmid" if "psmid" in names else ("specid" if "specid" in names else None)
            base = 6 if idn == "psmid" else 9
            f.add("res_extra_columns=%d" % max(0, len(names) - base))
            if "filename" not in names:
                f.add("res_filename_column=absent")
                continue
            fc = names.index("filename")
            for row in r["rows"][1:]:
                if idn is None or max(fc, names.index(idn)) >= len(row):
                    continue
                m = self.PSMID.match(row[names.index(idn)])
                raw = (m.group(1) or "") if m else None
                f.add("res_filename_cell=" + ("empty" if row[fc] == "" else "equals_raw_file" if row[fc] == raw else "differs_from_raw_file"))
        return sorted(f)

    def nontrivial(self, case, impl_out):
        if "psmid" in case:
            return isinstance(impl_out, dict) and "raw" in impl_out and "_" in impl_out["raw"]
        if "prosit_key" in case:
            return isinstance(impl_out, dict) and "raw" in impl_out
        if case.get("kind") == "dict":
            return isinstance(impl_out, dict) and sum(len(inner) for _, inner in impl_out.get("dict", [])) >= 2
        st = self._row_stats(case, impl_out)
        nres = sum(max(0, len(r["rows"]) - 1) for r in case["results"])
        return nres > 0 and st["rewritten"] >= 1 and (st["dropped"] >= 1 or st["unchanged"] >= 1)

    def features(self, case, impl_out):
        if "psmid" in case:
            return ["kind=psmid", "psmid_" + ("err=" + impl_out["err"] if isinstance(impl_out, dict) and "err" in impl_out else "ok")]
        if "prosit_key" in case:
            return ["kind=prosit_key", "prosit_key_" + ("err=" + impl_out["err"] if isinstance(impl_out, dict) and "err" in impl_out else "ok"),
                    "prosit_key_filename_" + ("empty" if case["filename"] == "" else "given")]
        if case.get("kind") == "dict":
            f = ["kind=dict", "dict_input_type=%s" % (case["input_type"] or "(empty)")] + ["dict/" + x for x in self._filename_feats(case["results"])]
            if isinstance(impl_out, dict) and "err" in impl_out:
                f.append("dict_err=" + impl_out["err"])
            elif isinstance(impl_out, dict):
                f.append("dict_fixed_mods=%s" % impl_out.get("fixed"))
            return f
        f = ["kind=merge", "evidence_files=%d" % len(case["evidence"]), "result_files=%d" % len(case["results"])]
        f += self._filename_feats(case["results"])
        if case.get("pout_flag"):
            f.append("pout_input_type_given_explicitly")
        ev_paths, res_paths, ev_args, res_args, entry = self._naming(case)
        f.append("entry=" + entry)
        given_ev = [ev_paths[i] for i in ev_args]
        given_res = [res_paths[i] for i in res_args]
        if len(set(given_ev)) > 1:
            f.append("evidence_given_in_sorted_path_order" if given_ev == sorted(given_ev) else "evidence_given_NOT_in_sorted_path_order")
            if given_ev != sorted(given_ev) and case["evidence"][ev_args[0]] and case["evidence"][ev_args[0]][:1] != \
                    case["evidence"][ev_paths.index(min(given_ev))][:1]:
                f.append("first_given_header_differs_from_alphabetically_first")
        if len(set(given_res)) > 1:
            f.append("results_given_in_sorted_path_order" if given_res == sorted(given_res) else "results_given_NOT_in_sorted_path_order")
        if len(set(given_ev)) < len(given_ev):
            f.append("evidence_file_given_twice")
        if len(set(given_res)) < len(given_res):
            f.append("result_file_given_twice")
        if len({os.path.basename(x) for x in given_ev}) < len(set(given_ev)):
            f.append("same_base_name_in_different_directories")
        if isinstance(impl_out, dict) and "err" in impl_out:
            f.append("err=" + impl_out["err"])
            return f
        st = self._row_stats(case, impl_out)
        nres = sum(max(0, len(r["rows"]) - 1) for r in case["results"])
        f.append("results_empty" if nres == 0 else "results_nonempty")
        if st["rewritten"]:
            f.append("has_rewritten")
        if st["dropped"] > 0:
            f.append("has_dropped")
        for f0 in case["evidence"]:
            if not f0:
                continue
            names = [h.lower() for h in f0[0]]
            n = "ms/ms scan number" if "ms/ms scan number" in names else "scan number"
            if n in names and any(names.index(n) < len(r) and r[names.index(n)] == "" for r in f0[1:]):
                f.append("has_mbr")
                break
        keys = []
        for r in case["results"]:
            names = [h.lower() for h in r["rows"][0]] if r["rows"] else []
            idn = "psmid" if "psmid" in names else ("specid" if "specid" in names else None)
            if idn and "peptide" in names:
                for row in r["rows"][1:]:
                    m = self.PSMID.match(row[names.index(idn)]) if names.index(idn) < len(row) else None
                    if m and names.index("peptide") < len(row):
                        keys.append((m.group(1) or "", int(m.group(2)), row[names.index("peptide")].replace("[42]", "(ac)").replace("M[16]", "M(ox)")))
            if any(re.search(r"_[+0][0-9]+_[^_]*_[^_]*$", row[names.index(idn)]) for row in r["rows"][1:] if idn and names.index(idn) < len(row)):
                f.append("result_scan_nonstandard_spelling")
            f.append("fmt=" + ("native" if idn == "psmid" else "mokapot" if idn == "specid" else "unknown") + r["ext"])
        if len(keys) != len(set(keys)):
            f.append("duplicate_result_keys")
        if len({tuple(h.lower() for h in f0[0]) for f0 in case["evidence"] if f0}) > 1:
            f.append("headers_differ_between_files")
        # round 5: the Type cell against the scan-number cell; what the cells carry; how the files are written
        has_results = nres > 0
        for f0 in case["evidence"]:
            if not f0:
                continue
            names = [h.lower() for h in f0[0]]
            n = "ms/ms scan number" if "ms/ms scan number" in names else "scan number"
            if n not in names or "type" not in names:
                continue
            si, ti = names.index(n), names.index("type")
            for r in f0[1:]:
                if max(si, ti) < len(r) and r[ti] in TYPES:
                    f.append("type=%s/%s%s" % (r[ti] or "(empty)", "scan" if r[si] != "" else "no-scan", "/results" if has_results else ""))
        cells_in = [c for f0 in case["evidence"] for r in f0[1:] for c in r]
        hdr_in = [c for f0 in case["evidence"] if f0 for c in f0[0]]
        out_rows = [r for fl in impl_out.get("files", []) for r in fl] if "files" in impl_out else impl_out.get("rows", [])
        cells_out = [c for r in out_rows[1:] for c in r]
        for tag, pred in (("quote", lambda c: '"' in c), ("leading_quote", lambda c: c.startswith('"')), ("comma", lambda c: "," in c),
                          ("semicolon", lambda c: ";" in c), ("blank_edge", lambda c: c != c.strip(" ")), ("non_ascii", lambda c: not c.isascii()),
                          ("tab_or_linebreak", lambda c: any(ch in c for ch in "\t\r\n"))):
            if any(pred(c) for c in hdr_in):
                f.append("header_cell_with_" + tag)
            if any(pred(c) for c in cells_in):
                f.append("input_cell_with_" + tag)
            if any(pred(c) for c in cells_out):
                f.append("output_cell_with_" + tag + ("_after_rescoring" if has_results else "_after_concatenation"))
        for i in range(len(case["evidence"])):
            st = self.ev_style(case, i)
            f.append("written=%s/%s%s%s" % (st.get("quote", "minimal"), {"\r\n": "CRLF", "\n": "LF", "\r": "CR"}[st.get("eol", "\r\n")],
                                           "" if st.get("final_eol", True) else "/no-final-eol", "/BOM" if st.get("bom") else ""))
        texts = impl_out.get("texts") if "texts" in impl_out else [impl_out.get("text", "")]
        ev_args = self._naming(case)[2]
        if texts and any(t for t in texts):
            same = "".join(texts) == "".join(self.ev_text(case, i) for i in ev_args)
            f.append("output_bytes_equal_input_bytes" if same else "output_bytes_differ_from_input_bytes")
        return f

    def shrink(self, case):
        import copy

        if "psmid" in case:
            parts = case["psmid"].split("_")
            for i in range(len(parts)):
                if len(parts) > 1:
                    yield {"psmid": "_".join(parts[:i] + parts[i + 1 :]), "peptide": case["peptide"]}
            return
        if "prosit_key" in case:
            parts = case["prosit_key"].split("-")
            for i in range(len(parts)):
                if len(parts) > 1:
                    yield dict(case, prosit_key="-".join(parts[:i] + parts[i + 1 :]))
            return
        # result files: drop a column that the merge does not look up (value columns re-indexed)
        REQ_RES = ("psmid", "specid", "peptide", "score", "mokapot score", "q-value", "mokapot q-value", "posterior_error_prob",
                   "mokapot pep", "proteinids", "proteins")
        for i, r in enumerate(case["results"]):
            if not r["rows"]:
                continue
            for j, h in enumerate(r["rows"][0]):
                if h.lower() not in REQ_RES:
                    c = copy.deepcopy(case)
                    for row in c["results"][i]["rows"]:
                        if j < len(row):
                            del row[j]
                    c["results"][i]["value_cols"] = [v - (1 if v > j else 0) for v in r["value_cols"]]
                    yield c
        if case.get("kind") == "dict":
            for i in range(len(case["results"])):
                if len(case["results"]) > 1:
                    c = copy.deepcopy(case)
                    del c["results"][i]
                    yield c
            for i, r in enumerate(case["results"]):
                for j in range(1, len(r["rows"])):
                    c = copy.deepcopy(case)
                    del c["results"][i]["rows"][j]
                    yield c
            return
        ev, res = case["evidence"], case["results"]

        def drop(c, what, i):
            """remove file i together with its name and its places in the order given"""
            del c[what][i]
            pk, ak = ("ev_paths", "ev_args") if what == "evidence" else ("res_paths", "res_args")
            if what == "evidence" and c.get("ev_style"):
                del c["ev_style"][i]
            if c.get(pk):
                del c[pk][i]
            if c.get(ak) is not None:
                c[ak] = [a - (1 if a > i else 0) for a in c[ak] if a != i]
            return c

        for i in range(len(ev)):
            if len(ev) > 1:
                yield drop(copy.deepcopy(case), "evidence", i)
        for i in range(len(res)):
            if len(res) > 1 or self._naming(case)[4] != "pipeline":
                yield drop(copy.deepcopy(case), "results", i)
        # a path given twice -> once
        for k in ("ev_args", "res_args"):
            a = case.get(k) or []
            for j in range(len(a)):
                if a.count(a[j]) > 1:
                    c = copy.deepcopy(case)
                    del c[k][j]
                    yield c
        # the slow entry point -> the same through main(argv)
        if case.get("entry") == "module":
            c = copy.deepcopy(case)
            c["entry"] = "main"
            yield c
        for i, f in enumerate(ev):
            for j in range(1, len(f)):
                c = copy.deepcopy(case)
                del c["evidence"][i][j]
                yield c
        for i, r in enumerate(res):
            for j in range(1, len(r["rows"])):
                c = copy.deepcopy(case)
                del c["results"][i]["rows"][j]
                yield c
        # the plain way of writing the files
        if any(case.get("ev_style") or []):
            c = copy.deepcopy(case)
            c["ev_style"] = [None for _ in ev]
            yield c
            for i in range(len(ev)):
                if self.ev_style(case, i):
                    for k, v in (("bom", False), ("final_eol", True), ("eol", "\r\n"), ("quote", "minimal")):
                        if self.ev_style(case, i).get(k, v) != v:
                            c = copy.deepcopy(case)
                            c["ev_style"][i][k] = v
                            yield c
        # drop a non-required evidence column
        REQ = ("score", "pep", "raw file", "ms/ms scan number", "scan number", "modified sequence", "type", "reverse",
               "potential contaminant")
        for i, f in enumerate(ev):
            if not f:
                continue
            for j, h in enumerate(f[0]):
                if h.lower() not in REQ:
                    if all(len(r) == len(f[0]) for r in f):
                        c = copy.deepcopy(case)
                        for r in c["evidence"][i]:
                            del r[j]
                        yield c
        # a plain cell instead of one that needs the whole dialect
        for i, f in enumerate(ev):
            for j, r in enumerate(f):
                for k, cell in enumerate(r):
                    if cell in EXOTIC + EXOTIC_HEADERS and cell not in ("", "x") and not (j == 0 and cell.lower() in REQ):
                        c = copy.deepcopy(case)
                        c["evidence"][i][j][k] = "x"
                        yield c
