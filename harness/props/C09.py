"""C09 — peptide-to-protein map, decoy database and iBAQ peptide numbers are exact.

Correspondence: temp FASTA files (random line wrapping, blank lines, trailing blanks, CRLF, several files,
special-residue settings, target and concat, three identifier rules, rare malformed files) through

  digest.get_peptide_to_protein_map_from_params (DigestionParams built by the real class),
  digest.get_peptide_to_protein_map (direct, incl. db="decoy"), digest.read_fasta_maxquant,
  digest.get_proteins, digest.get_num_ibaq_peptides_per_protein,
  digest.main --peptide_protein_map (writer) -> digest.get_peptide_to_protein_map_from_file (reader)

against the Lean model PgFdr.C09 (ops pepmap, pepmap1, fasta, ibaq, mapfile).  Maps are compared as dicts
(peptide order is not part of the property) with the protein LISTS compared exactly (order and repeats).

Oracle: from the abstract records the generator rendered (not from the lines): identifiers by the chosen rule,
decoys = reversed sequence with the sequential special-residue swap, per-record brute-force substring
digestion with the declarative rule of C08, "each once and in database order".

Cases of kind "maps" drive the builder of the list of maps, one per digestion parameter set
(peptide_protein_map.get_peptide_to_protein_maps / _from_args, digestion_params.get_digestion_params_list, the real
argparse parsers of picked_group_fdr.picked_group_fdr and .quantification, entrapment.mark_entrapment_proteins) against
the model op `pepmaps` (PgFdr/Model/C09Maps.lean); oracle: the i-th map is the independent listing of the database
under exactly the i-th parameter set (every field), the file branch returns what each file says.
"""
import os
import sys
import tempfile

import lib
from lib import Prop

from props.C08 import spec as digest_spec, alphabet, rule_table

PARSE = ("first_space", "uniprot", "gene")


# ------------------------------------------------------------------------------------------
# independent statements
# ------------------------------------------------------------------------------------------
def parse_id_spec(rule, header):
    first = header.split(" ")[0]
    if rule == "first_space":
        return first
    if rule == "uniprot":
        return first.split("|")[1] if "|" in first else first
    if " GN=" in header:
        return header.split(" GN=")[1].split(" ")[0]
    return None


def decoy_spec(seq, special):
    s = list(seq[::-1])
    for i in range(1, len(s)):
        if s[i] in special:
            s[i], s[i - 1] = s[i - 1], s[i]
    return "".join(s)


def db_records(records, rule, db, special):
    """(id, seq) in database order for one file"""
    out = []
    for header, seq in records:
        pid = parse_id_spec(rule, header)
        if not pid:
            continue
        if db in ("target", "concat"):
            out.append((pid, seq))
        if db in ("decoy", "concat"):
            out.append(("REV__" + pid, decoy_spec(seq, special) if special else seq[::-1]))
    return out


def eff_mode(enzyme, digestion):
    if enzyme == "no_enzyme":
        return "none"
    return digestion if digestion in ("semi", "none") else "full"


def listing(recs, rule3, mn, mx, mode, mc, met, use_hash):
    """expected map of ONE (file, parameter set): key -> [ids in database order, each once]"""
    pre, npost, post = rule3
    out = {}
    for pid, seq in recs:
        peps = digest_spec(seq, max(mn, 1), mx, pre, npost, post, mc, met, mode)
        keys = {p[:6] for p in peps} if use_hash else peps
        for k in keys:
            out.setdefault(k, []).append(pid)
    return out


def special_list(s):
    return [] if s == "none" else list(s)


def render(records, rng, style):
    lines = []
    if style.get("junk_before"):
        lines.append("JUNKLINE")
    for header, seq in records:
        lines.append(">" + header + (rng.choice(["", " ", "\t"]) if style.get("trailing") else ""))
        w = rng.choice([1, 2, 3, 5, 7, 60, 60]) if seq else 60
        for a in range(0, len(seq), w):
            lines.append(seq[a : a + w] + (rng.choice(["", "", " ", "  \t"]) if style.get("trailing") else ""))
        if rng.random() < 0.2:
            lines.append("")
    return lines


# call sequences on the SAME DigestionParams objects: "map" = get_peptide_to_protein_map_from_params,
# "ibaq_num" = get_num_ibaq_peptides_per_protein, "ibaq_map" = get_ibaq_peptide_to_protein_map
SEQUENCES = [
    ["ibaq_num", "map"], ["ibaq_map", "map"], ["map", "ibaq_num"], ["map", "ibaq_num", "map"], ["map", "map"],
    ["ibaq_num", "ibaq_map"], ["ibaq_map", "map", "ibaq_num"], ["map", "ibaq_map", "ibaq_num"],
]
# invocations of the digest tool: (name, --peptide_protein_map given, --ibaq_map given)
TOOL_MODES = [("map", True, False), ("ibaq", False, True), ("both", True, True)]
NOT_AT_REQUESTED = "parameter objects were rewritten by an earlier call"


def counts_of_map(m):
    """peptide numbers per protein of a peptide -> proteins map (each protein once per peptide)"""
    c = {}
    for _, prots in m.items():
        for q in dict.fromkeys(prots):
            c[q] = c.get(q, 0) + 1
    return c


# ------------------------------------------------------------------------------------------
# the list of maps, one per digestion parameter set (kind "maps"): independent statements
# ------------------------------------------------------------------------------------------
MAPS_FRACTION = 1 / 6
LIST_FIELDS = ("enzyme", "digestion", "min", "max", "mc", "special")
OPTION_OF = {"enzyme": "--enzyme", "digestion": "--digestion", "min": "--min-length", "max": "--max-length",
             "mc": "--cleavages", "special": "--special-aas"}
SPECIALS = ["KR", "none", "K", "KRM", "R", "M"]


def rule_of_flags(fl):
    """the identifier rule the command line chooses"""
    if fl["gene_level"] and not fl["pseudo"]:
        return "gene"
    return "uniprot" if fl["uniprot"] else "first_space"


def sets_of_lists(lists, contains_decoys):
    """the parameter sets a command line states: the i-th value of every option, an option given once holds for
    every set; options given several times must agree in number ("unequal_lengths" otherwise)"""
    lens = {len(v) for v in lists.values() if len(v) != 1}
    if len(lens) > 1:
        return "unequal_lengths"
    n = max(lens) if lens else 1
    out = []
    for i in range(n):
        st = {f: (lists[f][0] if len(lists[f]) == 1 else lists[f][i]) for f in LIST_FIELDS}
        st.update(db="target" if contains_decoys else "concat", met=True)
        out.append(st)
    return out


def sets_of_objs(objs):
    """the parameter sets a list of DigestionParams objects states (constructor arguments, then assigned attributes)"""
    out = []
    for o in objs:
        st = {f: o[f] for f in LIST_FIELDS}
        st["db"] = o["db"] if o["db"] is not None else ("target" if o["contains_decoys"] else "concat")
        st["met"] = True if o["met"] is None else o["met"]
        out.append(st)
    return out


def json_key(x):
    import json

    return json.dumps(x, sort_keys=True)


def read_map_spec(text):
    """what a quote-free tab-separated map file with \\r\\n line ends says: peptide -> proteins, rows of one peptide
    appended; "index_error" for a row without a second column"""
    if text.startswith("\ufeff"):
        text = text[1:]
    rows = text.split("\r\n")
    if rows and rows[-1] == "":
        rows.pop()
    d = {}
    for r in rows:
        f = r.split("\t")
        if len(f) < 2:
            return "index_error"
        d.setdefault(f[0], []).extend(f[1].split(";"))
    return d


def writer_image(text):
    """the text is what the map writer produces: no byte-order mark, \r\n-terminated rows of exactly two
    tab-separated cells, every peptide once, a non-empty protein cell.  C09 says "a map written to a file reads back
    unchanged": only such files are judged by the oracle (audit-3 C09-10); what the reader does with other texts is
    pinned by the model comparison alone."""
    if text.startswith("\ufeff") or '"' in text:
        return False
    rows = text.split("\r\n")
    if rows and rows[-1] == "":
        rows.pop()
    seen = set()
    for r in rows:
        f = r.split("\t")
        if len(f) != 2 or f[0] in seen or f[1] == "" or "\n" in r or "\r" in r:
            return False
        seen.add(f[0])
    return True


class P(Prop):
    id = "C09"
    # True: a map call on parameter objects that an earlier iBAQ call rewrote must still return the map of the REQUESTED
    # values.  The tree at HEAD rewrites its arguments in get_ibaq_peptide_to_protein_map (notes/C09.md, round 3), the
    # property text does not speak about argument objects, so this is recorded (feature "args_rewritten_by=") and every
    # such call is only required to be a function of the field values it reads (same result on fresh objects).
    strict_requested_params = False
    quick_cases = 4800
    thorough_cases = 60000
    chunk = 100
    rule = (
        "one case = 1-3 FASTA files of 1-5 records (sequences of 2-31 residues, 1% empty, built from a shared pool of 2-5 pieces over a "
        "per-enzyme 5-letter alphabet so that proteins share peptides; identifiers P<i> / sp|Q<i>|N<i>_X with and without "
        "GN=; wrapping width 1-60, blank lines, trailing blanks, CRLF, missing final newline; 4% malformed: bare '>' lines, "
        "'> x' headers, text before the first header) x 1-3 DigestionParams (enzyme of the table, full/semi/none, window, "
        "budget, special residues KR/K/KRM/none, fasta_contains_decoys) x identifier rule x lookups x per-parameter-set maps x iBAQ x map-file round trip; "
        "25% direct get_peptide_to_protein_map calls incl. db=decoy; non-trivial = a non-empty map with a peptide listed by "
        ">= 2 proteins or a decoy; distinct by sha1 of the case.  1/6 of the cases are of kind 'maps' (the list of maps, one "
        "per digestion parameter set, of `python -m picked_group_fdr` / `.quantification`): 1-4 parameter sets that are identical, "
        "differ in exactly ONE field (enzyme / digestion / min / max / cleavages / special-aas KR,none,K,KRM,R,M; db target,decoy,"
        "concat and methionine_cleavage for object lists), in two fields or everywhere; given as command-line option lists through "
        "the real argparse parsers (an option whose values agree usually given once, 4% lists of unequal length) to "
        "get_peptide_to_protein_maps_from_args with random --gene_level / --fasta_use_uniprot_id / pseudo-gene flags, or as "
        "DigestionParams objects to get_peptide_to_protein_maps; FASTA input, --peptide_protein_map files alone (generated texts, "
        "4% with a one-column row, BOM), both, neither; 15% with a protein-groups file (half of them naming entrapment proteins); "
        "70% of the eligible cases also write every map with the digest tool and load the files back as a list"
    )
    assumptions = [
        "FASTA text is ASCII; Python's text-mode line iteration splits at \\n after universal-newline translation",
        "csv writer/reader (tab, QUOTE_MINIMAL, \\r\\n) only on fields without tab, quote, CR, LF (generated identifiers are such)",
        "identifiers distinct within a case for the 'each once, database order' statement (cases with repeated identifiers are compared with the model only)",
    ]
    trusted_extra = ["fixes/C10-two-peptide-digest-map.diff is assumed applied (the (map, sequences) pair recognised by type)"]

    # ------------------------------------------------------------------ generation
    def gen_case(self, rng, tier):
        if rng.random() < MAPS_FRACTION:
            return self._gen_maps_case(rng)
        rules = rule_table()
        names = list(rules)
        direct = rng.random() < 0.25
        nparams = 1 if direct else rng.choice([1, 1, 1, 1, 2, 2, 3])
        contains_decoys = rng.random() < 0.3
        special = rng.choice(["KR", "KR", "none", "K", "KRM"])
        params = []
        for _ in range(nparams):
            enzyme = rng.choice(names + ["trypsin", "trypsin", "lys-c", "lys-n", "no_enzyme", "chymotrypsin+"])
            mn = rng.choice([1, 2, 2, 3, 3, 4, 5, 6, 6, 7])
            mx = mn + rng.choice([0, 1, 3, 6, 10, 25, 50])
            params.append(
                {
                    "enzyme": enzyme,
                    "digestion": rng.choice(["full", "full", "full", "semi", "none"]),
                    "min": mn,
                    "max": mx,
                    "mc": rng.choice([0, 0, 1, 2]),
                    "special": special,
                    "contains_decoys": contains_decoys,
                }
            )
        if nparams > 1 and rng.random() < 0.35:
            # parameter sets that differ in exactly ONE field (a sibling enzyme with the same pre/post but another
            # not_post, one more missed cleavage, another window, another mode): anything remembered between the
            # per-parameter-set digests under a key that forgets that field shows here
            q = dict(params[0])
            field = rng.choice(["enzyme", "enzyme", "mc", "min", "max", "digestion"])
            if field == "enzyme":
                r0 = rules[q["enzyme"]]
                sib = [n for n in names if n != q["enzyme"] and rules[n]["pre"] == r0["pre"] and rules[n]["post"] == r0["post"]]
                q["enzyme"] = rng.choice(sib) if sib else rng.choice(names)
            elif field == "mc":
                q["mc"] = (q["mc"] + 1) % 3
            elif field == "min":
                q["min"] = max(1, q["min"] + rng.choice([-1, 1]))
                q["max"] = max(q["max"], q["min"])
            elif field == "max":
                q["max"] = q["max"] + rng.choice([1, 2])
            else:
                q["digestion"] = "semi" if q["digestion"] == "full" else "full"
            params[1] = q
        if nparams > 1 and rng.random() < 0.85:
            # keep hash-key (non-specific) and plain parameter sets apart (the code's own TODO)
            hashy = [eff_mode(p["enzyme"], p["digestion"]) == "none" for p in params]
            if any(hashy) and not all(hashy):
                for p in params:
                    if eff_mode(p["enzyme"], p["digestion"]) == "none":
                        p["enzyme"], p["digestion"] = "lys-c", "full"
        al = alphabet(rules[params[0]["enzyme"]], rng)
        for p in params[1:]:
            for x in alphabet(rules[p["enzyme"]], rng)[:2]:
                if x not in al:
                    al.append(x)
        pieces = ["".join(rng.choice(al) for _ in range(rng.randint(2, 8))) for _ in range(rng.randint(2, 5))]
        nfiles = 1 if direct else rng.choice([1, 1, 1, 2, 3])
        idstyle = rng.choice(["plain", "uniprot", "uniprot"])
        files, allseq = self._gen_files(rng, pieces, nfiles, idstyle, contains_decoys)
        lookups = []
        for _ in range(rng.randint(1, 4)):
            s = rng.choice(allseq) if allseq else ""
            if rng.random() < 0.4:
                s = decoy_spec(s, special_list(special))
            if s:
                a = rng.randint(0, len(s) - 1)
                b = min(len(s), a + rng.randint(1, 12))
                lookups.append(s[a:b])
            else:
                lookups.append("".join(rng.choice(al) for _ in range(rng.randint(1, 8))))
        parse_id = rng.choice(["first_space", "first_space", "uniprot", "gene"])
        case = {"files": files, "parse_id": parse_id, "lookups": lookups, "flag_variant": rng.randint(0, 1)}
        if direct:
            p = params[0]
            r = rules[p["enzyme"]]
            case.update(
                kind="direct",
                db=rng.choice(["target", "decoy", "concat", "concat"]),
                pre="".join(r["pre"]),
                not_post="".join(r["not_post"]),
                post="".join(r["post"]),
                digestion=p["digestion"],
                min=p["min"],
                max=p["max"],
                mc=p["mc"],
                met=rng.random() < 0.6,
                hash=(p["digestion"] == "none") if rng.random() < 0.9 else rng.random() < 0.5,
                special="" if special == "none" else special,
            )
        else:
            case.update(kind="params", params=params, ibaq=rng.random() < 0.5, mapfile=rng.random() < 0.4)
            # call sequences on ONE list of DigestionParams objects (what digest.main and other callers do)
            case["seq"] = rng.choice(SEQUENCES) if rng.random() < 0.35 else None
        return case

    @staticmethod
    def _gen_files(rng, pieces, nfiles, idstyle, contains_decoys):
        """1-3 FASTA files (abstract records + rendered lines); the rng call order is part of the case streams"""
        files, k, allseq = [], 0, []
        for _ in range(nfiles):
            recs = []
            for _ in range(rng.randint(1, 5)):
                k += 1
                seq = "".join(rng.choice(pieces) for _ in range(rng.choice([1, 2, 2, 3, 4, 5, 6])))[:30]
                if rng.random() < 0.3:
                    seq = "M" + seq
                if rng.random() < 0.012:
                    seq = ""
                pid = f"P{k}" if idstyle == "plain" else f"sp|Q{k}|N{k}_X"
                if contains_decoys and rng.random() < 0.4:
                    pid = "REV__" + pid
                if rng.random() < 0.03 and k > 1:
                    pid = "P1" if idstyle == "plain" else "sp|Q1|N1_X"  # repeated identifier
                header = pid + rng.choice(["", " desc", f" Protein {k} OS=x GN=G{rng.randint(1, 4)} PE=1", f" desc GN=G{k}"])
                recs.append([header, seq])
                allseq.append(seq)
            style = {"trailing": rng.random() < 0.3}
            lines = render(recs, rng, style)
            wellformed = True
            if rng.random() < 0.04:
                wellformed = False
                kind = rng.choice(["bare", "bare_then_header", "space_header", "junk_before"])
                if kind == "bare":
                    lines.insert(rng.randint(0, len(lines)), ">")
                elif kind == "bare_then_header":
                    pos = rng.choice([i for i, l in enumerate(lines) if l.startswith(">")])
                    lines.insert(pos, ">")
                elif kind == "space_header":
                    lines.insert(rng.randint(0, len(lines)), "> no identifier")
                else:
                    lines.insert(0, "JUNK")
            files.append(
                {
                    "lines": lines,
                    "records": recs if wellformed else None,
                    "crlf": rng.random() < 0.15,
                    "final_newline": rng.random() < 0.85,
                }
            )
        return files, allseq

    # ------------------------------------------------------------------ implementation
    @staticmethod
    def _write_files(case, d):
        paths = []
        for i, f in enumerate(case["files"]):
            nl = "\r\n" if f["crlf"] else "\n"
            text = nl.join(f["lines"]) + (nl if f["final_newline"] and f["lines"] else "")
            p = os.path.join(d, f"f{i}.fasta")
            with open(p, "w", newline="") as fh:
                fh.write(text)
            paths.append(p)
        return paths

    @staticmethod
    def _parse_fn(name):
        from picked_group_fdr import digest, protein_annotation

        return {
            "first_space": digest.parse_until_first_space,
            "uniprot": protein_annotation.parse_uniprot_id,
            "gene": protein_annotation.parse_gene_name_func,
        }[name]

    @staticmethod
    def _errname(e):
        return {IndexError: "index_error", AttributeError: "attribute_error", KeyError: "key_error"}.get(type(e))

    def _mk_params(self, case):
        from picked_group_fdr.digestion_params import DigestionParams

        return [
            DigestionParams(p["enzyme"], p["digestion"], p["min"], p["max"], p["mc"], p["special"], p["contains_decoys"])
            for p in case["params"]
        ]

    def _result_view(self, digest, res, lookups):
        if not isinstance(res, (tuple, dict)) and not hasattr(res, "items"):
            # not a map at all (e.g. None standing for "no input"): recorded as such, nothing raised (audit-3 C09-11)
            return {"map": None, "seqs": None, "lookups": [], "not_a_map": type(res).__name__}, []
        if isinstance(res, tuple):
            m, seqs = dict(res[0]), dict(res[1])
        else:
            m, seqs = dict(res), None
        lk = []
        for q in lookups:
            try:
                lk.append(list(digest.get_proteins(res, q)))
            except (KeyError, IndexError, AttributeError) as e:
                lk.append({"err": self._errname(e)})
        return {"map": {k: list(v) for k, v in m.items()}, "seqs": seqs, "lookups": lk}, list(m.items())

    def run_impl(self, case):
        if case["kind"] == "maps":
            return self._run_maps(case)
        from picked_group_fdr import digest

        out = {}
        with tempfile.TemporaryDirectory(prefix="c09_") as d:
            paths = self._write_files(case, d)
            fn = self._parse_fn(case["parse_id"])
            # --- read_fasta_maxquant on the first file
            fdb = case.get("db", "concat")
            fspecial = list(case["special"]) if case["kind"] == "direct" else special_list(case["params"][0]["special"])
            recs, ferr = [], None
            try:
                for r in digest.read_fasta_maxquant(paths[0], fdb, fn, special_aas=fspecial):
                    recs.append([r[0], r[1]])
            except (IndexError, AttributeError) as e:
                ferr = self._errname(e)
            out["fasta"] = {"records": recs, "err": ferr}
            # --- the map
            items = None
            try:
                if case["kind"] == "direct":
                    res = digest.get_peptide_to_protein_map(
                        paths[0],
                        db=case["db"],
                        min_len=case["min"],
                        max_len=case["max"],
                        pre=list(case["pre"]),
                        not_post=list(case["not_post"]),
                        post=list(case["post"]),
                        digestion=case["digestion"],
                        miscleavages=case["mc"],
                        methionine_cleavage=case["met"],
                        use_hash_key=case["hash"],
                        special_aas=list(case["special"]),
                        parse_id=fn,
                    )
                else:
                    res = digest.get_peptide_to_protein_map_from_params(paths, self._mk_params(case), parse_id=fn)
                out["main"], items = self._result_view(digest, res, case["lookups"])
            except (IndexError, AttributeError, KeyError) as e:
                name = self._errname(e)
                if isinstance(e, KeyError) and case["kind"] == "params" and any(
                    p["enzyme"] not in digest.ENZYME_CLEAVAGE_RULES for p in case["params"]
                ):
                    name = "unknown_enzyme"
                out["main"] = {"err": name}
            # --- the pipeline's path: one map per parameter set (peptide_protein_map.get_peptide_to_protein_maps)
            if case["kind"] == "params" and len(case["params"]) > 1 and "map" in out["main"]:
                from picked_group_fdr import peptide_protein_map as ppm

                try:
                    # through the command line's option handling (get_peptide_to_protein_maps_from_args): the flags
                    # are chosen so that the identifier rule they select is this case's rule
                    import argparse

                    ps = case["params"]
                    variant = bool(case.get("flag_variant", 0))
                    rule = case["parse_id"]
                    gene_level = True if rule == "gene" else variant
                    uniprot = True if rule == "uniprot" else (variant if rule == "gene" else False)
                    pseudo = False if rule == "gene" else True
                    args = argparse.Namespace(
                        fasta=paths, peptide_protein_map=None, mq_protein_groups=None,
                        enzyme=[p["enzyme"] for p in ps], digestion=[p["digestion"] for p in ps],
                        min_length=[p["min"] for p in ps], max_length=[p["max"] for p in ps],
                        cleavages=[p["mc"] for p in ps], special_aas=[p["special"] for p in ps],
                        fasta_contains_decoys=bool(ps[0]["contains_decoys"]),
                        gene_level=gene_level, fasta_use_uniprot_id=uniprot,
                    )
                    maps = ppm.get_peptide_to_protein_maps_from_args(args, pseudo)
                    out["permaps"] = [self._result_view(digest, m, [])[0] for m in maps]
                except (IndexError, AttributeError, KeyError) as e:
                    out["permaps"] = {"err": self._errname(e)}
            # --- iBAQ numbers
            if case.get("ibaq"):
                try:
                    c = digest.get_num_ibaq_peptides_per_protein(paths, self._mk_params(case), parse_id=fn)
                    out["ibaq"] = {"counts": {k: int(v) for k, v in c.items()}}
                except (IndexError, AttributeError, KeyError) as e:
                    out["ibaq"] = {"err": self._errname(e)}
            # --- the digest tool: each output option alone and both in one invocation
            if self._mapfile_applicable(case) and isinstance(out["main"], dict) and "map" in out["main"]:
                ps = case["params"]
                base = ["digest", "--fasta", *paths]
                base += ["--enzyme", *[p["enzyme"] for p in ps], "--digestion", *[p["digestion"] for p in ps]]
                base += ["--min-length", *[str(p["min"]) for p in ps], "--max-length", *[str(p["max"]) for p in ps]]
                base += ["--cleavages", *[str(p["mc"]) for p in ps], "--special-aas", *[p["special"] for p in ps]]
                if ps[0]["contains_decoys"]:
                    base.append("--fasta_contains_decoys")
                tool = {}
                for name, want_map, want_ibaq in TOOL_MODES:
                    mf, bf = os.path.join(d, f"map_{name}.tsv"), os.path.join(d, f"ibaq_{name}.tsv")
                    argv = base + (["--peptide_protein_map", mf] if want_map else []) + (["--ibaq_map", bf] if want_ibaq else [])
                    old = sys.argv
                    sys.argv = argv
                    err = None
                    try:
                        digest.main(argv[1:])
                    except (IndexError, AttributeError, KeyError) as e:
                        if not want_ibaq:
                            raise
                        err = self._errname(e)
                    finally:
                        sys.argv = old
                    r = {}
                    if want_map and os.path.exists(mf):
                        with open(mf, "rb") as fh:
                            text = fh.read().decode("utf-8")
                        back = digest.get_peptide_to_protein_map_from_file(mf, use_hash_key=False)
                        r["map"] = {"text": text, "back": {k: list(v) for k, v in back.items()}}
                    if want_ibaq:
                        if err is not None or not os.path.exists(bf):
                            r["ibaq"] = {"err": err or "no_file"}
                        else:
                            with open(bf, "rb") as fh:
                                btext = fh.read().decode("utf-8")
                            rows = [l.split("\t") for l in btext.split("\r\n")[:-1]]
                            wellformed = btext.endswith("\r\n") or btext == ""
                            wellformed = wellformed and all(len(x) == 2 and x[1].isdigit() for x in rows) and len({x[0] for x in rows}) == len(rows)
                            r["ibaq"] = {"counts": {x[0]: int(x[1]) for x in rows if len(x) == 2 and x[1].isdigit()}, "wellformed": wellformed}
                    tool[name] = r
                out["mapfile"] = tool["map"]["map"]
                out["tool"] = {"ibaq": tool["ibaq"]["ibaq"], "both": {"map": tool["both"].get("map"), "ibaq": tool["both"]["ibaq"]}}
            # --- call sequences on ONE list of parameter objects
            if case["kind"] == "params" and case.get("seq") and isinstance(out["main"], dict) and "map" in out["main"]:
                out["seq"] = self._run_seq(digest, case, paths, fn)
            out["_rec"] = {"items": items}
            if case["kind"] == "params":
                # methionine-cleavage setting / database kind of the real parameter objects (audit-3 C08-6)
                try:
                    out["_rec"]["real"] = [{"met": q.methionine_cleavage, "db": q.db} for q in self._mk_params(case)]
                except Exception:
                    out["_rec"]["real"] = None
        return out

    def _run_seq(self, digest, case, paths, fn):
        """the calls of case["seq"] one after the other on ONE list of DigestionParams objects; per call: the field
        values the objects had when it started, whether it changed them, its result, and whether the SAME call on fresh
        objects carrying those field values returns the same (no hidden state)"""
        import copy

        def snap(ps):
            return [copy.deepcopy(vars(p)) for p in ps]

        def call(op, ps):
            try:
                if op == "map":
                    res = digest.get_peptide_to_protein_map_from_params(paths, ps, parse_id=fn)
                    m = res[0] if isinstance(res, tuple) else res
                    return {"map": {k: list(v) for k, v in m.items()}}
                if op == "ibaq_num":
                    return {"counts": {k: int(v) for k, v in digest.get_num_ibaq_peptides_per_protein(paths, ps, parse_id=fn).items()}}
                res = digest.get_ibaq_peptide_to_protein_map(paths, ps, parse_id=fn)
                m = res[0] if isinstance(res, tuple) else res
                return {"counts": counts_of_map(m)}
            except (IndexError, AttributeError, KeyError) as e:
                return {"err": self._errname(e)}

        ps = self._mk_params(case)
        requested = snap(ps)
        steps = []
        for op in case["seq"]:
            before = snap(ps)
            res = call(op, ps)
            after = snap(ps)
            fresh = self._mk_params(case)
            for p, b in zip(fresh, copy.deepcopy(before)):
                p.__dict__.clear()
                p.__dict__.update(b)
            ref = call(op, fresh)
            changed = sorted({k for b, a in zip(before, after) for k in set(b) | set(a) if b.get(k) != a.get(k)})
            steps.append({"op": op, "at_requested": before == requested, "changed_fields": changed, "result": res,
                          "same_on_fresh_objects": res == ref})
        return steps

    @staticmethod
    def _mapfile_applicable(case):
        return (
            case["kind"] == "params"
            and case.get("mapfile")
            and case["parse_id"] == "first_space"
            and all(eff_mode(p["enzyme"], p["digestion"]) != "none" for p in case["params"])
        )

    @staticmethod
    def _model_lines(f):
        """the lines Python's text-mode iteration yields for the file written from `f` (a trailing empty element of
        `lines` without a final newline is no line of the file)"""
        text = "\n".join(f["lines"]) + ("\n" if f["final_newline"] and f["lines"] else "")
        parts = text.split("\n")
        if parts and parts[-1] == "":
            parts.pop()
        return parts

    # ------------------------------------------------------------------ model
    def model_request(self, case, impl_out):
        if case["kind"] == "maps":
            return self._maps_request(case, impl_out)
        files = [self._model_lines(f) for f in case["files"]]
        reqs = []
        if case["kind"] == "direct":
            reqs.append({"op": "fasta", "lines": files[0], "db": case["db"], "special": case["special"], "parse_id": case["parse_id"]})
            reqs.append(
                {
                    "op": "pepmap1",
                    "lines": files[0],
                    "db": case["db"],
                    "min": case["min"],
                    "max": case["max"],
                    "pre": case["pre"],
                    "not_post": case["not_post"],
                    "post": case["post"],
                    "digestion": case["digestion"],
                    "mc": case["mc"],
                    "met": case["met"],
                    "hash": case["hash"],
                    "special": case["special"],
                    "parse_id": case["parse_id"],
                    "lookups": case["lookups"],
                }
            )
        else:
            sp = case["params"][0]["special"]
            reqs.append({"op": "fasta", "lines": files[0], "db": "concat", "special": "" if sp == "none" else sp, "parse_id": case["parse_id"]})
            reqs.append({"op": "pepmap", "files": files, "params": case["params"], "parse_id": case["parse_id"], "lookups": case["lookups"]})
        if isinstance(impl_out, dict) and "permaps" in impl_out:
            for p in case["params"]:
                reqs.append({"op": "pepmap", "files": files, "params": [p], "parse_id": case["parse_id"], "lookups": []})
        if self._needs_ibaq(case, impl_out):
            reqs.append({"op": "ibaq", "files": files, "params": case["params"], "parse_id": case["parse_id"]})
        if isinstance(impl_out, dict) and "mapfile" in impl_out:
            reqs.append({"op": "mapfile", "map": [[k, list(v)] for k, v in impl_out["_rec"]["items"]]})
        return reqs

    @staticmethod
    def _needs_ibaq(case, impl_out):
        return bool(case.get("ibaq")) or (isinstance(impl_out, dict) and ("tool" in impl_out or "seq" in impl_out))

    def model_view(self, case, resp, impl_out):
        if case["kind"] == "maps":
            return self._maps_view(case, resp, impl_out)
        out = {}
        it = iter(resp)
        fa = next(it)
        out["fasta"] = {"records": fa.get("records"), "err": fa.get("err")} if "records" in fa else fa
        m = next(it)
        if "map" in m:
            out["main"] = {
                "map": {k: v for k, v in m["map"]},
                "seqs": None if m["seqs"] is None else {k: v for k, v in m["seqs"]},
                "lookups": m["lookups"],
            }
        else:
            out["main"] = m
        if isinstance(impl_out, dict) and "permaps" in impl_out:
            pm = []
            for _ in case["params"]:
                m1 = next(it)
                if "map" in m1:
                    pm.append({"map": {k: v for k, v in m1["map"]}, "seqs": None if m1["seqs"] is None else {k: v for k, v in m1["seqs"]}, "lookups": []})
                else:
                    pm.append(m1)
            errs = [x for x in pm if "err" in x]
            out["permaps"] = errs[0] if errs else pm
        mib = None
        if self._needs_ibaq(case, impl_out):
            c = next(it)
            mib = {"counts": {k: v for k, v in c["counts"]}} if "counts" in c else c
            if case.get("ibaq"):
                out["ibaq"] = mib
        if isinstance(impl_out, dict) and "mapfile" in impl_out:
            f = next(it)
            if "text" in f:
                out["mapfile"] = {"text": f["text"], "back": {k: v for k, v in f["back"]} if isinstance(f["back"], list) else f["back"]}
            else:
                out["mapfile"] = f
        if isinstance(impl_out, dict) and "tool" in impl_out:
            # what the tool must write for the REQUESTED parameters, whichever other output it was asked for: the map file of
            # the map-only invocation (model text of the requested map) and the model's iBAQ numbers
            mi = dict(mib, wellformed=True) if "counts" in mib else mib
            out["tool"] = {"ibaq": mi, "both": {"map": out["mapfile"], "ibaq": mi}}
        if isinstance(impl_out, dict) and "seq" in impl_out:
            mm = {"map": out["main"]["map"]} if "map" in out["main"] else out["main"]
            steps = []
            for st in impl_out["seq"]:
                if st["op"] == "map":
                    at = st["at_requested"] or self.strict_requested_params
                    steps.append({"op": "map", "result": mm if at else NOT_AT_REQUESTED, "same_on_fresh_objects": True})
                else:  # the iBAQ window is a clamp of the requested one: the same for every earlier iBAQ call
                    steps.append({"op": st["op"], "result": mib, "same_on_fresh_objects": True})
            out["seq"] = steps
        return out

    def impl_view(self, case, impl_out):
        v = super().impl_view(case, impl_out)
        if isinstance(v, dict) and "seq" in v:
            v = dict(v)
            v["seq"] = [
                {"op": st["op"], "same_on_fresh_objects": st["same_on_fresh_objects"],
                 "result": st["result"] if (st["op"] != "map" or st["at_requested"] or self.strict_requested_params) else NOT_AT_REQUESTED}
                for st in v["seq"]
            ]
        return v

    # ------------------------------------------------------------------ the property
    def _expected(self, case, real=None):
        """(jobs listings, db records per file, distinct ids?) or None when a file is malformed.  `real`: the
        methionine-cleavage setting and database kind of the real parameter objects, when recorded (the property
        quantifies over every such setting; without a recording: Met removal on, database by the decoy flag)"""
        if any(f["records"] is None for f in case["files"]):
            return None
        rules = rule_table()
        if case["kind"] == "direct":
            special = list(case["special"])
            recs = [db_records(case["files"][0]["records"], case["parse_id"], case["db"], special)]
            mode = case["digestion"] if case["digestion"] in ("semi", "none") else "full"
            jobs = [
                (0, listing(recs[0], (list(case["pre"]), list(case["not_post"]), list(case["post"])), case["min"], case["max"], mode, case["mc"], case["met"], case["hash"]))
            ]
            hashed = [case["hash"] and mode == "none"]
            windows = [(case["min"], case["max"])]
            plain = [not case["hash"]]
        else:
            p0 = case["params"][0]
            db = "target" if p0["contains_decoys"] else "concat"
            if not (isinstance(real, list) and len(real) == len(case["params"]) and all(isinstance(q, dict) for q in real)):
                real = [{} for _ in case["params"]]
            if real[0].get("db") in ("concat", "target"):
                db = real[0]["db"]
            special = special_list(p0["special"])
            recs = [db_records(f["records"], case["parse_id"], db, special) for f in case["files"]]
            jobs, hashed, windows, plain = [], [], [], []
            for fi in range(len(case["files"])):
                for p, q in zip(case["params"], real):
                    if p["enzyme"] not in rules:
                        return None
                    r = rules[p["enzyme"]]
                    mode = eff_mode(p["enzyme"], p["digestion"])
                    met = q["met"] if isinstance(q.get("met"), bool) else True
                    jobs.append((fi, listing(recs[fi], (r["pre"], r["not_post"], r["post"]), p["min"], p["max"], mode, p["mc"], met, mode == "none")))
            for p in case["params"]:
                hashed.append(eff_mode(p["enzyme"], p["digestion"]) == "none")
                plain.append(not hashed[-1])
                windows.append((p["min"], p["max"]))
        return jobs, recs, hashed, windows, plain

    def oracle(self, case, impl_out):
        if case["kind"] == "maps":
            return self._maps_oracle(case, impl_out)
        if not isinstance(impl_out, dict) or "main" not in impl_out:
            return "no output"
        exp = self._expected(case, (impl_out.get("_rec") or {}).get("real"))
        if exp is None:
            return None  # malformed file / unknown enzyme: compared with the model only
        jobs, recs, hashed, windows, plain = exp
        allrecs = [r for fr in recs for r in fr]
        ids = [r[0] for r in allrecs]
        distinct = len(set(ids)) == len(ids)
        has_empty = any(r[1] == "" for r in allrecs)
        main = impl_out["main"]
        deferred = None  # a (known) finding about the main map does not stop the other statements from being checked
        # --- reading + decoys
        f0 = impl_out["fasta"]
        fdb = case.get("db", "concat")
        fspecial = list(case["special"]) if case["kind"] == "direct" else special_list(case["params"][0]["special"])
        want_recs = [list(r) for r in db_records(case["files"][0]["records"], case["parse_id"], fdb, fspecial)]
        if f0["err"] is not None or f0["records"] != want_recs:
            return f"read_fasta_maxquant(db={fdb}, special={fspecial}) returned {f0} for records {case['files'][0]['records']}, expected {want_recs}"
        # --- the map
        if "err" in main:
            if main["err"] == "index_error" and has_empty and not self._all_nonspecific(case):
                pass  # an empty sequence is rejected by full / semi digestion
            else:
                return f"map construction raised {main['err']}"
        elif not distinct:
            pass
        else:
            order = {pid: i for i, pid in enumerate(ids)}
            concat = {}
            for _, l in jobs:
                for k, v in l.items():
                    concat.setdefault(k, []).extend(v)
            want = {k: sorted(set(v), key=order.get) for k, v in concat.items()}
            got = main["map"]
            if got != want:
                if got == concat and len(jobs) > len(case["files"]):
                    k = next(k for k in got if got[k] != want[k])
                    deferred = f"multi-params: peptide {k!r} lists {got[k]} (once per parameter set), the property asks for {want[k]} (each once, database order)"
                    got = None
            if got is not None and got != want:
                ks = sorted(set(got) | set(want))
                k = next(k for k in ks if got.get(k) != want.get(k))
                return f"map entry {k!r}: {got.get(k)} but the proteins whose digestion yields it are {want.get(k)} (database order)"
            # --- lookups
            for q, l in zip(case["lookups"], main["lookups"]) if got is not None else []:
                if isinstance(l, dict):
                    if all(hashed) or all(plain):
                        return f"get_proteins({q!r}) raised {l['err']}"
                    continue
                if all(hashed) and len(hashed) == 1:
                    if windows[0][0] <= len(q) <= windows[0][1]:
                        w = sorted(pid for pid, seq in allrecs if q in seq)
                        if sorted(l) != w:  # no order in "returns exactly the proteins whose sequence contains the peptide" (audit-3 C09-8)
                            return f"non-specific lookup of {q!r}: {l}, but the sequences containing it are {w}"
                elif all(plain):
                    if l != got.get(q, []):
                        return f"lookup of {q!r}: {l} differs from the map entry {got.get(q, [])}"
        # --- one map per parameter set (what the pipeline uses): each once, database order
        if isinstance(impl_out.get("permaps"), list) and distinct:
            order = {pid: i for i, pid in enumerate(ids)}
            np_ = len(case["params"])
            for pi, pm in enumerate(impl_out["permaps"]):
                want = {}
                for ji, (_, l) in enumerate(jobs):
                    if ji % np_ == pi:
                        for k, v in l.items():
                            want.setdefault(k, []).extend(v)
                if pm["map"] != want:
                    k = next(k for k in sorted(set(pm["map"]) | set(want)) if pm["map"].get(k) != want.get(k))
                    return f"map of parameter set {pi}, entry {k!r}: {pm['map'].get(k)} but the proteins whose digestion yields it are {want.get(k)}"
        # --- iBAQ
        wantc = None
        if distinct and case["kind"] == "params":
            rules = rule_table()
            wantc = {}
            for pid, seq in allrecs:
                peps = set()
                for p in case["params"]:
                    r = rules[p["enzyme"]]
                    peps |= digest_spec(seq, max(6, p["min"]), min(30, p["max"]), r["pre"], r["not_post"], r["post"], 0, False, "full")
                if peps:
                    wantc[pid] = len(peps)

        def ibaq_wrong(ib, where):
            if "err" in ib:
                return f"{where} raised {ib['err']}; expected {wantc}"
            if ib["counts"] != wantc:
                k = next(k for k in sorted(set(ib["counts"]) | set(wantc)) if ib["counts"].get(k) != wantc.get(k))
                return f"{where}: protein {k} has {ib['counts'].get(k)} theoretical peptides, but {wantc.get(k)} distinct fully specific peptides of length 6-30 without missed cleavages"
            if ib.get("wellformed") is False:
                return f"{where}: the file is not one 'protein<TAB>number' row per protein"
            return None

        if "ibaq" in impl_out and wantc is not None:
            w = ibaq_wrong(impl_out["ibaq"], "ibaq")
            if w:
                return w
        # --- map file
        if "mapfile" in impl_out and "map" in main:
            if impl_out["mapfile"]["back"] != main["map"]:
                return "the map written by --peptide_protein_map does not read back unchanged"
        # --- the digest tool asked for the iBAQ file alone / for both files in one invocation: each file is the one for
        #     the REQUESTED parameters (main["map"] has been checked against the independent listing above)
        if "tool" in impl_out and "map" in main:
            t = impl_out["tool"]
            if wantc is not None:
                w = ibaq_wrong(t["ibaq"], "digest tool, --ibaq_map alone") or ibaq_wrong(t["both"]["ibaq"], "digest tool, --ibaq_map together with --peptide_protein_map")
                if w:
                    return w
            bm = t["both"]["map"]
            if bm is None:
                return "digest tool, --peptide_protein_map together with --ibaq_map: no map file written"
            if bm["back"] != main["map"]:
                ks = sorted(set(bm["back"]) | set(main["map"]))
                k = next(k for k in ks if bm["back"].get(k) != main["map"].get(k))
                return (f"digest tool, --peptide_protein_map together with --ibaq_map: written map entry {k!r} is {bm['back'].get(k)}, "
                        f"but for the requested digestion parameters it is {main['map'].get(k)} ({len(bm['back'])} / {len(main['map'])} peptides)")
        # --- call sequences on one list of parameter objects
        if "seq" in impl_out and "map" in main:
            for i, st in enumerate(impl_out["seq"]):
                where = f"call {i} ({st['op']}) of the sequence {case['seq']} on one list of DigestionParams objects"
                if not st["same_on_fresh_objects"]:
                    return f"{where} returns another result than the same call on fresh objects with the same field values"
                if st["op"] == "map":
                    if (st["at_requested"] or self.strict_requested_params) and st["result"] != {"map": main["map"]}:
                        extra = "" if st["at_requested"] else f" (fields {impl_out['seq'][i - 1]['changed_fields'] if i else []} were rewritten by an earlier call)"
                        return f"{where} does not return the map of the requested parameters{extra}"
                elif wantc is not None:
                    w = ibaq_wrong(st["result"], where)
                    if w:
                        return w
        return deferred

    @staticmethod
    def _all_nonspecific(case):
        if case["kind"] == "direct":
            return case["digestion"] == "none"
        return all(eff_mode(p["enzyme"], p["digestion"]) == "none" for p in case["params"])

    # known-finding candidate (DESIGN.md §9 item 8, first part)
    def kf_multi_params_listing(self, case, impl_out, rec):
        # recognised by its own signature (category of the oracle failure), whether or not the model also disagrees
        # on this case: a change that only breaks the correspondence must not turn the listed finding into a fresh
        # failing input (same defect as audit-3 C11-5; the broken correspondence is reported from the other cases)
        o = rec.get("oracle")
        return isinstance(o, str) and o.startswith("multi-params:")

    # ==================================================================================================
    # kind "maps": the list of maps, one per digestion parameter set, as `python -m picked_group_fdr` and
    # `.quantification` build it (peptide_protein_map.get_peptide_to_protein_maps / _from_args)
    # ==================================================================================================
    @staticmethod
    def _variants(field, base, rng, rules):
        """values of one field that differ from `base`"""
        if field == "enzyme":
            names = list(rules)
            r0 = rules.get(base)
            sib = [n for n in names if r0 and n != base and rules[n]["pre"] == r0["pre"] and rules[n]["post"] == r0["post"]]
            out = sib + [rng.choice(names) for _ in range(3)] + ["trypsin", "lys-c"]
        elif field == "digestion":
            out = ["full", "semi", "none"]
        elif field == "min":
            out = [max(1, base - 1), base + 1, base + 2]
        elif field == "max":
            out = [base + 1, base + 2, base + 5, max(1, base - 1)]
        elif field == "mc":
            out = [0, 1, 2]
        elif field == "special":
            out = list(SPECIALS)
        elif field == "db":
            out = ["target", "decoy", "concat"]
        else:  # met
            out = [True, False]
        out = [x for x in out if x != base]
        rng.shuffle(out)
        return out

    def _gen_maps_case(self, rng):
        rules = rule_table()
        names = list(rules)
        entry = rng.choice(["args"] * 5 + ["objs"] * 3 + ["mapfiles"])
        n = rng.choice([2, 2, 3, 3, 4])
        mn = rng.choice([1, 2, 2, 3, 3, 4, 5, 6])

        def random_set():
            m = rng.choice([1, 2, 2, 3, 3, 4, 5, 6])
            return {
                "enzyme": rng.choice(names + ["trypsin", "trypsin", "lys-c", "lys-n"]),
                "digestion": rng.choice(["full", "full", "full", "semi", "none"]),
                "min": m,
                "max": m + rng.choice([0, 1, 3, 6, 10, 25]),
                "mc": rng.choice([0, 0, 1, 2]),
                "special": rng.choice(["KR", "KR", "none", "K", "KRM", "R"]),
                "db": None,
                "met": None,
            }

        base = random_set()
        base["min"], base["max"] = mn, mn + rng.choice([0, 1, 3, 6, 10, 25])
        fields = list(LIST_FIELDS) + (["db", "db", "met"] if entry == "objs" else [])
        pattern = rng.choice(["one_field"] * 7 + ["two_fields", "identical", "everywhere", "one_set"])
        varied = []
        if pattern == "one_set":
            n = 1
        if pattern in ("one_field", "two_fields"):
            # special-residue settings twice as likely as any other field: they only show in the decoys
            varied = rng.sample(fields + ["special"], 1 if pattern == "one_field" else 2)
        if pattern == "everywhere":
            sets = [base] + [random_set() for _ in range(n - 1)]
        else:
            sets = [dict(base) for _ in range(n)]
            for f in dict.fromkeys(varied):
                b = base[f]
                if f == "db":
                    b = "concat"
                elif f == "met":
                    b = True
                vs = self._variants(f, b, rng, rules)
                for i in range(1, n):
                    # a later set may fall back to the base value: equal sets at a distance
                    sets[i][f] = b if (i > 1 and rng.random() < 0.25) else vs[(i - 1) % len(vs)]
                if f in ("db", "met"):
                    sets[0][f] = b if rng.random() < 0.5 else None
        if rng.random() < 0.01:
            sets[rng.randrange(len(sets))]["enzyme"] = "trypsinx"
        contains_decoys = rng.random() < 0.3
        flags = {"gene_level": rng.random() < 0.3, "uniprot": rng.random() < 0.35, "pseudo": rng.random() < 0.4}
        # --- FASTA files
        al = []
        for st in sets:
            r = rules.get(st["enzyme"], rules["trypsin"])
            for x in alphabet(r, rng)[: 5 if not al else 2]:
                if x not in al:
                    al.append(x)
        if "special" in varied or rng.random() < 0.6:
            for x in "KR":
                if x not in al:
                    al.append(x)
        pieces = ["".join(rng.choice(al) for _ in range(rng.randint(2, 8))) for _ in range(rng.randint(2, 5))]
        idstyle = rng.choice(["plain", "uniprot", "uniprot"])
        files, allseq = self._gen_files(rng, pieces, rng.choice([1, 1, 1, 2]), idstyle, contains_decoys)
        lookups = []
        for _ in range(rng.randint(0, 3)):
            sq = rng.choice(allseq) if allseq else ""
            if rng.random() < 0.4:
                sq = decoy_spec(sq, special_list(base["special"]))
            if sq:
                a = rng.randint(0, len(sq) - 1)
                lookups.append(sq[a : min(len(sq), a + rng.randint(1, 12))])
        case = {"kind": "maps", "entry": entry, "pattern": pattern + (":" + varied[0] if len(varied) == 1 else ""),
                "files": files, "mapfiles": [], "lookups": lookups, "pg": None, "via_files": False}
        # --- a protein-groups file (entrapment marking): usually none
        if rng.random() < 0.15:
            with_entrapment = rng.random() < 0.5
            ids = []
            for f in files:
                for h, _ in f["records"] or []:
                    for rl in PARSE:
                        pid = parse_id_spec(rl, h)
                        if pid:
                            ids.append(pid)
            ids = sorted(set(ids)) or ["P1"]
            groups = []
            for _ in range(rng.randint(1, 3)):
                g = []
                for _ in range(rng.randint(1, 3)):
                    x = rng.choice(ids)
                    if rng.random() < 0.3:
                        x = "REV__" + x
                    if with_entrapment and rng.random() < 0.5:
                        x += "_entrapment"
                    g.append(x)
                groups.append(g)
            case["pg"] = groups
        if entry == "objs":
            case["parse_id"] = rng.choice(["first_space", "first_space", "uniprot", "gene"])
            case["objs"] = [
                {**{f: st[f] for f in LIST_FIELDS}, "contains_decoys": contains_decoys, "db": st["db"], "met": st["met"]}
                for st in sets
            ]
            return case
        # --- option lists as they stand on the command line: an option whose values agree is usually given once
        lists = {}
        for f in LIST_FIELDS:
            vals = [st[f] for st in sets]
            lists[f] = [vals[0]] if (len(set(vals)) == 1 and rng.random() < 0.75) else vals
        if rng.random() < 0.04:
            f = rng.choice(LIST_FIELDS)
            lists[f] = lists[f] + [lists[f][-1]] if rng.random() < 0.6 or len(lists[f]) < 3 else lists[f][:-1]
        case.update(lists=lists, contains_decoys=contains_decoys, flags=flags, parser=rng.choice(["main", "main", "quant"]))
        if entry == "mapfiles":
            case["files"] = []
            case["pg"] = case["pg"] if rng.random() < 0.5 else None
            case["mapfiles"] = [] if rng.random() < 0.03 else [self._gen_mapfile(rng, al) for _ in range(rng.choice([1, 1, 2, 3]))]
        else:
            if rng.random() < 0.1:  # map files next to FASTA files are not looked at
                case["mapfiles"] = [self._gen_mapfile(rng, al)]
            case["via_files"] = rng.random() < 0.7
        return case

    @staticmethod
    def _gen_mapfile(rng, al):
        rows = []
        peps = ["".join(rng.choice(al) for _ in range(rng.randint(1, 7))) for _ in range(rng.randint(1, 4))]
        for _ in range(rng.randint(0, 5)):
            pep = rng.choice(peps)
            prots = [rng.choice(["", "REV__", "CON__"]) + rng.choice(["P1", "P2", "P3", "sp|Q1|N1_X", "G2"]) for _ in range(rng.randint(1, 3))]
            rows.append(pep + "\t" + ";".join(prots))
        if rows and rng.random() < 0.04:
            rows[rng.randrange(len(rows))] = rng.choice(peps)  # a row without a second column
        text = "\r\n".join(rows) + ("\r\n" if rows and rng.random() < 0.9 else "")
        if rng.random() < 0.1:
            text = "﻿" + text
        return text

    # ------------------------------------------------------------------ maps: the real code
    @staticmethod
    def _maps_rule(case):
        return case["parse_id"] if case["entry"] == "objs" else rule_of_flags(case["flags"])

    @staticmethod
    def _maps_sets(case):
        if case["entry"] == "objs":
            return sets_of_objs(case["objs"])
        return sets_of_lists(case["lists"], case["contains_decoys"])

    @staticmethod
    def _option_argv(lists, contains_decoys):
        argv = []
        for f in LIST_FIELDS:
            argv += [OPTION_OF[f], *[str(x) for x in lists[f]]]
        if contains_decoys:
            argv.append("--fasta_contains_decoys")
        return argv

    def _parse_argv(self, case, argv):
        from picked_group_fdr import picked_group_fdr as main_tool, quantification

        if case["parser"] == "quant":
            return quantification.parse_args(argv + ["--protein_groups_out", "unused_out.txt"])
        return main_tool.parse_args(argv)

    def _via_files_applicable(self, case, sets):
        return (
            case["entry"] == "args" and case.get("via_files") and case["pg"] is None and isinstance(sets, list)
            and self._maps_rule(case) == "first_space"
            and all(eff_mode(st["enzyme"], st["digestion"]) != "none" for st in sets)
        )

    def _run_maps(self, case):
        from picked_group_fdr import digest
        from picked_group_fdr import peptide_protein_map as ppm
        from picked_group_fdr.digestion_params import DigestionParams

        out = {}
        sets = self._maps_sets(case)
        with tempfile.TemporaryDirectory(prefix="c09m_") as d:
            paths = self._write_files(case, d)
            mpaths = []
            for i, text in enumerate(case["mapfiles"]):
                mp = os.path.join(d, f"given_map{i}.tsv")
                with open(mp, "wb") as fh:
                    fh.write(text.encode("utf-8"))
                mpaths.append(mp)
            pgpath = None
            if case["pg"] is not None:
                pgpath = os.path.join(d, "proteinGroups.txt")
                with open(pgpath, "w", newline="") as fh:
                    fh.write("Protein IDs\tScore\r\n" + "".join(";".join(g) + f"\t{10 - i}.5\r\n" for i, g in enumerate(case["pg"])))

            def guarded(fn):
                try:
                    return fn()
                except ValueError:
                    # recognised by TYPE and by the condition of the input that the refusal belongs to, never by the
                    # message text (audit-3 X2); the list builder is reached first, then the source of the maps
                    if sets == "unequal_lengths":
                        return {"err": "unequal_lengths"}
                    if not paths and not mpaths:
                        return {"err": "no_input"}
                    return {"err": "value_error"}
                except KeyError as e:
                    if isinstance(sets, list) and any(st["enzyme"] not in digest.ENZYME_CLEAVAGE_RULES for st in sets):
                        return {"err": "unknown_enzyme"}
                    return {"err": "key_error"}
                except (IndexError, AttributeError) as e:
                    return {"err": self._errname(e)}

            if case["entry"] == "objs":
                def build():
                    ps = []
                    for o in case["objs"]:
                        q = DigestionParams(o["enzyme"], o["digestion"], o["min"], o["max"], o["mc"], o["special"], o["contains_decoys"])
                        if o["db"] is not None:
                            q.db = o["db"]
                        if o["met"] is not None:
                            q.methionine_cleavage = o["met"]
                        ps.append(q)
                    return ppm.get_peptide_to_protein_maps(paths, mpaths or None, ps, pgpath, parse_id=self._parse_fn(case["parse_id"]))

                # settings of the real objects where the case leaves them to the constructor (audit-3 C08-6)
                try:
                    real = []
                    for o in case["objs"]:
                        q = DigestionParams(o["enzyme"], o["digestion"], o["min"], o["max"], o["mc"], o["special"], o["contains_decoys"])
                        real.append({"met": q.methionine_cleavage if o["met"] is None else o["met"], "db": q.db if o["db"] is None else o["db"]})
                    out["_rec"] = {"real": real}
                except Exception:
                    out["_rec"] = {"real": None}
            else:
                fl = case["flags"]
                argv = (["--fasta", *paths] if paths else []) + (["--peptide_protein_map", *mpaths] if mpaths else [])
                argv += self._option_argv(case["lists"], case["contains_decoys"])
                argv += (["--gene_level"] if fl["gene_level"] else []) + (["--fasta_use_uniprot_id"] if fl["uniprot"] else [])
                argv += ["--mq_protein_groups", pgpath] if pgpath else []

                def build():
                    return ppm.get_peptide_to_protein_maps_from_args(self._parse_argv(case, argv), fl["pseudo"])

                # the methionine-cleavage setting and database kind of the parameter objects the real list builder makes
                # of this command line (the oracle instantiates the rule with them, audit-3 C08-6)
                try:
                    from picked_group_fdr.digestion_params import get_digestion_params_list

                    out["_rec"] = {"real": [{"met": q.methionine_cleavage, "db": q.db} for q in get_digestion_params_list(self._parse_argv(case, argv))]}
                except BaseException:
                    out["_rec"] = {"real": None}

            res = guarded(build)
            if isinstance(res, dict):
                out["maps"] = res
            else:
                out["maps"] = [self._result_view(digest, m, case["lookups"])[0] for m in res]
            # --- every map written by the digest tool under ITS parameter set, the files handed back to the list
            #     builder through --peptide_protein_map: the maps must come back unchanged
            if isinstance(out["maps"], list) and self._via_files_applicable(case, sets):
                wpaths = []
                for i, st in enumerate(sets):
                    wp = os.path.join(d, f"written_map{i}.tsv")
                    one = {f: [st[f]] for f in LIST_FIELDS}
                    wargv = ["digest", "--fasta", *paths, *self._option_argv(one, case["contains_decoys"]), "--peptide_protein_map", wp]
                    old = sys.argv
                    sys.argv = wargv
                    try:
                        digest.main(wargv[1:])
                    finally:
                        sys.argv = old
                    wpaths.append(wp)
                argv2 = ["--peptide_protein_map", *wpaths] + self._option_argv(case["lists"], case["contains_decoys"])
                back = guarded(lambda: ppm.get_peptide_to_protein_maps_from_args(self._parse_argv(case, argv2), case["flags"]["pseudo"]))
                out["via_files"] = back if isinstance(back, dict) else [{k: list(v) for k, v in dict(m).items()} for m in back]
        return out

    # ------------------------------------------------------------------ maps: the model
    def _maps_request(self, case, impl_out):
        req = {
            "op": "pepmaps",
            "fasta": [self._model_lines(f) for f in case["files"]],
            "mapfiles": case["mapfiles"],
            "groups": case["pg"],
            "lookups": case["lookups"],
            "file_back": isinstance(impl_out, dict) and "via_files" in impl_out,
        }
        if case["entry"] == "objs":
            req["objs"] = {"params": case["objs"], "parse_id": case["parse_id"]}
        else:
            fl = case["flags"]
            req["args"] = dict(case["lists"], contains_decoys=case["contains_decoys"], gene_level=fl["gene_level"],
                               pseudo=fl["pseudo"], uniprot=fl["uniprot"])
        return [req]

    def _maps_view(self, case, resp, impl_out):
        r = resp[0]
        if "maps" not in r:
            return {"maps": r}
        out = {"maps": [
            {"map": {k: v for k, v in m["map"]}, "seqs": None if m["seqs"] is None else {k: v for k, v in m["seqs"]},
             "lookups": m["lookups"]}
            for m in r["maps"]
        ]}
        if isinstance(impl_out, dict) and "via_files" in impl_out:
            fb = [m["file_back"] for m in r["maps"]]
            errs = [x for x in fb if isinstance(x, dict)]
            out["via_files"] = errs[0] if errs else [{k: v for k, v in x} for x in fb]
        return out

    # ------------------------------------------------------------------ maps: the property
    def _maps_oracle(self, case, impl_out):
        if not isinstance(impl_out, dict) or "maps" not in impl_out:
            return "no output"
        maps = impl_out["maps"]
        rules = rule_table()
        sets = self._maps_sets(case)
        if sets == "unequal_lengths":
            return None  # C09 does not say what such a command line means; the refusal is pinned by the model (audit-3 C08-5)
        real = (impl_out.get("_rec") or {}).get("real")
        if isinstance(real, list) and isinstance(sets, list) and len(real) == len(sets):
            for st, q in zip(sets, real):
                if isinstance(q.get("met"), bool):
                    st["met"] = q["met"]
                if q.get("db") in ("concat", "target"):
                    st["db"] = q["db"]
        if not case["files"]:
            # --- the file branch: one map per file, each what the file says
            if not case["mapfiles"]:
                return None  # neither FASTA nor map files: outside the text (model comparison only; audit-3 C09-11)
            if not all(writer_image(t) for t in case["mapfiles"]):
                return None  # hand-made texts the writer never produces: model comparison only (audit-3 C09-10)
            want = [read_map_spec(t) for t in case["mapfiles"]]
            if isinstance(maps, dict):
                return f"reading the map files raised {maps['err']}"
            if len(maps) != len(want):
                return f"{len(want)} map files but {len(maps)} maps"
            for i, (m, w) in enumerate(zip(maps, want)):
                if m["map"] is None:
                    return f"map file {i}: no map was returned ({m.get('not_a_map')})"
                if m["map"] != w or m["seqs"] is not None:
                    return f"map file {i} says {w}, but the map read from it is {m['map']}"
                for q, l in zip(case["lookups"], m["lookups"]):
                    if l != w.get(q, []):
                        return f"map file {i}: lookup of {q!r} returns {l}, the file lists {w.get(q, [])}"
            return None
        # --- the FASTA branch
        if any(f["records"] is None for f in case["files"]) or any(st["enzyme"] not in rules for st in sets):
            return None  # malformed file / unknown enzyme: compared with the model only
        if case["pg"] is not None and any("_entrapment" in x for g in case["pg"] for x in g):
            return None  # entrapment renaming is outside the property text: compared with the model only
        rule = self._maps_rule(case)
        wants = []
        for st in sets:
            recs = [r for f in case["files"] for r in db_records(f["records"], rule, st["db"], special_list(st["special"]))]
            ids = [r[0] for r in recs]
            mode = eff_mode(st["enzyme"], st["digestion"])
            wants.append({"recs": recs, "distinct": len(set(ids)) == len(ids), "mode": mode,
                          "rejects": mode != "none" and any(r[1] == "" for r in recs)})
        if isinstance(maps, dict):
            if maps["err"] == "index_error" and any(w["rejects"] for w in wants):
                return None  # an empty sequence is rejected by full / semi digestion
            return f"building the list of maps raised {maps['err']}"
        if len(maps) != len(sets):
            return f"{len(sets)} digestion parameter sets but {len(maps)} maps"
        for i, (st, w, m) in enumerate(zip(sets, wants, maps)):
            if not w["distinct"]:
                continue
            r = rules[st["enzyme"]]
            hashed = w["mode"] == "none"
            want = listing(w["recs"], (r["pre"], r["not_post"], r["post"]), st["min"], st["max"], w["mode"], st["mc"], st["met"], hashed)
            where = (f"map {i} of {len(sets)} (enzyme={st['enzyme']}, digestion={st['digestion']}, length {st['min']}-{st['max']}, "
                     f"{st['mc']} missed cleavages, special-aas={st['special']}, db={st['db']}, met={st['met']})")
            if m["map"] is None:
                return f"{where}: no map was returned ({m.get('not_a_map')})"
            if m["map"] != want:
                k = next(k for k in sorted(set(m["map"]) | set(want)) if m["map"].get(k) != want.get(k))
                return f"{where}: entry {k!r} is {m['map'].get(k)}, but the proteins of the database whose digestion under THIS parameter set yields it are {want.get(k)}"
            for q, l in zip(case["lookups"], m["lookups"]):
                if isinstance(l, dict):
                    return f"{where}: get_proteins({q!r}) raised {l['err']}"
                if hashed:
                    if st["min"] <= len(q) <= st["max"]:
                        ws = sorted(pid for pid, seq in w["recs"] if q in seq)
                        if sorted(l) != ws:  # "returns exactly the proteins whose sequence contains the peptide": no order (audit-3 C09-8)
                            return f"{where}: non-specific lookup of {q!r}: {l}, but the sequences containing it are {ws}"
                elif l != want.get(q, []):
                    return f"{where}: lookup of {q!r}: {l} differs from the entry {want.get(q, [])}"
        # --- maps written to files under each parameter set and loaded as a list read back unchanged
        if "via_files" in impl_out:
            vf = impl_out["via_files"]
            if isinstance(vf, dict):
                return f"loading the written map files raised {vf['err']}"
            if vf != [m["map"] for m in maps]:
                i = next((i for i, (a, b) in enumerate(zip(vf, maps)) if a != b["map"]), None)
                return f"the maps written per parameter set and loaded through --peptide_protein_map differ from the digested ones (first at {i} of {len(maps)}; {len(vf)} loaded)"
        return None

    def _maps_features(self, case, impl_out):
        f = ["kind=maps", "maps_entry=" + case["entry"], "maps_pattern=" + case["pattern"], "files=%d" % len(case["files"])]
        sets = self._maps_sets(case)
        if isinstance(sets, list):
            f.append("maps_sets=%d" % len(sets))
            for fld in LIST_FIELDS + ("db", "met"):
                if len({str(st[fld]) for st in sets}) > 1:
                    f.append("maps_sets_differ_in=" + fld)
            if len(sets) > 1 and len({json_key(st) for st in sets}) < len(sets):
                f.append("maps_equal_sets_in_list")
            if case["entry"] != "objs" and any(len(v) == 1 for v in case["lists"].values()) and len(sets) > 1:
                f.append("maps_option_given_once_for_all_sets")
        else:
            f.append("maps_unequal_lengths")
        if case["entry"] != "objs":
            f.append("maps_parser=" + case["parser"])
            f.append("parse=" + rule_of_flags(case["flags"]))
        if case["pg"] is not None:
            f.append("maps_protein_groups_file" + ("_with_entrapment" if any("_entrapment" in x for g in case["pg"] for x in g) else ""))
        if case["files"] and case["mapfiles"]:
            f.append("maps_mapfiles_next_to_fasta")
        if isinstance(impl_out, dict):
            m = impl_out.get("maps")
            if isinstance(m, dict):
                f.append("maps_err=" + str(m.get("err")))
            elif isinstance(m, list):
                if len(m) > 1:
                    f.append("maps_all_equal" if all(x["map"] == m[0]["map"] for x in m) else "maps_differ")
                    if isinstance(sets, list) and len(sets) == len(m):
                        sp = [i for i in range(1, len(m)) if {k: v for k, v in sets[i].items() if k != "special"} == {k: v for k, v in sets[0].items() if k != "special"}
                              and sets[i]["special"] != sets[0]["special"] and m[i]["map"] != m[0]["map"]]
                        if sp:
                            f.append("maps_differ_by_special_residues_only")
                if any(x["seqs"] is not None for x in m):
                    f.append("hash_keys")
                if any(isinstance(l, list) and l for x in m for l in x["lookups"]):
                    f.append("lookup_hit")
            if "via_files" in impl_out:
                f.append("maps_written_and_loaded_as_list")
        return f

    def _maps_nontrivial(self, case, impl_out):
        m = impl_out.get("maps") if isinstance(impl_out, dict) else None
        if not isinstance(m, list) or not m:
            return False
        return any(len(v) >= 2 or any(x.startswith("REV__") for x in v) for mm in m for v in mm["map"].values())

    def _maps_shrink(self, case):
        import copy

        if case["entry"] == "objs":
            if len(case["objs"]) > 1:
                for i in range(len(case["objs"])):
                    c = copy.deepcopy(case)
                    del c["objs"][i]
                    yield c
        else:
            n = max(len(v) for v in case["lists"].values())
            if n > 1:
                for i in range(n):
                    c = copy.deepcopy(case)
                    for f in LIST_FIELDS:
                        if len(c["lists"][f]) > 1 and i < len(c["lists"][f]):
                            del c["lists"][f][i]
                    yield c
            for f in LIST_FIELDS:  # an option given once -> written out for every set, and the other way round
                if len(case["lists"][f]) > 1 and len(set(map(str, case["lists"][f]))) == 1:
                    c = copy.deepcopy(case)
                    c["lists"][f] = c["lists"][f][:1]
                    yield c
        for flag, empty in (("via_files", False), ("pg", None)):
            if case.get(flag):
                c = copy.deepcopy(case)
                c[flag] = empty
                yield c
        if case["files"] and case["mapfiles"]:
            c = copy.deepcopy(case)
            c["mapfiles"] = []
            yield c
        if not case["files"] and len(case["mapfiles"]) > 1:
            for i in range(len(case["mapfiles"])):
                c = copy.deepcopy(case)
                del c["mapfiles"][i]
                yield c

    # ------------------------------------------------------------------ bookkeeping
    def nontrivial(self, case, impl_out):
        if case["kind"] == "maps":
            return self._maps_nontrivial(case, impl_out)
        if not isinstance(impl_out, dict) or "map" not in impl_out.get("main", {}):
            return False
        m = impl_out["main"]["map"]
        return any(len(v) >= 2 or any(x.startswith("REV__") for x in v) for v in m.values())

    def features(self, case, impl_out):
        if case["kind"] == "maps":
            return self._maps_features(case, impl_out)
        f = ["kind=" + case["kind"], "files=%d" % len(case["files"]), "parse=" + case["parse_id"]]
        if any(fl["records"] is None for fl in case["files"]):
            f.append("malformed_file")
        if any(fl["crlf"] for fl in case["files"]):
            f.append("crlf")
        if case["kind"] == "params":
            f.append("params=%d" % len(case["params"]))
            for p in case["params"]:
                f.append("mode=" + eff_mode(p["enzyme"], p["digestion"]))
            f.append("db=" + ("target" if case["params"][0]["contains_decoys"] else "concat"))
            f.append("special=" + case["params"][0]["special"])
        else:
            f.append("db=" + case["db"])
            f.append("mode=" + (case["digestion"] if case["digestion"] in ("semi", "none") else "full"))
        if isinstance(impl_out, dict):
            main = impl_out.get("main", {})
            if "err" in main:
                f.append("err=" + str(main["err"]))
            else:
                n = len(main.get("map", {}))
                f.append("map_size=%s" % (0 if n == 0 else "1-2" if n <= 2 else "3-20" if n <= 20 else "21+"))
                if main.get("seqs") is not None:
                    f.append("hash_keys")
                if any(len(v) != len(set(v)) for v in main.get("map", {}).values()):
                    f.append("protein_listed_twice")
                if any(isinstance(l, list) and l for l in main.get("lookups", [])):
                    f.append("lookup_hit")
            if "ibaq" in impl_out:
                f.append("ibaq" if "counts" in impl_out["ibaq"] else "ibaq_err")
            if "mapfile" in impl_out:
                f.append("mapfile_roundtrip")
            if "permaps" in impl_out:
                f.append("pipeline_maps_per_parameter_set")
            if "tool" in impl_out:
                f.append("digest_tool_map_alone+ibaq_alone+both")
                if impl_out["tool"]["both"]["map"] and impl_out["mapfile"]["back"] != {}:
                    f.append("digest_tool_both_nonempty_map")
            for st in impl_out.get("seq", []) if isinstance(impl_out.get("seq"), list) else []:
                if st["changed_fields"]:
                    f.append("args_rewritten_by=" + st["op"])
                if st["op"] == "map" and not st["at_requested"]:
                    f.append("map_call_on_rewritten_params")
            if "seq" in impl_out:
                f.append("seq=" + ">".join(case["seq"]))
            if impl_out.get("fasta", {}).get("err"):
                f.append("fasta_err=" + impl_out["fasta"]["err"])
        return f

    def shrink(self, case):
        import copy

        if case["kind"] == "maps":
            yield from self._maps_shrink(case)
        if case["kind"] == "params":
            if len(case["params"]) > 1:
                for i in range(len(case["params"])):
                    c = copy.deepcopy(case)
                    del c["params"][i]
                    yield c
            for flag in ("ibaq", "mapfile", "seq"):
                if case.get(flag):
                    c = copy.deepcopy(case)
                    c[flag] = False
                    yield c
        if len(case["files"]) > 1:
            for i in range(len(case["files"])):
                c = copy.deepcopy(case)
                del c["files"][i]
                yield c
        if case["lookups"]:
            c = copy.deepcopy(case)
            c["lookups"] = []
            yield c
        for fi, f in enumerate(case["files"]):
            if f["records"] is not None and len(f["records"]) > 1:
                for ri in range(len(f["records"])):
                    c = copy.deepcopy(case)
                    del c["files"][fi]["records"][ri]
                    c["files"][fi]["lines"] = [x for h, s in c["files"][fi]["records"] for x in ([">" + h] + ([s] if s else []))]
                    c["files"][fi]["crlf"] = False
                    yield c
            if f["records"] is not None:
                for ri, (h, s) in enumerate(f["records"]):
                    if len(s) > 1:
                        for cut in (s[: len(s) // 2], s[len(s) // 2 :], s[1:], s[:-1]):
                            c = copy.deepcopy(case)
                            c["files"][fi]["records"][ri][1] = cut
                            c["files"][fi]["lines"] = [x for hh, ss in c["files"][fi]["records"] for x in ([">" + hh] + ([ss] if ss else []))]
                            c["files"][fi]["crlf"] = False
                            yield c
