"""C09 — peptide-to-protein map, decoy database and iBAQ peptide numbers are exact.

Correspondence: temp FASTA files (random line wrapping, blank lines, trailing blanks, CRLF, several files,
special-residue settings, target and concat, three identifier rules, rare malformed files) through

  digest.get_peptide_to_protein_map_from_params (DigestionParams built by the real class),
  digest.get_peptide_to_protein_map (direct, incl. db="decoy"), digest.read_fasta_maxquant,
  digest.get_proteins, digest.get_num_ibaq_peptides_per_protein,
  digest.main --peptide_protein_map (writer) -> digest.get_peptide_to_protein_map_from_file (reader)

against the Lean model PgFdr.C09 (ops pepmap, pepmap1, fasta, ibaq, mapfile).  Maps are compared as dicts
(peptide order is not part of the property) with the protein LISTS compared exactly (order and repeats).

Oracle: from the abstract records the generator rendered (not from the lines): identifiers by the chosen rule,
decoys = reversed sequence with the sequential special-residue swap, per-record brute-force substring
digestion with the declarative rule of C08, "each once and in database order".
"""
import os
import sys
import tempfile

import lib
from lib import Prop

from props.C08 import spec as digest_spec, alphabet, rule_table

PARSE = ("first_space", "uniprot", "gene")


# ------------------------------------------------------------------------------------------
# independent statements
# ------------------------------------------------------------------------------------------
def parse_id_spec(rule, header):
    first = header.split(" ")[0]
    if rule == "first_space":
        return first
    if rule == "uniprot":
        return first.split("|")[1] if "|" in first else first
    if " GN=" in header:
        return header.split(" GN=")[1].split(" ")[0]
    return None


def decoy_spec(seq, special):
    s = list(seq[::-1])
    for i in range(1, len(s)):
        if s[i] in special:
            s[i], s[i - 1] = s[i - 1], s[i]
    return "".join(s)


def db_records(records, rule, db, special):
    """(id, seq) in database order for one file"""
    out = []
    for header, seq in records:
        pid = parse_id_spec(rule, header)
        if not pid:
            continue
        if db in ("target", "concat"):
            out.append((pid, seq))
        if db in ("decoy", "concat"):
            out.append(("REV__" + pid, decoy_spec(seq, special) if special else seq[::-1]))
    return out


def eff_mode(enzyme, digestion):
    if enzyme == "no_enzyme":
        return "none"
    return digestion if digestion in ("semi", "none") else "full"


def listing(recs, rule3, mn, mx, mode, mc, met, use_hash):
    """expected map of ONE (file, parameter set): key -> [ids in database order, each once]"""
    pre, npost, post = rule3
    out = {}
    for pid, seq in recs:
        peps = digest_spec(seq, max(mn, 1), mx, pre, npost, post, mc, met, mode)
        keys = {p[:6] for p in peps} if use_hash else peps
        for k in keys:
            out.setdefault(k, []).append(pid)
    return out


def special_list(s):
    return [] if s == "none" else list(s)


def render(records, rng, style):
    lines = []
    if style.get("junk_before"):
        lines.append("JUNKLINE")
    for header, seq in records:
        lines.append(">" + header + (rng.choice(["", " ", "\t"]) if style.get("trailing") else ""))
        w = rng.choice([1, 2, 3, 5, 7, 60, 60]) if seq else 60
        for a in range(0, len(seq), w):
            lines.append(seq[a : a + w] + (rng.choice(["", "", " ", "  \t"]) if style.get("trailing") else ""))
        if rng.random() < 0.2:
            lines.append("")
    return lines


# call sequences on the SAME DigestionParams objects: "map" = get_peptide_to_protein_map_from_params,
# "ibaq_num" = get_num_ibaq_peptides_per_protein, "ibaq_map" = get_ibaq_peptide_to_protein_map
SEQUENCES = [
    ["ibaq_num", "map"], ["ibaq_map", "map"], ["map", "ibaq_num"], ["map", "ibaq_num", "map"], ["map", "map"],
    ["ibaq_num", "ibaq_map"], ["ibaq_map", "map", "ibaq_num"], ["map", "ibaq_map", "ibaq_num"],
]
# invocations of the digest tool: (name, --peptide_protein_map given, --ibaq_map given)
TOOL_MODES = [("map", True, False), ("ibaq", False, True), ("both", True, True)]
NOT_AT_REQUESTED = "parameter objects were rewritten by an earlier call"


def counts_of_map(m):
    """peptide numbers per protein of a peptide -> proteins map (each protein once per peptide)"""
    c = {}
    for _, prots in m.items():
        for q in dict.fromkeys(prots):
            c[q] = c.get(q, 0) + 1
    return c


class P(Prop):
    id = "C09"
    # True: a map call on parameter objects that an earlier iBAQ call rewrote must still return the map of the REQUESTED
    # values.  The tree at HEAD rewrites its arguments in get_ibaq_peptide_to_protein_map (notes/C09.md, round 3), the
    # property text does not speak about argument objects, so this is recorded (feature "args_rewritten_by=") and every
    # such call is only required to be a function of the field values it reads (same result on fresh objects).
    strict_requested_params = False
    quick_cases = 4000
    thorough_cases = 50000
    chunk = 100
    rule = (
        "one case = 1-3 FASTA files of 1-5 records (sequences of 2-31 residues, 1% empty, built from a shared pool of 2-5 pieces over a "
        "per-enzyme 5-letter alphabet so that proteins share peptides; identifiers P<i> / sp|Q<i>|N<i>_X with and without "
        "GN=; wrapping width 1-60, blank lines, trailing blanks, CRLF, missing final newline; 4% malformed: bare '>' lines, "
        "'> x' headers, text before the first header) x 1-3 DigestionParams (enzyme of the table, full/semi/none, window, "
        "budget, special residues KR/K/KRM/none, fasta_contains_decoys) x identifier rule x lookups x per-parameter-set maps x iBAQ x map-file round trip; "
        "25% direct get_peptide_to_protein_map calls incl. db=decoy; non-trivial = a non-empty map with a peptide listed by "
        ">= 2 proteins or a decoy; distinct by sha1 of the case"
    )
    assumptions = [
        "FASTA text is ASCII; Python's text-mode line iteration splits at \\n after universal-newline translation",
        "csv writer/reader (tab, QUOTE_MINIMAL, \\r\\n) only on fields without tab, quote, CR, LF (generated identifiers are such)",
        "identifiers distinct within a case for the 'each once, database order' statement (cases with repeated identifiers are compared with the model only)",
    ]
    trusted_extra = ["fixes/C10-two-peptide-digest-map.diff is assumed applied (the (map, sequences) pair recognised by type)"]

    # ------------------------------------------------------------------ generation
    def gen_case(self, rng, tier):
        rules = rule_table()
        names = list(rules)
        direct = rng.random() < 0.25
        nparams = 1 if direct else rng.choice([1, 1, 1, 1, 2, 2, 3])
        contains_decoys = rng.random() < 0.3
        special = rng.choice(["KR", "KR", "none", "K", "KRM"])
        params = []
        for _ in range(nparams):
            enzyme = rng.choice(names + ["trypsin", "trypsin", "lys-c", "lys-n", "no_enzyme", "chymotrypsin+"])
            mn = rng.choice([1, 2, 2, 3, 3, 4, 5, 6, 6, 7])
            mx = mn + rng.choice([0, 1, 3, 6, 10, 25, 50])
            params.append(
                {
                    "enzyme": enzyme,
                    "digestion": rng.choice(["full", "full", "full", "semi", "none"]),
                    "min": mn,
                    "max": mx,
                    "mc": rng.choice([0, 0, 1, 2]),
                    "special": special,
                    "contains_decoys": contains_decoys,
                }
            )
        if nparams > 1 and rng.random() < 0.35:
            # parameter sets that differ in exactly ONE field (a sibling enzyme with the same pre/post but another
            # not_post, one more missed cleavage, another window, another mode): anything remembered between the
            # per-parameter-set digests under a key that forgets that field shows here
            q = dict(params[0])
            field = rng.choice(["enzyme", "enzyme", "mc", "min", "max", "digestion"])
            if field == "enzyme":
                r0 = rules[q["enzyme"]]
                sib = [n for n in names if n != q["enzyme"] and rules[n]["pre"] == r0["pre"] and rules[n]["post"] == r0["post"]]
                q["enzyme"] = rng.choice(sib) if sib else rng.choice(names)
            elif field == "mc":
                q["mc"] = (q["mc"] + 1) % 3
            elif field == "min":
                q["min"] = max(1, q["min"] + rng.choice([-1, 1]))
                q["max"] = max(q["max"], q["min"])
            elif field == "max":
                q["max"] = q["max"] + rng.choice([1, 2])
            else:
                q["digestion"] = "semi" if q["digestion"] == "full" else "full"
            params[1] = q
        if nparams > 1 and rng.random() < 0.85:
            # keep hash-key (non-specific) and plain parameter sets apart (the code's own TODO)
            hashy = [eff_mode(p["enzyme"], p["digestion"]) == "none" for p in params]
            if any(hashy) and not all(hashy):
                for p in params:
                    if eff_mode(p["enzyme"], p["digestion"]) == "none":
                        p["enzyme"], p["digestion"] = "lys-c", "full"
        al = alphabet(rules[params[0]["enzyme"]], rng)
        for p in params[1:]:
            for x in alphabet(rules[p["enzyme"]], rng)[:2]:
                if x not in al:
                    al.append(x)
        pieces = ["".join(rng.choice(al) for _ in range(rng.randint(2, 8))) for _ in range(rng.randint(2, 5))]
        nfiles = 1 if direct else rng.choice([1, 1, 1, 2, 3])
        idstyle = rng.choice(["plain", "uniprot", "uniprot"])
        files, k, allseq = [], 0, []
        for _ in range(nfiles):
            recs = []
            for _ in range(rng.randint(1, 5)):
                k += 1
                seq = "".join(rng.choice(pieces) for _ in range(rng.choice([1, 2, 2, 3, 4, 5, 6])))[:30]
                if rng.random() < 0.3:
                    seq = "M" + seq
                if rng.random() < 0.012:
                    seq = ""
                pid = f"P{k}" if idstyle == "plain" else f"sp|Q{k}|N{k}_X"
                if contains_decoys and rng.random() < 0.4:
                    pid = "REV__" + pid
                if rng.random() < 0.03 and k > 1:
                    pid = "P1" if idstyle == "plain" else "sp|Q1|N1_X"  # repeated identifier
                header = pid + rng.choice(["", " desc", f" Protein {k} OS=x GN=G{rng.randint(1, 4)} PE=1", f" desc GN=G{k}"])
                recs.append([header, seq])
                allseq.append(seq)
            style = {"trailing": rng.random() < 0.3}
            lines = render(recs, rng, style)
            wellformed = True
            if rng.random() < 0.04:
                wellformed = False
                kind = rng.choice(["bare", "bare_then_header", "space_header", "junk_before"])
                if kind == "bare":
                    lines.insert(rng.randint(0, len(lines)), ">")
                elif kind == "bare_then_header":
                    pos = rng.choice([i for i, l in enumerate(lines) if l.startswith(">")])
                    lines.insert(pos, ">")
                elif kind == "space_header":
                    lines.insert(rng.randint(0, len(lines)), "> no identifier")
                else:
                    lines.insert(0, "JUNK")
            files.append(
                {
                    "lines": lines,
                    "records": recs if wellformed else None,
                    "crlf": rng.random() < 0.15,
                    "final_newline": rng.random() < 0.85,
                }
            )
        lookups = []
        for _ in range(rng.randint(1, 4)):
            s = rng.choice(allseq) if allseq else ""
            if rng.random() < 0.4:
                s = decoy_spec(s, special_list(special))
            if s:
                a = rng.randint(0, len(s) - 1)
                b = min(len(s), a + rng.randint(1, 12))
                lookups.append(s[a:b])
            else:
                lookups.append("".join(rng.choice(al) for _ in range(rng.randint(1, 8))))
        parse_id = rng.choice(["first_space", "first_space", "uniprot", "gene"])
        case = {"files": files, "parse_id": parse_id, "lookups": lookups, "flag_variant": rng.randint(0, 1)}
        if direct:
            p = params[0]
            r = rules[p["enzyme"]]
            case.update(
                kind="direct",
                db=rng.choice(["target", "decoy", "concat", "concat"]),
                pre="".join(r["pre"]),
                not_post="".join(r["not_post"]),
                post="".join(r["post"]),
                digestion=p["digestion"],
                min=p["min"],
                max=p["max"],
                mc=p["mc"],
                met=rng.random() < 0.6,
                hash=(p["digestion"] == "none") if rng.random() < 0.9 else rng.random() < 0.5,
                special="" if special == "none" else special,
            )
        else:
            case.update(kind="params", params=params, ibaq=rng.random() < 0.5, mapfile=rng.random() < 0.4)
            # call sequences on ONE list of DigestionParams objects (what digest.main and other callers do)
            case["seq"] = rng.choice(SEQUENCES) if rng.random() < 0.35 else None
        return case

    # ------------------------------------------------------------------ implementation
    @staticmethod
    def _write_files(case, d):
        paths = []
        for i, f in enumerate(case["files"]):
            nl = "\r\n" if f["crlf"] else "\n"
            text = nl.join(f["lines"]) + (nl if f["final_newline"] and f["lines"] else "")
            p = os.path.join(d, f"f{i}.fasta")
            with open(p, "w", newline="") as fh:
                fh.write(text)
            paths.append(p)
        return paths

    @staticmethod
    def _parse_fn(name):
        from picked_group_fdr import digest, protein_annotation

        return {
            "first_space": digest.parse_until_first_space,
            "uniprot": protein_annotation.parse_uniprot_id,
            "gene": protein_annotation.parse_gene_name_func,
        }[name]

    @staticmethod
    def _errname(e):
        return {IndexError: "index_error", AttributeError: "attribute_error", KeyError: "key_error"}.get(type(e))

    def _mk_params(self, case):
        from picked_group_fdr.digestion_params import DigestionParams

        return [
            DigestionParams(p["enzyme"], p["digestion"], p["min"], p["max"], p["mc"], p["special"], p["contains_decoys"])
            for p in case["params"]
        ]

    def _result_view(self, digest, res, lookups):
        if isinstance(res, tuple):
            m, seqs = dict(res[0]), dict(res[1])
        else:
            m, seqs = dict(res), None
        lk = []
        for q in lookups:
            try:
                lk.append(list(digest.get_proteins(res, q)))
            except (KeyError, IndexError, AttributeError) as e:
                lk.append({"err": self._errname(e)})
        return {"map": {k: list(v) for k, v in m.items()}, "seqs": seqs, "lookups": lk}, list(m.items())

    def run_impl(self, case):
        from picked_group_fdr import digest

        out = {}
        with tempfile.TemporaryDirectory(prefix="c09_") as d:
            paths = self._write_files(case, d)
            fn = self._parse_fn(case["parse_id"])
            # --- read_fasta_maxquant on the first file
            fdb = case.get("db", "concat")
            fspecial = list(case["special"]) if case["kind"] == "direct" else special_list(case["params"][0]["special"])
            recs, ferr = [], None
            try:
                for r in digest.read_fasta_maxquant(paths[0], fdb, fn, special_aas=fspecial):
                    recs.append([r[0], r[1]])
            except (IndexError, AttributeError) as e:
                ferr = self._errname(e)
            out["fasta"] = {"records": recs, "err": ferr}
            # --- the map
            items = None
            try:
                if case["kind"] == "direct":
                    res = digest.get_peptide_to_protein_map(
                        paths[0],
                        db=case["db"],
                        min_len=case["min"],
                        max_len=case["max"],
                        pre=list(case["pre"]),
                        not_post=list(case["not_post"]),
                        post=list(case["post"]),
                        digestion=case["digestion"],
                        miscleavages=case["mc"],
                        methionine_cleavage=case["met"],
                        use_hash_key=case["hash"],
                        special_aas=list(case["special"]),
                        parse_id=fn,
                    )
                else:
                    res = digest.get_peptide_to_protein_map_from_params(paths, self._mk_params(case), parse_id=fn)
                out["main"], items = self._result_view(digest, res, case["lookups"])
            except (IndexError, AttributeError, KeyError) as e:
                name = self._errname(e)
                if isinstance(e, KeyError) and case["kind"] == "params" and any(
                    p["enzyme"] not in digest.ENZYME_CLEAVAGE_RULES for p in case["params"]
                ):
                    name = "unknown_enzyme"
                out["main"] = {"err": name}
            # --- the pipeline's path: one map per parameter set (peptide_protein_map.get_peptide_to_protein_maps)
            if case["kind"] == "params" and len(case["params"]) > 1 and "map" in out["main"]:
                from picked_group_fdr import peptide_protein_map as ppm

                try:
                    # through the command line's option handling (get_peptide_to_protein_maps_from_args): the flags
                    # are chosen so that the identifier rule they select is this case's rule
                    import argparse

                    ps = case["params"]
                    variant = bool(case.get("flag_variant", 0))
                    rule = case["parse_id"]
                    gene_level = True if rule == "gene" else variant
                    uniprot = True if rule == "uniprot" else (variant if rule == "gene" else False)
                    pseudo = False if rule == "gene" else True
                    args = argparse.Namespace(
                        fasta=paths, peptide_protein_map=None, mq_protein_groups=None,
                        enzyme=[p["enzyme"] for p in ps], digestion=[p["digestion"] for p in ps],
                        min_length=[p["min"] for p in ps], max_length=[p["max"] for p in ps],
                        cleavages=[p["mc"] for p in ps], special_aas=[p["special"] for p in ps],
                        fasta_contains_decoys=bool(ps[0]["contains_decoys"]),
                        gene_level=gene_level, fasta_use_uniprot_id=uniprot,
                    )
                    maps = ppm.get_peptide_to_protein_maps_from_args(args, pseudo)
                    out["permaps"] = [self._result_view(digest, m, [])[0] for m in maps]
                except (IndexError, AttributeError, KeyError) as e:
                    out["permaps"] = {"err": self._errname(e)}
            # --- iBAQ numbers
            if case.get("ibaq"):
                try:
                    c = digest.get_num_ibaq_peptides_per_protein(paths, self._mk_params(case), parse_id=fn)
                    out["ibaq"] = {"counts": {k: int(v) for k, v in c.items()}}
                except (IndexError, AttributeError, KeyError) as e:
                    out["ibaq"] = {"err": self._errname(e)}
            # --- the digest tool: each output option alone and both in one invocation
            if self._mapfile_applicable(case) and isinstance(out["main"], dict) and "map" in out["main"]:
                ps = case["params"]
                base = ["digest", "--fasta", *paths]
                base += ["--enzyme", *[p["enzyme"] for p in ps], "--digestion", *[p["digestion"] for p in ps]]
                base += ["--min-length", *[str(p["min"]) for p in ps], "--max-length", *[str(p["max"]) for p in ps]]
                base += ["--cleavages", *[str(p["mc"]) for p in ps], "--special-aas", *[p["special"] for p in ps]]
                if ps[0]["contains_decoys"]:
                    base.append("--fasta_contains_decoys")
                tool = {}
                for name, want_map, want_ibaq in TOOL_MODES:
                    mf, bf = os.path.join(d, f"map_{name}.tsv"), os.path.join(d, f"ibaq_{name}.tsv")
                    argv = base + (["--peptide_protein_map", mf] if want_map else []) + (["--ibaq_map", bf] if want_ibaq else [])
                    old = sys.argv
                    sys.argv = argv
                    err = None
                    try:
                        digest.main(argv[1:])
                    except (IndexError, AttributeError, KeyError) as e:
                        if not want_ibaq:
                            raise
                        err = self._errname(e)
                    finally:
                        sys.argv = old
                    r = {}
                    if want_map and os.path.exists(mf):
                        with open(mf, "rb") as fh:
                            text = fh.read().decode("utf-8")
                        back = digest.get_peptide_to_protein_map_from_file(mf, use_hash_key=False)
                        r["map"] = {"text": text, "back": {k: list(v) for k, v in back.items()}}
                    if want_ibaq:
                        if err is not None or not os.path.exists(bf):
                            r["ibaq"] = {"err": err or "no_file"}
                        else:
                            with open(bf, "rb") as fh:
                                btext = fh.read().decode("utf-8")
                            rows = [l.split("\t") for l in btext.split("\r\n")[:-1]]
                            wellformed = btext.endswith("\r\n") or btext == ""
                            wellformed = wellformed and all(len(x) == 2 and x[1].isdigit() for x in rows) and len({x[0] for x in rows}) == len(rows)
                            r["ibaq"] = {"counts": {x[0]: int(x[1]) for x in rows if len(x) == 2 and x[1].isdigit()}, "wellformed": wellformed}
                    tool[name] = r
                out["mapfile"] = tool["map"]["map"]
                out["tool"] = {"ibaq": tool["ibaq"]["ibaq"], "both": {"map": tool["both"].get("map"), "ibaq": tool["both"]["ibaq"]}}
            # --- call sequences on ONE list of parameter objects
            if case["kind"] == "params" and case.get("seq") and isinstance(out["main"], dict) and "map" in out["main"]:
                out["seq"] = self._run_seq(digest, case, paths, fn)
            out["_rec"] = {"items": items}
        return out

    def _run_seq(self, digest, case, paths, fn):
        """the calls of case["seq"] one after the other on ONE list of DigestionParams objects; per call: the field
        values the objects had when it started, whether it changed them, its result, and whether the SAME call on fresh
        objects carrying those field values returns the same (no hidden state)"""
        import copy

        def snap(ps):
            return [copy.deepcopy(vars(p)) for p in ps]

        def call(op, ps):
            try:
                if op == "map":
                    res = digest.get_peptide_to_protein_map_from_params(paths, ps, parse_id=fn)
                    m = res[0] if isinstance(res, tuple) else res
                    return {"map": {k: list(v) for k, v in m.items()}}
                if op == "ibaq_num":
                    return {"counts": {k: int(v) for k, v in digest.get_num_ibaq_peptides_per_protein(paths, ps, parse_id=fn).items()}}
                res = digest.get_ibaq_peptide_to_protein_map(paths, ps, parse_id=fn)
                m = res[0] if isinstance(res, tuple) else res
                return {"counts": counts_of_map(m)}
            except (IndexError, AttributeError, KeyError) as e:
                return {"err": self._errname(e)}

        ps = self._mk_params(case)
        requested = snap(ps)
        steps = []
        for op in case["seq"]:
            before = snap(ps)
            res = call(op, ps)
            after = snap(ps)
            fresh = self._mk_params(case)
            for p, b in zip(fresh, copy.deepcopy(before)):
                p.__dict__.clear()
                p.__dict__.update(b)
            ref = call(op, fresh)
            changed = sorted({k for b, a in zip(before, after) for k in set(b) | set(a) if b.get(k) != a.get(k)})
            steps.append({"op": op, "at_requested": before == requested, "changed_fields": changed, "result": res,
                          "same_on_fresh_objects": res == ref})
        return steps

    @staticmethod
    def _mapfile_applicable(case):
        return (
            case["kind"] == "params"
            and case.get("mapfile")
            and case["parse_id"] == "first_space"
            and all(eff_mode(p["enzyme"], p["digestion"]) != "none" for p in case["params"])
        )

    @staticmethod
    def _model_lines(f):
        """the lines Python's text-mode iteration yields for the file written from `f` (a trailing empty element of
        `lines` without a final newline is no line of the file)"""
        text = "\n".join(f["lines"]) + ("\n" if f["final_newline"] and f["lines"] else "")
        parts = text.split("\n")
        if parts and parts[-1] == "":
            parts.pop()
        return parts

    # ------------------------------------------------------------------ model
    def model_request(self, case, impl_out):
        files = [self._model_lines(f) for f in case["files"]]
        reqs = []
        if case["kind"] == "direct":
            reqs.append({"op": "fasta", "lines": files[0], "db": case["db"], "special": case["special"], "parse_id": case["parse_id"]})
            reqs.append(
                {
                    "op": "pepmap1",
                    "lines": files[0],
                    "db": case["db"],
                    "min": case["min"],
                    "max": case["max"],
                    "pre": case["pre"],
                    "not_post": case["not_post"],
                    "post": case["post"],
                    "digestion": case["digestion"],
                    "mc": case["mc"],
                    "met": case["met"],
                    "hash": case["hash"],
                    "special": case["special"],
                    "parse_id": case["parse_id"],
                    "lookups": case["lookups"],
                }
            )
        else:
            sp = case["params"][0]["special"]
            reqs.append({"op": "fasta", "lines": files[0], "db": "concat", "special": "" if sp == "none" else sp, "parse_id": case["parse_id"]})
            reqs.append({"op": "pepmap", "files": files, "params": case["params"], "parse_id": case["parse_id"], "lookups": case["lookups"]})
        if isinstance(impl_out, dict) and "permaps" in impl_out:
            for p in case["params"]:
                reqs.append({"op": "pepmap", "files": files, "params": [p], "parse_id": case["parse_id"], "lookups": []})
        if self._needs_ibaq(case, impl_out):
            reqs.append({"op": "ibaq", "files": files, "params": case["params"], "parse_id": case["parse_id"]})
        if isinstance(impl_out, dict) and "mapfile" in impl_out:
            reqs.append({"op": "mapfile", "map": [[k, list(v)] for k, v in impl_out["_rec"]["items"]]})
        return reqs

    @staticmethod
    def _needs_ibaq(case, impl_out):
        return bool(case.get("ibaq")) or (isinstance(impl_out, dict) and ("tool" in impl_out or "seq" in impl_out))

    def model_view(self, case, resp, impl_out):
        out = {}
        it = iter(resp)
        fa = next(it)
        out["fasta"] = {"records": fa.get("records"), "err": fa.get("err")} if "records" in fa else fa
        m = next(it)
        if "map" in m:
            out["main"] = {
                "map": {k: v for k, v in m["map"]},
                "seqs": None if m["seqs"] is None else {k: v for k, v in m["seqs"]},
                "lookups": m["lookups"],
            }
        else:
            out["main"] = m
        if isinstance(impl_out, dict) and "permaps" in impl_out:
            pm = []
            for _ in case["params"]:
                m1 = next(it)
                if "map" in m1:
                    pm.append({"map": {k: v for k, v in m1["map"]}, "seqs": None if m1["seqs"] is None else {k: v for k, v in m1["seqs"]}, "lookups": []})
                else:
                    pm.append(m1)
            errs = [x for x in pm if "err" in x]
            out["permaps"] = errs[0] if errs else pm
        mib = None
        if self._needs_ibaq(case, impl_out):
            c = next(it)
            mib = {"counts": {k: v for k, v in c["counts"]}} if "counts" in c else c
            if case.get("ibaq"):
                out["ibaq"] = mib
        if isinstance(impl_out, dict) and "mapfile" in impl_out:
            f = next(it)
            if "text" in f:
                out["mapfile"] = {"text": f["text"], "back": {k: v for k, v in f["back"]} if isinstance(f["back"], list) else f["back"]}
            else:
                out["mapfile"] = f
        if isinstance(impl_out, dict) and "tool" in impl_out:
            # what the tool must write for the REQUESTED parameters, whichever other output it was asked for: the map file of
            # the map-only invocation (model text of the requested map) and the model's iBAQ numbers
            mi = dict(mib, wellformed=True) if "counts" in mib else mib
            out["tool"] = {"ibaq": mi, "both": {"map": out["mapfile"], "ibaq": mi}}
        if isinstance(impl_out, dict) and "seq" in impl_out:
            mm = {"map": out["main"]["map"]} if "map" in out["main"] else out["main"]
            steps = []
            for st in impl_out["seq"]:
                if st["op"] == "map":
                    at = st["at_requested"] or self.strict_requested_params
                    steps.append({"op": "map", "result": mm if at else NOT_AT_REQUESTED, "same_on_fresh_objects": True})
                else:  # the iBAQ window is a clamp of the requested one: the same for every earlier iBAQ call
                    steps.append({"op": st["op"], "result": mib, "same_on_fresh_objects": True})
            out["seq"] = steps
        return out

    def impl_view(self, case, impl_out):
        v = super().impl_view(case, impl_out)
        if isinstance(v, dict) and "seq" in v:
            v = dict(v)
            v["seq"] = [
                {"op": st["op"], "same_on_fresh_objects": st["same_on_fresh_objects"],
                 "result": st["result"] if (st["op"] != "map" or st["at_requested"] or self.strict_requested_params) else NOT_AT_REQUESTED}
                for st in v["seq"]
            ]
        return v

    # ------------------------------------------------------------------ the property
    def _expected(self, case):
        """(jobs listings, db records per file, distinct ids?) or None when a file is malformed"""
        if any(f["records"] is None for f in case["files"]):
            return None
        rules = rule_table()
        if case["kind"] == "direct":
            special = list(case["special"])
            recs = [db_records(case["files"][0]["records"], case["parse_id"], case["db"], special)]
            mode = case["digestion"] if case["digestion"] in ("semi", "none") else "full"
            jobs = [
                (0, listing(recs[0], (list(case["pre"]), list(case["not_post"]), list(case["post"])), case["min"], case["max"], mode, case["mc"], case["met"], case["hash"]))
            ]
            hashed = [case["hash"] and mode == "none"]
            windows = [(case["min"], case["max"])]
            plain = [not case["hash"]]
        else:
            p0 = case["params"][0]
            db = "target" if p0["contains_decoys"] else "concat"
            special = special_list(p0["special"])
            recs = [db_records(f["records"], case["parse_id"], db, special) for f in case["files"]]
            jobs, hashed, windows, plain = [], [], [], []
            for fi in range(len(case["files"])):
                for p in case["params"]:
                    if p["enzyme"] not in rules:
                        return None
                    r = rules[p["enzyme"]]
                    mode = eff_mode(p["enzyme"], p["digestion"])
                    jobs.append((fi, listing(recs[fi], (r["pre"], r["not_post"], r["post"]), p["min"], p["max"], mode, p["mc"], True, mode == "none")))
            for p in case["params"]:
                hashed.append(eff_mode(p["enzyme"], p["digestion"]) == "none")
                plain.append(not hashed[-1])
                windows.append((p["min"], p["max"]))
        return jobs, recs, hashed, windows, plain

    def oracle(self, case, impl_out):
        if not isinstance(impl_out, dict) or "main" not in impl_out:
            return "no output"
        exp = self._expected(case)
        if exp is None:
            return None  # malformed file / unknown enzyme: compared with the model only
        jobs, recs, hashed, windows, plain = exp
        allrecs = [r for fr in recs for r in fr]
        ids = [r[0] for r in allrecs]
        distinct = len(set(ids)) == len(ids)
        has_empty = any(r[1] == "" for r in allrecs)
        main = impl_out["main"]
        deferred = None  # a (known) finding about the main map does not stop the other statements from being checked
        # --- reading + decoys
        f0 = impl_out["fasta"]
        fdb = case.get("db", "concat")
        fspecial = list(case["special"]) if case["kind"] == "direct" else special_list(case["params"][0]["special"])
        want_recs = [list(r) for r in db_records(case["files"][0]["records"], case["parse_id"], fdb, fspecial)]
        if f0["err"] is not None or f0["records"] != want_recs:
            return f"read_fasta_maxquant(db={fdb}, special={fspecial}) returned {f0} for records {case['files'][0]['records']}, expected {want_recs}"
        # --- the map
        if "err" in main:
            if main["err"] == "index_error" and has_empty and not self._all_nonspecific(case):
                pass  # an empty sequence is rejected by full / semi digestion
            else:
                return f"map construction raised {main['err']}"
        elif not distinct:
            pass
        else:
            order = {pid: i for i, pid in enumerate(ids)}
            concat = {}
            for _, l in jobs:
                for k, v in l.items():
                    concat.setdefault(k, []).extend(v)
            want = {k: sorted(set(v), key=order.get) for k, v in concat.items()}
            got = main["map"]
            if got != want:
                if got == concat and len(jobs) > len(case["files"]):
                    k = next(k for k in got if got[k] != want[k])
                    deferred = f"multi-params: peptide {k!r} lists {got[k]} (once per parameter set), the property asks for {want[k]} (each once, database order)"
                    got = None
            if got is not None and got != want:
                ks = sorted(set(got) | set(want))
                k = next(k for k in ks if got.get(k) != want.get(k))
                return f"map entry {k!r}: {got.get(k)} but the proteins whose digestion yields it are {want.get(k)} (database order)"
            # --- lookups
            for q, l in zip(case["lookups"], main["lookups"]) if got is not None else []:
                if isinstance(l, dict):
                    if all(hashed) or all(plain):
                        return f"get_proteins({q!r}) raised {l['err']}"
                    continue
                if all(hashed) and len(hashed) == 1:
                    if windows[0][0] <= len(q) <= windows[0][1]:
                        w = sorted(pid for pid, seq in allrecs if q in seq)
                        if l != w:
                            return f"non-specific lookup of {q!r}: {l}, but the sequences containing it are {w}"
                elif all(plain):
                    if l != got.get(q, []):
                        return f"lookup of {q!r}: {l} differs from the map entry {got.get(q, [])}"
        # --- one map per parameter set (what the pipeline uses): each once, database order
        if isinstance(impl_out.get("permaps"), list) and distinct:
            order = {pid: i for i, pid in enumerate(ids)}
            np_ = len(case["params"])
            for pi, pm in enumerate(impl_out["permaps"]):
                want = {}
                for ji, (_, l) in enumerate(jobs):
                    if ji % np_ == pi:
                        for k, v in l.items():
                            want.setdefault(k, []).extend(v)
                if pm["map"] != want:
                    k = next(k for k in sorted(set(pm["map"]) | set(want)) if pm["map"].get(k) != want.get(k))
                    return f"map of parameter set {pi}, entry {k!r}: {pm['map'].get(k)} but the proteins whose digestion yields it are {want.get(k)}"
        # --- iBAQ
        wantc = None
        if distinct and case["kind"] == "params":
            rules = rule_table()
            wantc = {}
            for pid, seq in allrecs:
                peps = set()
                for p in case["params"]:
                    r = rules[p["enzyme"]]
                    peps |= digest_spec(seq, max(6, p["min"]), min(30, p["max"]), r["pre"], r["not_post"], r["post"], 0, False, "full")
                if peps:
                    wantc[pid] = len(peps)

        def ibaq_wrong(ib, where):
            if "err" in ib:
                return f"{where} raised {ib['err']}; expected {wantc}"
            if ib["counts"] != wantc:
                k = next(k for k in sorted(set(ib["counts"]) | set(wantc)) if ib["counts"].get(k) != wantc.get(k))
                return f"{where}: protein {k} has {ib['counts'].get(k)} theoretical peptides, but {wantc.get(k)} distinct fully specific peptides of length 6-30 without missed cleavages"
            if ib.get("wellformed") is False:
                return f"{where}: the file is not one 'protein<TAB>number' row per protein"
            return None

        if "ibaq" in impl_out and wantc is not None:
            w = ibaq_wrong(impl_out["ibaq"], "ibaq")
            if w:
                return w
        # --- map file
        if "mapfile" in impl_out and "map" in main:
            if impl_out["mapfile"]["back"] != main["map"]:
                return "the map written by --peptide_protein_map does not read back unchanged"
        # --- the digest tool asked for the iBAQ file alone / for both files in one invocation: each file is the one for
        #     the REQUESTED parameters (main["map"] has been checked against the independent listing above)
        if "tool" in impl_out and "map" in main:
            t = impl_out["tool"]
            if wantc is not None:
                w = ibaq_wrong(t["ibaq"], "digest tool, --ibaq_map alone") or ibaq_wrong(t["both"]["ibaq"], "digest tool, --ibaq_map together with --peptide_protein_map")
                if w:
                    return w
            bm = t["both"]["map"]
            if bm is None:
                return "digest tool, --peptide_protein_map together with --ibaq_map: no map file written"
            if bm["back"] != main["map"]:
                ks = sorted(set(bm["back"]) | set(main["map"]))
                k = next(k for k in ks if bm["back"].get(k) != main["map"].get(k))
                return (f"digest tool, --peptide_protein_map together with --ibaq_map: written map entry {k!r} is {bm['back'].get(k)}, "
                        f"but for the requested digestion parameters it is {main['map'].get(k)} ({len(bm['back'])} / {len(main['map'])} peptides)")
        # --- call sequences on one list of parameter objects
        if "seq" in impl_out and "map" in main:
            for i, st in enumerate(impl_out["seq"]):
                where = f"call {i} ({st['op']}) of the sequence {case['seq']} on one list of DigestionParams objects"
                if not st["same_on_fresh_objects"]:
                    return f"{where} returns another result than the same call on fresh objects with the same field values"
                if st["op"] == "map":
                    if (st["at_requested"] or self.strict_requested_params) and st["result"] != {"map": main["map"]}:
                        extra = "" if st["at_requested"] else f" (fields {impl_out['seq'][i - 1]['changed_fields'] if i else []} were rewritten by an earlier call)"
                        return f"{where} does not return the map of the requested parameters{extra}"
                elif wantc is not None:
                    w = ibaq_wrong(st["result"], where)
                    if w:
                        return w
        return deferred

    @staticmethod
    def _all_nonspecific(case):
        if case["kind"] == "direct":
            return case["digestion"] == "none"
        return all(eff_mode(p["enzyme"], p["digestion"]) == "none" for p in case["params"])

    # known-finding candidate (DESIGN.md §9 item 8, first part)
    def kf_multi_params_listing(self, case, impl_out, rec):
        o = rec.get("oracle")
        return isinstance(o, str) and o.startswith("multi-params:") and rec.get("disagree") is None

    # ------------------------------------------------------------------ bookkeeping
    def nontrivial(self, case, impl_out):
        if not isinstance(impl_out, dict) or "map" not in impl_out.get("main", {}):
            return False
        m = impl_out["main"]["map"]
        return any(len(v) >= 2 or any(x.startswith("REV__") for x in v) for v in m.values())

    def features(self, case, impl_out):
        f = ["kind=" + case["kind"], "files=%d" % len(case["files"]), "parse=" + case["parse_id"]]
        if any(fl["records"] is None for fl in case["files"]):
            f.append("malformed_file")
        if any(fl["crlf"] for fl in case["files"]):
            f.append("crlf")
        if case["kind"] == "params":
            f.append("params=%d" % len(case["params"]))
            for p in case["params"]:
                f.append("mode=" + eff_mode(p["enzyme"], p["digestion"]))
            f.append("db=" + ("target" if case["params"][0]["contains_decoys"] else "concat"))
            f.append("special=" + case["params"][0]["special"])
        else:
            f.append("db=" + case["db"])
            f.append("mode=" + (case["digestion"] if case["digestion"] in ("semi", "none") else "full"))
        if isinstance(impl_out, dict):
            main = impl_out.get("main", {})
            if "err" in main:
                f.append("err=" + str(main["err"]))
            else:
                n = len(main.get("map", {}))
                f.append("map_size=%s" % (0 if n == 0 else "1-2" if n <= 2 else "3-20" if n <= 20 else "21+"))
                if main.get("seqs") is not None:
                    f.append("hash_keys")
                if any(len(v) != len(set(v)) for v in main.get("map", {}).values()):
                    f.append("protein_listed_twice")
                if any(isinstance(l, list) and l for l in main.get("lookups", [])):
                    f.append("lookup_hit")
            if "ibaq" in impl_out:
                f.append("ibaq" if "counts" in impl_out["ibaq"] else "ibaq_err")
            if "mapfile" in impl_out:
                f.append("mapfile_roundtrip")
            if "permaps" in impl_out:
                f.append("pipeline_maps_per_parameter_set")
            if "tool" in impl_out:
                f.append("digest_tool_map_alone+ibaq_alone+both")
                if impl_out["tool"]["both"]["map"] and impl_out["mapfile"]["back"] != {}:
                    f.append("digest_tool_both_nonempty_map")
            for st in impl_out.get("seq", []) if isinstance(impl_out.get("seq"), list) else []:
                if st["changed_fields"]:
                    f.append("args_rewritten_by=" + st["op"])
                if st["op"] == "map" and not st["at_requested"]:
                    f.append("map_call_on_rewritten_params")
            if "seq" in impl_out:
                f.append("seq=" + ">".join(case["seq"]))
            if impl_out.get("fasta", {}).get("err"):
                f.append("fasta_err=" + impl_out["fasta"]["err"])
        return f

    def shrink(self, case):
        import copy

        if case["kind"] == "params":
            if len(case["params"]) > 1:
                for i in range(len(case["params"])):
                    c = copy.deepcopy(case)
                    del c["params"][i]
                    yield c
            for flag in ("ibaq", "mapfile", "seq"):
                if case.get(flag):
                    c = copy.deepcopy(case)
                    c[flag] = False
                    yield c
        if len(case["files"]) > 1:
            for i in range(len(case["files"])):
                c = copy.deepcopy(case)
                del c["files"][i]
                yield c
        if case["lookups"]:
            c = copy.deepcopy(case)
            c["lookups"] = []
            yield c
        for fi, f in enumerate(case["files"]):
            if f["records"] is not None and len(f["records"]) > 1:
                for ri in range(len(f["records"])):
                    c = copy.deepcopy(case)
                    del c["files"][fi]["records"][ri]
                    c["files"][fi]["lines"] = [x for h, s in c["files"][fi]["records"] for x in ([">" + h] + ([s] if s else []))]
                    c["files"][fi]["crlf"] = False
                    yield c
            if f["records"] is not None:
                for ri, (h, s) in enumerate(f["records"]):
                    if len(s) > 1:
                        for cut in (s[: len(s) // 2], s[len(s) // 2 :], s[1:], s[:-1]):
                            c = copy.deepcopy(case)
                            c["files"][fi]["records"][ri][1] = cut
                            c["files"][fi]["lines"] = [x for hh, ss in c["files"][fi]["records"] for x in ([">" + hh] + ([ss] if ss else []))]
                            c["files"][fi]["crlf"] = False
                            yield c
