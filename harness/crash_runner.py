"""Launcher for property C16: runs one real pipeline step of picked_group_fdr with the file
operations below a watched directory observed from outside (no hook in the repository), and
optionally kills the process (os._exit) at a chosen operation.

    python crash_runner.py SPEC.json      # one run in this process
    python crash_runner.py --serve        # zygote: imports the package once, then for every SPEC path read
                                          # from stdin forks a child process that performs the run (and is
                                          # killed exactly like a stand-alone run) and prints the child's
                                          # exit status.  Keeps the quick tier fast (no re-import per run).

SPEC = {
  "step":  "merge" | "pin" | "pipe_merge" | "pipe_pin",
  "args":  [...]                     # merge / pin: argv of update_evidence_from_pout.main / andromeda2pin.main
  "evidence": [...], "pout": [...], "out": [...]        # pipe_merge: pipeline.run_update_evidence
  "evidence": [...], "fasta": [...], "outdir": "..."    # pipe_pin:   pipeline.run_andromeda_to_pin
  "watch": "/abs/dir",               # every write-open / write / close / rename / remove below it is logged
  "log":   "/abs/file",              # one JSON line per operation that took effect, written with os.write
  "kill":  null | {"ops": n, "bytes": k, "flush": true}
}

Operations are counted over the whole run: ["open", rel, mode], ["write", rel, hex], ["close", rel],
["rename", rel_src, rel_dst], ["remove", rel].  kill = {"ops": n, "bytes": k}: the process dies
when n operations have completed; if the next operation is a write and k > 0, its first k bytes
are written first (and logged as a write of k bytes).  With "flush": true (default) data handed to
the file objects so far is flushed to the kernel before dying, so that the directory shows exactly
the logged prefix; with false the process dies with whatever CPython had buffered still unwritten.
The process exits with status 137 when it kills itself, 3 when the step raised, 0 otherwise.

What is wrapped: builtins.open / io.open (files opened for writing below the watched directory get
a proxy object; csv.writer only needs its .write), os.rename, os.replace, os.remove, os.unlink.
Syscall-level observation (thorough tier) is done by the harness with strace around a stand-alone
run of this launcher with "kill": null.
"""
import builtins
import io
import json
import os
import sys

spec = None
WATCH = None
KILL = None
LOGFD = -1
state = {"done": 0, "open": []}

_real_open = builtins.open
_real_rename = os.rename
_real_replace = os.replace
_real_remove = os.remove


def configure(path):
    global spec, WATCH, KILL, LOGFD
    with _real_open(path) as fh:
        spec = json.load(fh)
    WATCH = os.path.realpath(spec["watch"]) + os.sep
    KILL = spec.get("kill")
    LOGFD = os.open(spec["log"], os.O_WRONLY | os.O_CREAT | os.O_APPEND, 0o644)
    state["done"] = 0
    state["open"] = []


def rel(path):
    if WATCH is None:  # wrappers installed but no run configured yet (zygote importing the package): pass through
        return None
    try:
        p = os.path.realpath(os.fspath(path))
    except TypeError:
        return None
    if isinstance(p, bytes):
        p = os.fsdecode(p)
    if p.startswith(WATCH):
        return p[len(WATCH) :]
    return None


def log(entry):
    os.write(LOGFD, (json.dumps(entry) + "\n").encode())


def die():
    global KILL
    if KILL.get("mode") == "interrupt":
        # death by exception (SIGINT at this point): the interpreter unwinds, context managers and finally blocks
        # run, and whatever they do to the watched directory is logged like any other operation
        for f in list(state["open"]):  # as a normally exiting interpreter would: nothing stays in CPython's buffer
            try:
                f.flush()
            except Exception:
                pass
        log(["interrupted", state["done"]])
        KILL = None
        raise KeyboardInterrupt("injected at operation %d" % state["done"])
    if KILL.get("flush", True):
        for f in list(state["open"]):
            try:
                f.flush()
            except Exception:
                pass
    log(["killed", state["done"]])
    os.fsync(LOGFD)
    os._exit(137)


def due():
    return KILL is not None and state["done"] == KILL["ops"]


def before_op():
    """called before an operation that is not a write: die here if the kill point is reached"""
    if due():
        die()


def after_op(entry):
    log(entry)
    state["done"] += 1


class Proxy:
    """stands for a file object opened for writing below the watched directory"""

    def __init__(self, real, relpath):
        object.__setattr__(self, "_real", real)
        object.__setattr__(self, "_rel", relpath)
        object.__setattr__(self, "_closed_logged", False)
        state["open"].append(real)

    def _bytes(self, data):
        if isinstance(data, (bytes, bytearray, memoryview)):
            return bytes(data)
        return data.encode(getattr(self._real, "encoding", None) or "utf-8")

    def write(self, data):
        b = self._bytes(data)
        if due():
            k = KILL.get("bytes", 0)
            if k > 0 and len(b) > 0:
                part = b[:k]
                self._real.flush()
                raw = self._real.buffer if hasattr(self._real, "buffer") else self._real
                raw.write(part)
                raw.flush()
                log(["write", self._rel, part.hex()])
            die()
        n = self._real.write(data)
        after_op(["write", self._rel, b.hex()])
        return n

    def writelines(self, lines):
        for line in lines:
            self.write(line)

    def close(self):
        if not self._closed_logged:
            before_op()
            self._real.close()
            object.__setattr__(self, "_closed_logged", True)
            if self._real in state["open"]:
                state["open"].remove(self._real)
            after_op(["close", self._rel])
        else:
            self._real.close()

    def __enter__(self):
        return self

    def __exit__(self, *a):
        self.close()
        return False

    def __iter__(self):
        return iter(self._real)

    def __getattr__(self, name):
        return getattr(self._real, name)

    def __setattr__(self, name, value):
        setattr(self._real, name, value)


def w_open(file, mode="r", *a, **kw):
    r = rel(file) if isinstance(file, (str, bytes, os.PathLike)) else None
    writing = any(c in mode for c in "wax+")
    if r is None or not writing:
        return _real_open(file, mode, *a, **kw)
    before_op()
    f = _real_open(file, mode, *a, **kw)
    after_op(["open", r, mode.replace("t", "")])
    return Proxy(f, r)


def _name(r, p):
    return r if r is not None else os.fsdecode(os.fspath(p))


def w_rename(src, dst, *a, **kw):
    rs, rd = rel(src), rel(dst)
    if rs is None and rd is None:
        return _real_rename(src, dst, *a, **kw)
    before_op()
    _real_rename(src, dst, *a, **kw)
    after_op(["rename", _name(rs, src), _name(rd, dst)])


def w_replace(src, dst, *a, **kw):
    rs, rd = rel(src), rel(dst)
    if rs is None and rd is None:
        return _real_replace(src, dst, *a, **kw)
    before_op()
    _real_replace(src, dst, *a, **kw)
    after_op(["rename", _name(rs, src), _name(rd, dst)])


def w_remove(path, *a, **kw):
    r = rel(path)
    if r is None:
        return _real_remove(path, *a, **kw)
    before_op()
    _real_remove(path, *a, **kw)
    after_op(["remove", r])


def install():
    builtins.open = w_open
    io.open = w_open
    os.rename = w_rename
    os.replace = w_replace
    os.remove = w_remove
    os.unlink = w_remove


def run_step():
    import logging

    logging.disable(logging.CRITICAL)
    step = spec["step"]
    if step == "merge":
        from picked_group_fdr.pipeline import update_evidence_from_pout as u

        u.main(spec["args"])
    elif step == "pin":
        from picked_group_fdr.pipeline import andromeda2pin as a

        a.main(spec["args"])
    elif step == "pipe_merge":
        from picked_group_fdr.pipeline import pipeline

        pipeline.run_update_evidence(spec["evidence"], spec["pout"], spec["out"], "andromeda", True)
    elif step == "pipe_pin":
        from picked_group_fdr.pipeline import pipeline
        from picked_group_fdr.digestion_params import DigestionParams

        pipeline.run_andromeda_to_pin(
            spec["evidence"], spec["fasta"], spec["outdir"], [DigestionParams() for _ in spec["evidence"]], True
        )
    else:
        raise SystemExit("unknown step " + step)


def one_run(path):
    """configure, install the wrappers, run the step; never returns"""
    configure(path)
    install()
    try:
        run_step()
    except BaseException as e:  # the step failed on its own: reported, never silently ignored
        log(["exception", type(e).__name__, str(e)[:300]])
        os.fsync(LOGFD)
        os._exit(3)
    if due():  # kill point after the last operation
        die()
    log(["exit", 0])
    os._exit(0)


def serve():
    import logging

    logging.disable(logging.CRITICAL)
    # the wrappers go in BEFORE the package is imported (pass-through until a run is configured), so that a module
    # binding `from os import rename` or `open` at import time binds the wrapper as well
    install()
    from picked_group_fdr.pipeline import update_evidence_from_pout, andromeda2pin, pipeline  # noqa: F401
    from picked_group_fdr.digestion_params import DigestionParams  # noqa: F401

    sys.stdout.write("ready\n")
    sys.stdout.flush()
    while True:
        line = sys.stdin.readline()
        if not line:
            return
        path = line.strip()
        if not path:
            continue
        pid = os.fork()
        if pid == 0:
            try:
                one_run(path)
            finally:
                os._exit(4)
        _, status = os.waitpid(pid, 0)
        sys.stdout.write("%d\n" % os.waitstatus_to_exitcode(status))
        sys.stdout.flush()


if __name__ == "__main__":
    if sys.argv[1] == "--serve":
        serve()
    else:
        one_run(sys.argv[1])
