"""Pipeline-level correspondence: the real `get_protein_group_results` vs the composed Lean model
`PgFdr.Pipeline.run` (driver op "pipeline"), for every shipped method configuration.

Everything the model takes as a recorded parameter is observed from outside while the real function runs:
  * the permutations `numpy.random.shuffle` applied (an index list of equal length is shuffled under the same
    generator state and applied to the argument);
  * the answers of `graphs.minimum_st_node_cut`;
  * the md5 keys of the razor tie-break (computed here with hashlib, as the code does);
  * the float protein scores `score_type.calculate_score` returns for the groups handed to each competition;
  * the float rescue cutoff `grouping_strategy.score_cutoff` (= np.power(10, -score)); the model reports which score.
Compared exactly: the groups and evidence handed to each competition, the ranking, q-values (model rational ->
double by one division), the PEP cutoff, the reported rows (all nine fields).  Float identities checked here:
best-PEP score == -log10(min PEP + tiny) for the model's minimum PEP; rescue cutoff == 10^(-model's score).

Thresholds are drawn from values no reachable estimate (D+1)/(T+1) rounds onto (0.0101, 0.0503, 0.2001) or
that are dyadic (0.25, 0.5, 1.0), so `q < threshold` on doubles and on exact rationals agree.
"""
from __future__ import annotations

import hashlib
import tomllib
from fractions import Fraction

import gen_pil
import lib
from lib import rat, unrat

THRESHOLDS = [0.0101, 0.0503, 0.2001, 0.25, 0.5, 1.0]
ROW_FIELDS = ["proteinIds", "majorityProteinIds", "peptideCountsUnique", "bestPeptide", "numberOfProteins",
              "qValue", "score", "reverse", "potentialContaminant"]


def method_names():
    return sorted(p.stem for p in (lib.REPO / "picked_group_fdr" / "methods").glob("*.toml"))


def method_fields(name):
    d = tomllib.loads((lib.REPO / "picked_group_fdr" / "methods" / f"{name}.toml").read_text())
    return d


def fl(j):
    f = unrat(j)
    return f.numerator / f.denominator


def canon_infos(infos):
    return [[[rat(float(e[0])), e[1], list(e[2])] for e in ev] for ev in infos]


def row_dict(r):
    return {
        "proteinIds": r.proteinIds, "majorityProteinIds": r.majorityProteinIds, "peptideCountsUnique": r.peptideCountsUnique,
        "bestPeptide": r.bestPeptide, "numberOfProteins": int(r.numberOfProteins), "qValue": rat(float(r.qValue)),
        "score": rat(float(r.score)), "reverse": r.reverse, "potentialContaminant": r.potentialContaminant,
    }


def gen_case(rng, tier, methods=None):
    ms = methods or method_names()
    m = rng.choice(ms)
    pseudo = rng.random() < 0.08
    if rng.random() < 0.3:
        entries, thr = gen_pil.gen_rescue_pil(rng, tier)
        return {"kind": "pipeline", "method": m, "pseudo": pseudo, "pil": [[p, rat(s), pr] for p, s, pr in entries],
                "thr": rat(thr), "psm": rat(rng.choice([0.01, 0.05])), "keepAll": rng.random() < 0.3}
    return {
        "kind": "pipeline",
        "method": m,
        "pseudo": pseudo,
        "pil": [[p, rat(s), pr] for p, s, pr in gen_pil.gen_pil(rng, tier)],
        "thr": rat(rng.choice(THRESHOLDS)),
        "psm": rat(rng.choice([0.01, 0.01, 0.05, 0.0011])),
        "keepAll": rng.random() < 0.3,
    }


def run_impl(case, cfg=None):
    """one call of the real get_protein_group_results with recorders installed; returns the canonical output with
    the recorded parameters under "_rec".  `cfg` (a MethodConfig) may be passed to reuse a configuration object."""
    import numpy as np
    from picked_group_fdr import fdr as fdr_mod
    from picked_group_fdr import graphs, methods
    from picked_group_fdr import picked_group_fdr as pgf
    from picked_group_fdr.results import ProteinGroupResults

    if cfg is None:
        cfg = methods.parse_method_toml(case["method"], use_pseudo_genes=bool(case.get("pseudo")))
    pil = {p: (fl(s), list(pr)) for p, s, pr in case["pil"]}
    rec = {"shuffles": [], "cuts": [], "comp": [], "report": []}

    orig_shuffle = np.random.shuffle

    def shuffle(x):
        idx = list(range(len(x)))
        orig_shuffle(idx)
        before = list(x)
        x[:] = [before[i] for i in idx]
        rec["shuffles"].append(idx)

    orig_cut = graphs.minimum_st_node_cut

    def cut(G, s, t, **kw):
        c = orig_cut(G, s, t, **kw)
        rec["cuts"].append([sorted(G.nodes), s, t, sorted(c)])
        return c

    st = cfg.picked_strategy
    orig_comp = st.do_competition

    def comp(*a, **k):
        # the wrapper must not depend on how the caller spells the call (positional / keyword)
        names = ("protein_groups", "protein_group_peptide_infos", "protein_score")
        protein_groups = a[0] if len(a) > 0 else k.get("protein_groups")
        infos = a[1] if len(a) > 1 else next((k[n] for n in k if "info" in n), None)
        score_type = a[2] if len(a) > 2 else next((k[n] for n in k if "score" in n), None)
        rec["comp"].append({
            "groups": [list(g) for g in protein_groups],
            "infos": canon_infos(infos),
            "scores": [rat(float(score_type.calculate_score(i))) for i in infos],
            "pep_cutoff": rat(float(getattr(score_type, "peptide_score_cutoff", float("nan")))) if hasattr(score_type, "peptide_score_cutoff") else None,
        })
        ret = orig_comp(*a, **k)
        try:
            rec["comp"][-1]["out_groups"] = [list(g) for g in ret[0]]
            rec["comp"][-1]["out_scores"] = [rat(float(x)) for x in ret[2]]
            rec["comp"][-1]["out_infos"] = canon_infos(ret[1])
        except Exception:
            pass
        return ret

    orig_report = ProteinGroupResults.__dict__["from_protein_groups"]

    def report(cls, *a, **k):
        import inspect

        try:
            ba = inspect.signature(orig_report.__func__).bind(cls, *a, **k)
            ba.apply_defaults()
            vals = list(ba.arguments.values())[1:]
        except TypeError:
            vals = list(a)
        protein_groups, infos, scores, qvals, score_cutoff, keep_all = (vals + [None] * 6)[:6]
        rec["report"].append({
            "groups": [list(g) for g in protein_groups],
            "infos": canon_infos(infos),
            "scores": [rat(float(s)) for s in scores],
            "qvals": [rat(float(q)) for q in qvals],
            "cutoff": "inf" if score_cutoff == float("inf") else rat(float(score_cutoff)),
            "keepAll": bool(keep_all),
        })
        return orig_report.__func__(cls, *a, **k)

    np.random.seed(1)
    np.random.shuffle = shuffle
    graphs.minimum_st_node_cut = cut
    st.do_competition = comp
    ProteinGroupResults.from_protein_groups = classmethod(report)
    out = {}
    try:
        try:
            res = pgf.get_protein_group_results(
                pil, method_config=cfg, keep_all_proteins=bool(case["keepAll"]),
                protein_group_fdr_threshold=fl(case["thr"]), psm_fdr_cutoff=fl(case["psm"]),
            )
            out["rows"] = [row_dict(r) for r in res]
        except ValueError as e:
            if "not enough values to unpack" not in str(e):
                raise
            out["err"] = "no_ranked_groups"
        except IndexError as e:
            if "too many indices for array" not in str(e):
                raise
            out["err"] = "no_ranked_groups"  # multPEP: optimize_hyperparameters on an empty score table
        except Exception as e:
            if type(e) is Exception and str(e).startswith("No proteins with scores found"):
                out["err"] = "no_ranked_groups"
            elif type(e) is Exception and str(e).startswith("Could not find any of the proteins"):
                out["err"] = "unknown_protein"
            else:
                raise
    finally:
        np.random.shuffle = orig_shuffle
        graphs.minimum_st_node_cut = orig_cut
        del st.do_competition
        ProteinGroupResults.from_protein_groups = orig_report
    rc = getattr(cfg.grouping_strategy, "score_cutoff", None)
    rec["rescue_cutoff"] = rat(float(rc)) if (rc is not None and len(rec["comp"]) > 1) else None
    prots = sorted({p for _, _, pr in case["pil"] for p in pr})
    rec["razor_keys"] = [[p, hashlib.md5(p.encode("utf-8")).hexdigest()] for p in prots]
    out["passes"] = [
        {"comp_groups": c["groups"], "comp_infos": c["infos"], "scores": c["scores"],
         "survivors": c.get("out_groups"), "survivor_scores": c.get("out_scores")} for c in rec["comp"]
    ]
    for k, r in enumerate(rec["report"]):
        if k < len(out["passes"]):
            out["passes"][k].update({"ranked_groups": r["groups"], "ranked_infos": r["infos"], "ranked_scores": r["scores"],
                                     "qvals": r["qvals"], "cutoff": r["cutoff"]})
    out["_rec"] = rec
    return out


def model_request(case, impl_out):
    d = method_fields(case["method"])
    rec = impl_out["_rec"]
    grouping = "pseudo_gene" if case.get("pseudo") else d["grouping"]
    comp = rec["comp"]
    return {
        "op": "pipeline",
        "grouping": grouping,
        "razor": d.get("sharedPeptides") == "razor",
        "strategy": d["pickedStrategy"],
        "pil": case["pil"], "thr": case["thr"], "psm": case["psm"], "keepAll": case["keepAll"],
        "shuffles": rec["shuffles"], "cuts": rec["cuts"], "razor_keys": rec["razor_keys"],
        "scores1": comp[0]["scores"] if len(comp) > 0 else [],
        "scores2": comp[1]["scores"] if len(comp) > 1 else [],
        "rescue_cutoff": rec["rescue_cutoff"],
    }


def _q(j):
    """model rational -> the double the implementation holds (one correctly rounded division)"""
    return rat(fl(j))


def _rows(rows):
    out = []
    for r in rows:
        out.append({
            "proteinIds": r["proteinIds"], "majorityProteinIds": r["majorityProteinIds"], "peptideCountsUnique": r["peptideCountsUnique"],
            "bestPeptide": r["bestPeptide"], "numberOfProteins": r["numberOfProteins"], "qValue": _q(r["qValue"]), "score": _q(r["score"]),
            "reverse": r["reverse"], "potentialContaminant": r["potentialContaminant"],
        })
    return out


def near_tie(resp, case):
    """a running mean of the PEP list that lies within 1e-9 (relative) of the PSM level: the float scan of
    calc_post_err_prob_cutoff and the exact one may cross at different elements"""
    level = unrat(case["psm"])
    for key in ("pass1", "pass2"):
        p = resp.get(key)
        if not p:
            continue
        vals = sorted(unrat(x) for x in p["pep_list"])
        s = Fraction(0)
        for k, v in enumerate(vals):
            s += v
            m = s / (k + 1)
            # (with two or more summands the float sum may round, so even a mean that EQUALS the level exactly can
            #  come out above it in doubles: 0.05+0.05+0.05 = 0.15000000000000002)
            if (k >= 1 or m != level) and abs(m - level) <= abs(level) * Fraction(1, 10**9) and not (k == 0 and m == level):
                return True
    return False


def model_view(case, resp, impl_out):
    """the model's answer in the shape of impl_view"""
    if "err" in resp or "proto_err" in resp:
        return resp
    out = {"rows": _rows(resp["rows"]), "passes": []}
    for key in ("pass1", "pass2"):
        p = resp.get(key)
        if not p:
            continue
        out["passes"].append({
            "comp_groups": p["comp_groups"], "comp_infos": [[[rat(unrat(e[0])), e[1], e[2]] for e in ev] for ev in p["comp_infos"]],
            "ranked_groups": p["ranked_groups"],
            "ranked_infos": [[[rat(unrat(e[0])), e[1], e[2]] for e in ev] for ev in p["ranked_infos"]],
            "ranked_scores": [_q(s) for s in p["ranked_scores"]],
            "qvals": [_q(q) for q in p["qvals"]],
            "cutoff": "inf" if key == "pass1" else _q(p["pep_cutoff"]),
        })
    return out


def impl_view(case, impl_out):
    if "err" in impl_out:
        return {"err": impl_out["err"]}
    return {"rows": impl_out["rows"], "passes": [{k: v for k, v in p.items() if k not in ("scores", "survivors", "survivor_scores")} for p in impl_out["passes"]]}


def float_identities(case, resp, impl_out):
    """None, or what is wrong with the float values the model takes as parameters"""
    import numpy as np

    if "err" in resp or "proto_err" in resp or "err" in impl_out:
        return None
    d = method_fields(case["method"])
    tiny = np.nextafter(0, 1)
    if "multPEP" not in d["scoreType"]:
        for key, c in zip(("pass1", "pass2"), impl_out["_rec"]["comp"]):
            p = resp.get(key)
            if not p:
                continue
            for g, mp, s in zip(p["comp_groups"], p["min_peps"], c["scores"]):
                want = -100.0 if mp is None else float(-1 * np.log10(fl(mp) + tiny))
                if fl(s) != want:
                    return f"score of group {g} is {fl(s)} but -log10 of its best PEP {None if mp is None else fl(mp)} is {want}"
    if resp.get("rescue_score") is not None:
        want = float(np.power(10, fl(resp["rescue_score"]) * -1))
        got = impl_out["_rec"]["rescue_cutoff"]
        if got is None or fl(got) != want:
            return f"rescue cutoff {None if got is None else fl(got)} is not 10^(-{fl(resp['rescue_score'])}) = {want}"
    return None


# ------------------------------------------------------------------------------------------------
# the properties, stated directly on what the real pipeline returned (independent of the model)
# ------------------------------------------------------------------------------------------------
def _all_contain(g, m):
    return all(m in x for x in g)


def oracle_c01(case, impl_out):
    """q-values of the last ranking are suffix minima of (D+1)/(T+1); rows carry the score/q of their rank in order"""
    if "err" in impl_out or not impl_out.get("passes"):
        return None
    last = impl_out["passes"][-1]
    if "ranked_groups" not in last:
        return "no ranking observed"
    groups, scores, qvals = last["ranked_groups"], [fl(s) for s in last["ranked_scores"]], [fl(q) for q in last["qvals"]]
    # "the protein groups that survive competition are ranked": the ranking the q-values are computed on is what the
    # competition returned - nothing withheld from the report may be taken out of it beforehand
    surv = last.get("survivors")
    if surv is not None:
        # groups as member SETS (the property says nothing on member order); a group the competition returned may be
        # missing from the ranking only for a reason C02 itself allows (contaminant group, no supporting peptide) - such a
        # removal may live on either side of the call; nothing may be added
        fs = lambda g: frozenset(g)
        ev_of = {fs(g): e for g, e in zip(last.get("comp_groups", []), last.get("comp_infos", []))}
        ranked = {}
        for g in groups:
            ranked[fs(g)] = ranked.get(fs(g), 0) + 1
        missing = []
        for g in surv:
            if ranked.get(fs(g), 0) > 0:
                ranked[fs(g)] -= 1
            elif g and not (all("CON__" in m for m in g) or not ev_of.get(fs(g), True)):
                missing.append(g)
        extra_ = [list(k_) for k_, n_ in ranked.items() if n_ > 0]
        if missing or extra_:
            return (f"the ranking the q-values were computed on is not the set of groups that survived the competition: "
                    f"survivors left out {missing}, groups added {extra_}")
        ss = last.get("survivor_scores")
        if ss is not None:
            by = {}
            for g, x in zip(surv, ss):
                by.setdefault(fs(g), []).append(fl(x))
            for g, x in zip(groups, scores):
                if x not in by.get(fs(g), [x]):
                    return "a ranked group does not carry the score it left the competition with"
    if any(a < b for a, b in zip(scores, scores[1:])):
        return "ranking is not in non-increasing score order"
    if len(qvals) != len(groups):
        return (f"{len(groups)} groups were ranked but {len(qvals)} q-values were computed: "
                f"the groups from rank {min(len(qvals), len(groups))} on have no q-value")
    D = T = 0
    est = []
    for g in groups:
        if _all_contain(g, "REV__") or _all_contain(g, "rev_"):
            D += 1
        else:
            T += 1
        est.append(Fraction(D + 1, T + 1))
    for k in range(len(est)):
        m = min(est[k:])
        if qvals[k] != m.numerator / m.denominator:
            return f"q-value at rank {k} is {qvals[k]}, the minimum of (decoys+1)/(targets+1) over ranks >= {k} is {float(m)}"
    if any(a > b for a, b in zip(qvals, qvals[1:])):
        return "q-values decrease down the ranking"
    # rows: a subsequence of the ranking carrying its score and q-value
    pos = 0
    for r in impl_out["rows"]:
        ids = r["proteinIds"].split(";")
        found = None
        for j in range(pos, len(groups)):
            if not _all_contain(groups[j], "OBSOLETE__") and all(p in groups[j] for p in ids) and fl(r["score"]) == scores[j] and fl(r["qValue"]) == qvals[j]:
                found = j
                break
        if found is None:
            return f"row {r['proteinIds']} (score {fl(r['score'])}, q {fl(r['qValue'])}) does not carry the score and q-value of a ranked group at or after rank {pos}"
        pos = found + 1
    return None


def expected_pep_cutoff(case, impl_out):
    """the PEP cutoff of the LAST pass recomputed from what the competition was handed: every peptide that is
    evidence of a regular (non-placeholder) group is a unique peptide; the PEPs of those whose proteins are not all
    decoys, ascending, first value whose running mean exceeds the PSM level, else 1.  None = near tie / not applicable."""
    if "err" in impl_out or len(impl_out.get("passes", [])) < 2:
        return None
    last = impl_out["passes"][-1]
    level = unrat(case["psm"])
    peps, seen = [], set()
    for g, ev in zip(last["comp_groups"], last["comp_infos"]):
        if g and _all_contain(g, "OBSOLETE__"):
            continue
        for pep, peptide, prots in ev:
            if peptide in seen:
                continue
            seen.add(peptide)
            if not (_all_contain(prots, "REV__") or _all_contain(prots, "rev_")):
                peps.append(unrat(pep))
    peps.sort()
    s, want = Fraction(0), Fraction(1)
    for k, v in enumerate(peps):
        s += v
        m = s / (k + 1)
        if (k >= 1 or m != level) and abs(m - level) <= abs(level) * Fraction(1, 10**9) and not (k == 0 and m == level):
            return None
        if m > level:
            want = v
            break
    return want


def oracle_c17(case, impl_out):
    """the peptide-level cutoff the report of the rescue pass was built with is the C17 cutoff of that pass's PEPs
    at the PSM-level FDR (and not a stale value, another level, or the level itself)"""
    want = expected_pep_cutoff(case, impl_out)
    if want is None:
        return None
    got = impl_out["passes"][-1].get("cutoff")
    if got is None or got == "inf":
        return f"the rescue pass reported with cutoff {got}, expected {float(want)}"
    if unrat(got) != want:
        return (f"the rescue pass counted peptides up to PEP {fl(got)}; the first PEP whose running mean exceeds the PSM level "
                f"{fl(case['psm'])} over this pass's target peptides is {float(want)}")
    return None


def oracle_c06(case, impl_out):
    """every reported row is consistent with its group's evidence (statement of harness/props/C06.py)"""
    if "err" in impl_out or not impl_out.get("passes"):
        return None
    last = impl_out["passes"][-1]
    if "ranked_groups" not in last:
        return "no ranking observed"
    from props import C06

    # "the listed proteins are the members [of the group]": a ranked group is one of the groups the grouping made and
    # the competition was handed, with all of its members
    comp_sets = {frozenset(h) for h in last["comp_groups"]}
    for g in last["ranked_groups"]:
        if frozenset(g) not in comp_sets:
            sup = [h for h in last["comp_groups"] if set(g) & set(h)]
            return f"ranked group {g} is not one of the groups handed to the competition (overlapping: {sup})"
    c = {"groups": last["ranked_groups"], "infos": last["ranked_infos"], "scores": last["ranked_scores"], "qvals": last["qvals"],
         "cutoff": last["cutoff"], "keepAll": case["keepAll"]}
    o = C06.P().oracle(c, {"rows": impl_out["rows"]})
    if o:
        return o
    o = oracle_c17(case, impl_out)  # "at or below the peptide-level PEP cutoff": the cutoff itself, recomputed
    if o:
        return o
    seen = set()
    for r in impl_out["rows"]:
        for p in r["proteinIds"].split(";"):
            if p in seen:
                return f"protein {p} is reported in two rows"
            seen.add(p)
    return None


def features(case, impl_out):
    f = ["pipeline:" + case["method"]]
    if case.get("pseudo"):
        f.append("pipeline:pseudo_gene")
    if "err" in impl_out:
        f.append("pipeline:err=" + impl_out["err"])
    else:
        f.append("pipeline:passes=%d" % len(impl_out.get("passes", [])))
        rec = impl_out.get("_rec", {})
        if rec.get("cuts"):
            f.append("pipeline:min_cut_called")
        if len(impl_out.get("passes", [])) > 1 and any(any(p.startswith("OBSOLETE__") for p in g) for g in impl_out["passes"][1]["comp_groups"]):
            f.append("pipeline:placeholders_compete")
        if impl_out.get("rows") and any(";" in r["proteinIds"] for r in impl_out["rows"]):
            f.append("pipeline:multi_protein_row")
    return f


def nontrivial(case, impl_out):
    return bool(impl_out.get("rows")) and len(impl_out["rows"]) >= 2


def shrink(case):
    pil = case["pil"]
    for i in range(len(pil)):
        yield dict(case, pil=pil[:i] + pil[i + 1:])
    for i, (p, s, pr) in enumerate(pil):
        if len(pr) > 1:
            for j in range(len(pr)):
                yield dict(case, pil=pil[:i] + [[p, s, pr[:j] + pr[j + 1:]]] + pil[i + 1:])


# ------------------------------------------------------------------------------------------------
# mixin: adds pipeline-level cases to a property module's P (class P(PipelineMixin, Base))
# ------------------------------------------------------------------------------------------------
class PipelineMixin:
    pipeline_share = 0.12      # fraction of generated cases that run the whole pipeline
    pipeline_oracles = ()      # names of the oracle_* functions of this module to apply

    def gen_case(self, rng, tier):
        if rng.random() < self.pipeline_share:
            return gen_case(rng, tier)
        return super().gen_case(rng, tier)

    def run_impl(self, case):
        if isinstance(case, dict) and case.get("kind") == "pipeline":
            return run_impl(case)
        return super().run_impl(case)

    def model_request(self, case, impl_out):
        if isinstance(case, dict) and case.get("kind") == "pipeline":
            return model_request(case, impl_out)
        return super().model_request(case, impl_out)

    def model_view(self, case, resp, impl_out):
        if isinstance(case, dict) and case.get("kind") == "pipeline":
            if "proto_err" in resp:
                return resp
            if near_tie(resp, case):
                return impl_view(case, impl_out)  # float scan and exact scan may differ: not compared (counted)
            fi = float_identities(case, resp, impl_out)
            if fi:
                return {"float_identity_broken": fi}
            return model_view(case, resp, impl_out)
        return super().model_view(case, resp, impl_out)

    def impl_view(self, case, impl_out):
        if isinstance(case, dict) and case.get("kind") == "pipeline":
            return impl_view(case, impl_out)
        return super().impl_view(case, impl_out)

    def oracle(self, case, impl_out):
        if isinstance(case, dict) and case.get("kind") == "pipeline":
            for name in self.pipeline_oracles:
                o = globals()["oracle_" + name](case, impl_out)
                if o:
                    return "pipeline (%s): %s" % (case["method"], o)
            return None
        return super().oracle(case, impl_out)

    def nontrivial(self, case, impl_out):
        if isinstance(case, dict) and case.get("kind") == "pipeline":
            return nontrivial(case, impl_out)
        return super().nontrivial(case, impl_out)

    def features(self, case, impl_out):
        if isinstance(case, dict) and case.get("kind") == "pipeline":
            return features(case, impl_out)
        return super().features(case, impl_out)

    def shrink(self, case):
        if isinstance(case, dict) and case.get("kind") == "pipeline":
            return shrink(case)
        return super().shrink(case)
