"""Writes /verif/MANIFEST.json from the table below (run after editing it)."""
import json
from pathlib import Path

VERIF = Path(__file__).resolve().parent.parent
ALL = ["C%02d" % i for i in range(1, 21)]

NOTE_COMMON = (
    "Trusted: Lean 4.33 kernel; axioms ⊆ {propext, Classical.choice, Quot.sound} (audited with #print axioms on every run, "
    "no sorry/native_decide/bv_decide); harness/tables.py (source → Generated tables); the correspondence harness "
    "harness/props/%s.py (generators, canonicalisation, diff) which is what ties the hand-written model to /repo's working tree; "
    "inert import stubs for absent third-party packages. "
)

CLAIMED = {}   # C17 is read from notes/C17.md like the others

CLAIMED["C07"] = dict(
    category="proof",
    text="Proof (history half): the mutable fields of the long-lived strategy objects are modelled as a state machine over abstract stages; "
    "call_history_independent / calls_independent show that from any state with an empty seen set a call returns what a fresh object returns and leaves the seen set "
    "empty, for every input and every sequence of earlier calls. Tied to the code by running real call sequences on one reused MethodConfig for every shipped method and "
    "comparing each call with a fresh object and with a fresh PROCESS. Hash-seed half: decided by running the real CLI under several PYTHONHASHSEED values "
    "and comparing output bytes (exploration, not proof: CPython set order and networkx internals are exercised, not modelled).",
    design_ref="DESIGN.md §0, §5 C07, §14.26",
    note="The stage functions are abstract parameters of the theorem (each reads exactly what the code reads at that point); that the real stages read nothing else is what the call-sequence correspondence tests. numpy is re-seeded with 1 before every call, as the CLI does once per process.",
    technique="Lean 4 state-machine theorem + differential runs (call sequences vs fresh process; CLI under several hash seeds)",
)

# additions made after the builders' notes were written (end-to-end theorems on the composed pipeline model)
EXTRA_TEXT = {
    "C01": " End to end: pipeline_ranked_nonincreasing, pipeline_qvals_spec, pipeline_threshold_sound and pipeline_report_alignment state the same for the composed model PgFdr.Pipeline.run of get_protein_group_results, for every grouping / razor / competition configuration, every input and every recorded shuffle, cut map and score vector; the check runs whole get_protein_group_results calls for randomly chosen shipped methods against that model (harness/pipeline.py) with the C01 statement as the oracle.",
    "C06": " End to end: pipeline_rows_consistent and pipeline_rows_disjoint (no protein in two rows; the former partial theorem closed through the C03/C04 partition and C02 sub-permutation theorems) hold for every successful PgFdr.Pipeline.run under the single hypothesis that peptide keys are distinct (the input is a dict); whole-pipeline runs of shipped methods are compared with the model and judged by the C06 oracle with an independently recomputed peptide-level cutoff.",
    "C04": " The last sentence of the property is proved on the composed model: rescue_trivial_when_unshared (ranking, estimates and q-values of the rescue pass equal those of plain subset grouping when no peptide is shared and scores are distinct), _rows, _ties (existence of shuffles) and _ties_partial (classic strategy, permutation); with ties under picked strategies run-by-run equality is false (the shuffle decides which tied twin survives) and is not claimed.",
    "C10": " purity_rescued_grouping and purity_reported_groups extend purity to the rescue stage and to every row of a successful Pipeline.run (all groupings and strategies) under MarkerOnlyAsPrefix.",
    "C18": " shipped_methods_guarantees instantiates the end-to-end ranking / q-value / row-consistency theorems of C01 and C06 for the pipeline configuration of every shipped method (table regenerated from the TOML files on every run); no_remap_named_methods_do_not_remap is a naming obligation over the same table.",
    "C07": " pipeline_calls_independent proves, for the concrete composed model the driver executes, that along any sequence of inputs every call on a reused configuration returns what a call on a fresh one returns; every call of the real call sequences is compared with that model. Nine theorems in all: the five of Model/C07Stream.lean (cli_methods_in_command_line_order, cli_tables_in_command_line_order, stream_table_reads_own_slice, stream_table_depends_on_prefix, stream_run_is_cli_run) say that in the composed command-line model the methods of a run are processed in command-line order on ONE stream of permutations, each reading its own slice; that order is what the MODEL says, not what the property demands, so a departure from it is compared on the correspondence side (no-failing-input-found), while a hash-seed dependent order or member order is a failing input of the hash-seed stage (tie-rich multi-method command lines, triangle components of groups without a peptide of their own).",
}

# corrections after the independent audit (notes/props-audit.md) and after the fix commits landed: (pid, old, new),
# applied to text and note; a pattern that no longer occurs is reported
TEXT_PATCHES = [
    ("C11", "For all precursor lists, sample numbers, minimum ratio counts, stabilisation on/off and any edge filter.",
     "Stage-A statements hold for all precursor lists, sample numbers, minimum ratio counts, stabilisation on/off and any edge filter; the consistent-data recovery theorem (consistent_lfq) needs stabilisation off, a minimum ratio count >= 1 and at least two samples that are all linked — with stabilisation on and very unequal peptide counts the summed-intensity ratio enters by design and proportionality to the sample factors is not claimed."),
    ("C18", "Not claimed: sufficient conditions for the composed model cliRun (its further exits no_ranked_groups, no_rows, \u2026 ) \u2014 the theorems about written tables are conditional on a run that completes (audit B11).",
     "Completion of the composed model cliRun (Proofs/PipelineComplete.lean): for every shipped method the command-line run IS the inference call (cli_shipped_method_is_inference_call); with recorded parameters that fit (Fits1 / Fits2: one score per group, the recorded shuffles are permutations of the right lengths, a recorded rescue cutoff and cut map that answer the rescue stage) and no group with evidence scored exactly -100 (NoSentinel) the run completes IF AND ONLY IF the data conditions hold — every peptide names a protein and some non-contaminant group has evidence (18 single-pass methods, cli_shipped_single_pass_completes_iff), plus a non-empty first-pass table and a rankable second pass stated relative to the rescue output (9 rescue methods, cli_shipped_rescue_completes_iff) — and every failure is one of the named data errors (unknown_protein, razor_no_proteins, no_ranked_groups, no_rows) or a misfit of the records (cli_shipped_failure_is_data_or_misfit)."),
]
EXTRA_NOTE = {
    "C12": " Hypothesis of conservation / intensity_recompute / tmt_recompute: every evidence file of the set has the SAME SILAC / TMT column layout (the code fixes num_silac_channels from the first row it sees; a label-free file followed by a SILAC file makes it add L/H values into other experiments' slots — the model is faithful to that, the theorems and the generator assume one layout, and the property speaks of 'optionally SILAC or TMT channels' for the set as a whole).",
    "C13": " reread_same_ids_q_score assumes an output name that does not end in .csv: parse_mq_protein_groups_file switches to ',' for *.csv while the writer always writes tabs (recorded as an observation; the tool's documented output is proteinGroups.txt).",
    "C18": " 'completes and writes a table' is proved as the verdict of the decision model (runCli) for matching input and, for the composed cliRun, as an iff on the data under fitting recorded parameters (see the text); what stays conditional: Rankable2 / Fits2 / NoSentinel2 are stated relative to the rescue output rather than reduced to the peptide list, and a group with evidence scored exactly -100 is excluded.",
    "C10": "",
}

NOT_YET = {}
# properties whose check exists but is not claimed yet (e.g. waiting for a fix commit or a review)
HOLD = set()


def from_notes():
    """MANIFEST fields delivered by the builders: the last ```json block of notes/Cxx.md"""
    import re

    for pid in ALL:
        f = VERIF / "notes" / f"{pid}.md"
        if pid in CLAIMED or pid in HOLD or not f.exists():
            continue
        blocks = re.findall(r"```json\n(.*?)```", f.read_text(), flags=re.S)
        for b in reversed(blocks):
            try:
                d = json.loads(b)
            except Exception:
                continue
            if "text" in d and "technique" in d:
                CLAIMED[pid] = dict(
                    category=d.get("category", "proof") if d.get("category") in ("exploration", "fault_enumeration", "model_checking", "proof", "translation_validation", "other") else "proof",
                    text=d["text"],
                    design_ref=d.get("design_ref", f"DESIGN.md §0, §5 {pid}; notes/{pid}.md"),
                    note=d.get("note", ""),
                    technique=d["technique"],
                    raw_note=True,
                )
                break


def main():
    from_notes()
    checks = []
    for pid in ALL:
        if pid not in CLAIMED:
            continue
        c = dict(CLAIMED[pid])
        for ppid, old, new in TEXT_PATCHES:
            if ppid == pid:
                if old in c["text"] or old in c["note"]:
                    c["text"] = c["text"].replace(old, new)
                    c["note"] = c["note"].replace(old, new)
                else:
                    print("note: text patch no longer applies for", pid, "-", old[:50])
        c["note"] = c["note"] + EXTRA_NOTE.get(pid, "")
        if "fixes/" in c["note"] or "fixes/" in c["text"]:
            c["note"] += (" (Every repair named above under fixes/ has since been applied to /repo as a `fix:` commit — ids in "
                          "known_findings.json; sentences about the unpatched / unrepaired / pinned tree describe the tree before those commits.)")
        checks.append(
            {
                "property_id": pid,
                "quick_cmd": f"./check {pid} --tier quick",
                "thorough_cmd": f"./check {pid} --tier thorough",
                "evidence_file": f"evidence/{pid}.json",
                "replay_cmd_template": f"./check {pid} --replay {{path}}",
                "engine": "pgfdr-lean",
                "level_claimed": {"category": c.get("category", "proof"), "text": c["text"] + EXTRA_TEXT.get(pid, ""), "design_ref": c["design_ref"]},
                "level_note": c["note"] if c.get("raw_note") else NOTE_COMMON % pid + c["note"],
                "technique": c["technique"],
            }
        )
    na = [
        {"property_id": pid, "reason": NOT_YET.get(pid, "check not built yet in this round (model, theorems and correspondence under construction; see DESIGN.md §5)")}
        for pid in ALL
        if pid not in CLAIMED
    ]
    m = {
        "version": 1,
        "setup_cmd": "/venv/bin/python harness/tables.py /repo && cd lean && lake build",
        "hooks": {
            "guard": "PICKED_GROUP_FDR_VERIF",
            "enable": "no source hooks are needed: every observation point is a Python-level function wrapped from outside by the harness (PYTHONPATH=/repo:harness/stubs); the variable is set for subprocesses but read by nothing in /repo",
            "baseline_off_cmd": "cd /repo && /venv/bin/python -m pytest -ra -q -p no:cacheprovider --timeout=900 --continue-on-collection-errors",
            "source_commits": [],
            "add_only": True,
        },
        "engines": [
            {
                "name": "pgfdr-lean",
                "path": "lean/ + harness/",
                "serves_properties": [c["property_id"] for c in checks],
                "kind_free_text": "Lean 4 library (executable model, proofs, property theorems, generated tables, native model driver) + Python correspondence harness calling the real code from /repo's working tree",
            }
        ],
        "checks": checks,
        "notes": "Fix commits in /repo are listed in known_findings.json (status fixed). ./check exits 2 on harness errors/timeouts.",
        "not_applicable": na,
    }
    (VERIF / "MANIFEST.json").write_text(json.dumps(m, indent=1, ensure_ascii=False) + "\n")
    print("claimed:", [c["property_id"] for c in checks])


if __name__ == "__main__":
    main()
