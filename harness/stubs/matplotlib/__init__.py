"""Inert import stub; pyplot is the repository's own matplotlib_mock/pyplot.py, copied at run time by harness/lib.py"""
