"""Inert import stub (absent third-party package)."""
def parallel_backend(*a, **k):
    raise RuntimeError("joblib stub")
