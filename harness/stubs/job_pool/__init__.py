"""Inert import stub (absent third-party package). Never executed beyond import."""
class JobPool:
    def __init__(self, *a, **k):
        raise RuntimeError("job_pool stub: multi-threaded runs are not available in the verification sandbox")
