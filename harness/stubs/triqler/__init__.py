"""Inert import stub (absent third-party package)."""
