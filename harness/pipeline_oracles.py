"""Property statements of C02 / C03 / C05 on a run of the WHOLE inference function, and of C19 on a run of the WHOLE
command line (harness/pipeline.py and harness/cli_model.py are not touched: their mixins are subclassed here).

The direct checks of these four properties call one stage each (`do_competition`, `group_proteins`,
`collect_peptide_scores_per_protein`, `get_protein_annotations`) on objects the harness builds itself.  What they cannot
see is how `get_protein_group_results` / `main` BUILD and FEED those stages: which strategy object a method file yields
(picking mode, grouping class, a configuration cache shared between requests), which peptide list the rescue pass hands
to the evidence collection, which identifier rule the peptide->protein maps of a command line follow.  The functions here
state each property on what was observed from outside while the real function ran (recorders of pipeline.run_impl /
cli_model.run_impl), relative to what the METHOD FILE / the COMMAND LINE declares:

  oracle_c02  every competition of the run (groups, evidence and float scores handed in; ranking that came out) satisfies
              the C02 statement (props.C02.check_call) for the strategy the method file names; picked_group => LEADING
              proteins mark (the documented default; no shipped method file overrides it).
  oracle_c03  the groups handed to the first competition satisfy the C03 statement (props.C03.check_groups) of the grouping
              the case asked for — the method file's (rescued_subset => subset in the first pass), or pseudo_gene when the
              case asks for pseudo-genes — on the peptide list of the case.
  oracle_c05  in every pass the evidence of the regular groups is exactly the join of the C05 statement
              (props.C05._join_oracle: discard / razor with md5 tie-break) of that pass's groups with the FULL peptide list
              of the case (placeholder groups appended for the picked-group rescue pass carry their first-pass evidence and
              are not part of the join); every float score is -log10 of the smallest PEP of the group's evidence (best-PEP
              methods); the peptide dictionary the caller passed in is unchanged after the call.
  c19         (command line) every written row of a method that maps peptides through the FASTA digest lists identifiers of
              the FASTA records under the run's identifier rule (accession with --fasta_use_uniprot_id, gene name with
              --gene_level unless the run falls back to pseudo-genes, else the first word), and its three annotation columns
              list, for the row's proteins in order, each distinct identifier, gene name and full header once — the truth
              comes from the headers the generator composed (cli_model.annotation_truth / universe), never from a parser.

`PipelineMixin2` additionally makes the configuration request history part of the case: a case with "prior_request" first
asks `methods.parse_method_toml` for the SAME method with the OPPOSITE pseudo-gene switch and discards the answer (a
harmless call on correct code; the replay carries the flag, so a failing input reproduces in a fresh process).
"""
from __future__ import annotations

import cli_model as cm
import pipeline as pl
from lib import rat

FIRST_PASS_MODE = {"no": "no", "subset": "subset", "rescued_subset": "subset", "pseudo_gene": "pseudo_gene"}


def _is_placeholder(g):
    return len(g) > 0 and all(p.startswith("OBSOLETE__") for p in g)


def _snapshot(pil):
    return [[p, rat(float(v[0])), list(v[1])] for p, v in pil.items()]


# ------------------------------------------------------------------------------------------------
# the real run: pipeline.run_impl, plus the request history and the caller's dictionary before / after
# ------------------------------------------------------------------------------------------------
def run_impl(case):
    from picked_group_fdr import methods
    from picked_group_fdr import picked_group_fdr as pgf

    if case.get("prior_request"):
        # an earlier, unrelated request of the same method file with the other pseudo-gene switch
        methods.parse_method_toml(case["method"], use_pseudo_genes=not bool(case.get("pseudo")))
    seen = {}
    orig = pgf.get_protein_group_results

    def gpr(*a, **k):
        pil = a[0] if a else k["peptide_info_list"]
        seen["before"] = _snapshot(pil)
        try:
            return orig(*a, **k)
        finally:
            seen["after"] = _snapshot(pil)

    pgf.get_protein_group_results = gpr
    try:
        out = pl.run_impl(case)
    finally:
        pgf.get_protein_group_results = orig
    out["_rec"]["pil_before"] = seen.get("before")
    out["_rec"]["pil_after"] = seen.get("after")
    return out


# ------------------------------------------------------------------------------------------------
# the statements
# ------------------------------------------------------------------------------------------------
def oracle_c02(case, impl_out):
    """every competition of the run satisfies the C02 statement for the strategy the method file declares"""
    from props import C02

    d = pl.method_fields(case["method"])
    strategy = d["pickedStrategy"]
    if strategy not in ("picked", "picked_group", "classic"):
        return None
    picking = "leading" if strategy == "picked_group" else None
    comps = (impl_out.get("_rec") or {}).get("comp", [])
    passes = impl_out.get("passes", [])
    for k, c in enumerate(comps):
        call = {"groups": c["groups"], "infos": c["infos"]}
        p = passes[k] if k < len(passes) else {}
        if "ranked_groups" in p:
            res = {"groups": p["ranked_groups"], "infos": p["ranked_infos"], "scores": p["ranked_scores"]}
        elif c.get("out_groups") is not None and c.get("out_infos") is not None and c.get("out_scores") is not None:
            res = {"groups": c["out_groups"], "infos": c["out_infos"], "scores": c["out_scores"]}  # no report observed: what do_competition returned
        elif impl_out.get("err") == "no_ranked_groups" and k == len(comps) - 1:
            res = {"err": "no_ranked_groups"}
        else:
            continue  # the call ended in another error: nothing came out of this competition
        why = C02.check_call(strategy, picking, call, {"scores": c["scores"]}, res)
        if why:
            return "competition of pass %d (strategy %s%s of the method file): %s" % (
                k + 1, strategy, ", leading proteins mark" if picking else "", why)
    return None


def oracle_c03(case, impl_out):
    """the groups handed to the first competition are the C03 grouping the case asked for"""
    from props import C03

    d = pl.method_fields(case["method"])
    mode = "pseudo_gene" if case.get("pseudo") else FIRST_PASS_MODE.get(d.get("grouping"))
    if mode is None:
        return None  # a grouping read from a file: not a statement about the peptide list
    passes = impl_out.get("passes", [])
    if not passes:
        return None if "err" in impl_out else "no competition was observed"
    groups = passes[0]["comp_groups"]
    why = C03.check_groups({"pil": case["pil"]}, mode, groups)
    if why:
        return "groups of the first pass (grouping %r%s): %s" % (
            d.get("grouping"), " with pseudo-genes requested" if case.get("pseudo") else "", why)
    return None


def oracle_c05(case, impl_out):
    """evidence per group = the C05 join of the pass's groups with the full peptide list; score = -log10 best PEP;
    the caller's peptide dictionary is left as it was"""
    from props import C05

    d = pl.method_fields(case["method"])
    razor = d.get("sharedPeptides") == "razor"
    mult = "multPEP" in d["scoreType"]
    P5 = C05.P()
    for k, p in enumerate(impl_out.get("passes", [])):
        groups, infos = p["comp_groups"], p["comp_infos"]
        if len(groups) != len(infos):
            return "pass %d: %d groups but %d evidence lists" % (k + 1, len(groups), len(infos))
        n = len(groups)
        while n > 0 and _is_placeholder(groups[n - 1]):
            n -= 1
        if any(_is_placeholder(g) for g in groups[:n]):
            return "pass %d: a placeholder group stands before a regular group: %r" % (k + 1, groups)
        if k == 0 and n < len(groups):
            return "pass 1: placeholder groups %r compete in the first pass" % (groups[n:],)
        why, _ = P5._join_oracle(groups[:n], case["pil"], razor, case["pil"], k > 0, {"evidence": infos[:n]})
        if why:
            return "evidence handed to the competition of pass %d (%s, all %d peptides of the list): %s" % (
                k + 1, "razor" if razor else "shared peptides discarded", len(case["pil"]), why)
        if not mult:
            for g, ev, s in zip(groups, infos, p["scores"]):
                why = P5._score_oracle({"score": "bestPEP"}, ev, {"score": s})
                if why:
                    return "pass %d, group %r: %s" % (k + 1, g, why)
    rec = impl_out.get("_rec") or {}
    before, after = rec.get("pil_before"), rec.get("pil_after")
    if before is not None and after != before:
        lost = [e[0] for e in before if e not in (after or [])]
        return "the peptide dictionary passed to get_protein_group_results was modified by the call: %d entries before, %d after (changed or missing: %r)" % (
            len(before), len(after or []), lost[:6])
    return None


class PipelineMixin2(pl.PipelineMixin):
    """pipeline.PipelineMixin with the oracles of this module (looked up first), the request history in the case and
    the caller's dictionary observed"""

    pipeline_share = 0.05
    pipeline_prior_request_share = 0.3   # share of the pipeline cases preceded by a request with the other pseudo switch
    pipeline_pseudo_share = None         # None: the 8 % of pipeline.gen_case; else redrawn with this probability

    def gen_case(self, rng, tier):
        if rng.random() < self.pipeline_share:
            case = pl.gen_case(rng, tier)
            if self.pipeline_pseudo_share is not None:
                case["pseudo"] = rng.random() < self.pipeline_pseudo_share
            if rng.random() < self.pipeline_prior_request_share:
                case["prior_request"] = True
            return case
        return super(pl.PipelineMixin, self).gen_case(rng, tier)

    def run_impl(self, case):
        if isinstance(case, dict) and case.get("kind") == "pipeline":
            return run_impl(case)
        return super().run_impl(case)

    def oracle(self, case, impl_out):
        if isinstance(case, dict) and case.get("kind") == "pipeline":
            if not isinstance(impl_out, dict) or "_rec" not in impl_out:
                return "no result"
            for name in self.pipeline_oracles:
                fn = globals().get("oracle_" + name) or getattr(pl, "oracle_" + name)
                o = fn(case, impl_out)
                if o:
                    return "pipeline (%s%s%s): %s" % (
                        case["method"], ", pseudo-genes" if case.get("pseudo") else "",
                        ", after a request of the same method with use_pseudo_genes=%s" % (not bool(case.get("pseudo"))) if case.get("prior_request") else "", o)
            return None
        return super().oracle(case, impl_out)

    def features(self, case, impl_out):
        f = super().features(case, impl_out)
        if isinstance(case, dict) and case.get("kind") == "pipeline":
            f = ["kind=pipeline"] + list(f)
            if case.get("prior_request"):
                f.append("pipeline:prior_request_other_pseudo_switch")
            d = pl.method_fields(case["method"])
            f.append("pipeline:strategy=" + str(d.get("pickedStrategy")))
            f.append("pipeline:grouping=" + ("pseudo_gene" if case.get("pseudo") else str(d.get("grouping"))))
            f.append("pipeline:shared=" + str(d.get("sharedPeptides")))
            if isinstance(impl_out, dict) and impl_out.get("passes"):
                ps = impl_out["passes"]
                if any(len(g) > 1 for g in ps[0]["comp_groups"]):
                    f.append("pipeline:multi_protein_group")
                if any("ranked_groups" in p and len(p["ranked_groups"]) < sum(1 for e in p["comp_infos"] if e) for p in ps):
                    f.append("pipeline:group_removed_by_competition")
                if len(ps) > 1 and ps[0]["comp_groups"] != ps[1]["comp_groups"]:
                    f.append("pipeline:rescue_regrouped")
        return f


# ------------------------------------------------------------------------------------------------
# command line: statements on the written table that need the FASTA headers of the case (not only the recorded call)
# ------------------------------------------------------------------------------------------------
def table_statement_c19(case, name, text):
    """identifiers under the run's rule and the three annotation columns of every written row"""
    if case.get("flags", {}).get("gene_level") and case.get("fasta") and gene_level_decision(case)[0] is None:
        return None  # exactly half of the records carry a gene name: the property text does not decide the identifier rule
    t = cm.shipped()[name]
    hdr, rows = cm.read_table(text)
    if hdr[len(cm.BASE_HEADERS):] != cm.ANN_HEADERS:
        return "the columns after the nine base columns are %r, expected %r" % (hdr[len(cm.BASE_HEADERS):], cm.ANN_HEADERS)
    ix = {h: i for i, h in enumerate(hdr)}
    ann = cm.annotation_truth(case)
    uni = cm.universe(case)
    rule = cm.id_rule(case["flags"], cm.falls_back_to_pseudo_genes(case))
    rule_text = {"gene": "gene names (--gene_level)", "uniprot": "accessions (--fasta_use_uniprot_id%s)" % (
        ", --gene_level falling back to pseudo-genes" if case["flags"].get("gene_level") else ""),
        "first": "the first word of the header%s" % (" (--gene_level falling back to pseudo-genes)" if case["flags"].get("gene_level") else "")}[rule]
    if not cm.remaps(t):
        uni = uni | cm._file_proteins(case, t)  # the method reports the proteins the evidence file lists
    for k, r in enumerate(rows, 1):
        if len(r) != len(hdr):
            return "row %d has %d fields, the header has %d" % (k, len(r), len(hdr))
        ids = r[ix["Protein IDs"]].split(";")
        for p in ids:
            if p not in uni:
                return "row %d lists protein %r; the identifiers of the FASTA records under the run's rule — %s — are e.g. %r" % (
                    k, p, rule_text, sorted(uni)[:4])
        found = [ann[p] for p in ids if p in ann]
        names = list(dict.fromkeys(p for p in ids if p in ann))
        genes = list(dict.fromkeys(g for _, g in found if g is not None))
        hdrs = list(dict.fromkeys(h for h, _ in found))
        want = [";".join(names), ";".join(genes), ";".join(hdrs)]
        got = [r[ix[h]] for h in cm.ANN_HEADERS]
        if got != want:
            return "row %d (%s): annotation columns %r, the FASTA headers say %r" % (k, r[ix["Protein IDs"]], got, want)
    return None


TABLE_STATEMENTS = {"c19": table_statement_c19}

# (gene_level, use_uniprot, contains_decoys, falls back to pseudo-genes) the generator aims at, with weights: the
# combinations of the two identifier switches on gene-poor databases (where the rule of the digest and the rule of the
# annotations must both follow the fall-back) most often; None = any
FLAG_TARGETS = [
    ((True, True, None, True), 5), ((True, True, False, True), 1), ((True, True, True, True), 1),
    ((True, True, None, False), 3), ((True, True, True, False), 1),
    ((True, False, None, True), 3), ((True, False, True, True), 1),
    ((True, False, None, False), 2),
    ((False, True, False, None), 2), ((False, True, True, None), 2),
    ((False, False, None, None), 1),
]


def gen_cli_case_for_flags(rng, tier, tries=500):
    """cli_model.gen_case, redrawn until the identifier switches / database kind drawn from FLAG_TARGETS are met"""
    pool = [t for t, w in FLAG_TARGETS for _ in range(w)]
    target = rng.choice(pool)
    case = None
    for _ in range(tries):
        case = cm.gen_case(rng, tier)
        f = case["flags"]
        got = (bool(f.get("gene_level")), bool(f.get("use_uniprot")), bool(f.get("contains_decoys")), None)
        if any(w is not None and w != g for w, g in zip(target[:3], got[:3])):
            continue
        if target[3] is not None and cm.falls_back_to_pseudo_genes(case) != target[3]:
            continue
        return case
    return case


class CliStatementMixin(cm.CliMixin):
    """cli_model.CliMixin whose `cli_oracles` may also name the table statements of this module ("c19"); the other names
    go to cli_model.statement_oracle as before.  `cli_flag_targets`: draw the cases with gen_cli_case_for_flags."""

    cli_flag_targets = False

    def gen_case(self, rng, tier):
        if rng.random() < self.cli_model_share:
            return gen_cli_case_for_flags(rng, tier) if self.cli_flag_targets else cm.gen_case(rng, tier)
        return super(cm.CliMixin, self).gen_case(rng, tier)

    def features(self, case, impl_out):
        f = super().features(case, impl_out)
        if isinstance(case, dict) and case.get("kind") == "cli_model":
            fl = case["flags"]
            f.append("cli_flags:%s%s%s on %s" % (
                "gene_level" if fl.get("gene_level") else "protein_level", "+use_uniprot" if fl.get("use_uniprot") else "",
                "+contains_decoys" if fl.get("contains_decoys") else "",
                ("gene-poor FASTA (pseudo-gene fall-back)" if cm.falls_back_to_pseudo_genes(case) else "gene-rich FASTA") if fl.get("gene_level") else "any FASTA"))
        return f

    def oracle(self, case, impl_out):
        if isinstance(case, dict) and case.get("kind") == "cli_model" and self.cli_oracles is not None:
            own = [s for s in self.cli_oracles if s in TABLE_STATEMENTS]
            rest = tuple(s for s in self.cli_oracles if s not in TABLE_STATEMENTS)
            o = cm.statement_oracle(case, impl_out, rest)  # run completed, every method with input wrote a table, + `rest`
            if o is None and own and impl_out.get("err") is None:
                sm = cm.shipped()
                for name, c in zip(case["methods"], impl_out["_rec"]["calls"]):
                    if not case["evidence"].get(cm.input_of(sm[name])):
                        continue
                    for s in own:
                        o = TABLE_STATEMENTS[s](case, name, c["written"]["text"])
                        if o:
                            o = "method %s, written table %s: %s" % (name, c["written"]["file"], o)
                            break
                    if o:
                        break
            return None if o is None else "command line %s: %s" % (cm.describe(case), o)
        return super().oracle(case, impl_out)


# ------------------------------------------------------------------------------------------------
# the second argument of the inference function: a MaxQuant proteinGroups.txt (`mq_protein_groups_file`,
# `--mq_protein_groups`).  case["mq"]: None (falsy argument) | "unreadable" (a path without a file) |
# {"header": [cell…], "rows": [[cell…]…]} (the table as csv.reader yields it; cells without tab / quote / line break)
# ------------------------------------------------------------------------------------------------
def mq_table_text(table):
    return "".join("\t".join(r) + "\n" for r in [table["header"]] + table["rows"])


def mq_file_argument(case, directory):
    """the value to pass as `mq_protein_groups_file` for case["mq"]; a table is written to <directory>/proteinGroups.txt"""
    import os

    mq = case.get("mq")
    if mq is None:
        return case.get("mq_falsy")          # None or ""
    path = os.path.join(directory, "proteinGroups.txt")
    if mq != "unreadable":
        with open(path, "w", newline="", encoding="utf-8") as f:
            f.write(mq_table_text(mq))
    return path


def run_impl_mq(case):
    """`run_impl` (above) with case["mq"] handed to the real `get_protein_group_results` as `mq_protein_groups_file` —
    harness/pipeline.py calls the function through the module attribute without that argument, so it is added on the
    way in.  No shipped method file asks for a MaxQuant-native grouping: whatever file is passed, the groups of the run
    are a statement about the peptide list (props.C03 / Props/C03.lean `grouping_independent_of_file`), and the model
    request stays the one of the case without a file."""
    import shutil
    import tempfile

    from picked_group_fdr import picked_group_fdr as pgf

    if "mq" not in case:
        return run_impl(case)
    d = tempfile.mkdtemp(prefix="c03mq")
    arg = mq_file_argument(case, d)
    orig = pgf.get_protein_group_results

    def with_file(*a, **k):
        if len(a) < 2 and "mq_protein_groups_file" not in k:
            k["mq_protein_groups_file"] = arg
        return orig(*a, **k)

    pgf.get_protein_group_results = with_file
    try:
        out = run_impl(case)
    finally:
        pgf.get_protein_group_results = orig
        shutil.rmtree(d, ignore_errors=True)
    return out


# ------------------------------------------------------------------------------------------------
# C19, last sentence, on a whole command line: "gene-level reporting uses the gene names as identifiers unless most
# records lack one, in which case pseudo-genes from shared peptides are used instead" — for EVERY method of the run
# ------------------------------------------------------------------------------------------------
def gene_level_decision(case):
    """(falls back to pseudo-genes, records with a gene name, records) decided from the FASTA text of the case alone.
    The rule is the one of protein_annotation.get_protein_annotations: the annotation table has one entry per identifier
    (first word of the header, or its accession with --fasta_use_uniprot_id; first record of a file wins, a later file
    replaces; without --fasta_contains_decoys every record also enters as `REV__` + header), and
    `has_gene_names(table, min_ratio_with_genes=0.5)` (protein_annotation.py, `counts / len(table) > 0.5`) must hold for
    gene names to be used: STRICTLY more than half of the entries carry a non-empty GN= field; at exactly one half, or
    below, the run falls back.  (None, 0, 0): not a gene-level run, or no --fasta (no annotations, no fall-back)."""
    f = case["flags"]
    if not f.get("gene_level") or not case.get("fasta"):
        return None, 0, 0
    table = {}
    for lines in case["fasta"]:
        one = {}
        for line in lines:
            line = line.rstrip()
            if not line.startswith(">"):
                continue
            for h in ([line[1:]] if f.get("contains_decoys") else [line[1:], "REV__" + line[1:]]):
                word = h.split(" ", 1)[0]
                key = word.split("|")[1] if (f.get("use_uniprot") and "|" in word) else word
                gene = h.split(" GN=", 1)[1].split(" ", 1)[0] if " GN=" in h else None
                one.setdefault(key, gene)
        table.update(one)
    if not table:
        return None, 0, 0
    with_gene = sum(1 for g in table.values() if g)
    if 2 * with_gene == len(table):
        # exactly half: "unless most records lack one" does not decide this case (the code falls back); not judged
        return None, with_gene, len(table)
    return not (2 * with_gene > len(table)), with_gene, len(table)


def gene_names_of(case):
    """the identifiers of a gene-level run that does NOT fall back: the GN= value of every record that has one (and its
    REV__ form: generated decoys are named after the target's identifier; a file's own decoy records carry the gene too)"""
    out = set()
    for lines in case["fasta"]:
        for line in lines:
            line = line.rstrip()
            if line.startswith(">") and " GN=" in line:
                g = line.split(" GN=", 1)[1].split(" ", 1)[0]
                if g:
                    out.update((g, "REV__" + g))
    return out


def oracle_c19_gene_level(case, impl_out):
    """every method of a --gene_level run: pseudo-genes (the C03 pseudo-gene statement on the method's ingested peptide
    list, for the groups handed to its first competition) when the FASTA makes the run fall back — whatever grouping the
    method file names —, gene names as identifiers of every method that maps its peptides through the digest otherwise"""
    from props import C03

    falls_back, with_gene, n = gene_level_decision(case)
    if falls_back is None or not isinstance(impl_out, dict) or impl_out.get("err") is not None:
        return None
    sm = cm.shipped()
    genes = None if falls_back else gene_names_of(case)
    for name, m in zip(case["methods"], impl_out.get("methods") or []):
        if not m or not m.get("passes"):
            continue  # no input file for this method (skipped with a warning) / nothing competed
        groups = m["passes"][0]["comp_groups"]
        if falls_back:
            why = C03.check_groups({"pil": m["pil"]}, "pseudo_gene", groups)
            if why:
                return ("--gene_level on a FASTA where %d of %d records carry a gene name (not more than half: pseudo-genes from "
                        "shared peptides are to be used), method %s (grouping %r in its file): the groups handed to its first "
                        "competition are %r — %s" % (with_gene, n, name, sm[name].get("grouping"), groups, why))
        elif cm.remaps(sm[name]):
            for g in groups:
                for p in g:
                    if p not in genes:
                        return ("--gene_level on a FASTA where %d of %d records carry a gene name (more than half: gene names are "
                                "the identifiers), method %s: protein %r of group %r is not a gene name of a FASTA record (e.g. %r)" % (
                                    with_gene, n, name, p, g, sorted(genes)[:4]))
    return None


def gen_cli_case_gene_level(rng, tier, want_no_grouping=0.6, tries=40):
    """gen_cli_case_for_flags; when the drawn command line is a gene-level run that falls back to pseudo-genes and none of
    its methods names the grouping `no`, it is redrawn (with probability `want_no_grouping`) until one does: the fall-back
    must reach the methods whose own grouping is not subset-based as well"""
    case = gen_cli_case_for_flags(rng, tier)
    if rng.random() >= want_no_grouping:
        return case
    sm = cm.shipped()
    for _ in range(tries):
        if not gene_level_decision(case)[0] or any(sm[n].get("grouping") not in ("subset", "rescued_subset") for n in case["methods"]):
            return case
        case = gen_cli_case_for_flags(rng, tier)
    return case
