"""Fresh-process reference for C07: reads {"method", "pil", "thr", "psm", "keep"} from stdin, seeds numpy
with 1 (as the CLI does), runs get_protein_group_results once and prints the canonical rows as JSON."""
import json
import sys
from pathlib import Path

sys.path.insert(0, str(Path(__file__).resolve().parent))
import lib  # noqa: E402

lib.setup_impl_path()
from props.C07 import call_once  # noqa: E402

case = json.loads(sys.stdin.read())
print(json.dumps(call_once(case["method"], None, case["pil"], case)))
