"""Fresh-process references for C07.

default: reads {"method", "pil", "thr", "psm", "keep"} from stdin, seeds numpy with 1 (as the CLI does), runs
get_protein_group_results once and prints the canonical rows as JSON.
`c07_fresh.py stream`: reads a "cli_stream" case from stdin, runs the real main(argv) in THIS process (under the
PYTHONHASHSEED the caller set) with the recorders of harness/cli_model.py and the process-level recorder of
np.random.shuffle, recomputes the same command line in command-line order, and prints everything as one JSON line."""
import json
import sys
from pathlib import Path

sys.path.insert(0, str(Path(__file__).resolve().parent))
import lib  # noqa: E402

lib.setup_impl_path()
from props.C07 import call_once, run_stream_here  # noqa: E402

case = json.loads(sys.stdin.read())
if len(sys.argv) > 1 and sys.argv[1] == "stream":
    out = lib._safe(run_stream_here, case)
    print(json.dumps(out, default=str))
else:
    print(json.dumps(call_once(case["method"], None, case["pil"], case)))
