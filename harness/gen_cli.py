"""Generator of consistent CLI inputs (FASTA + MaxQuant evidence.txt) for process-level checks.

A database is built from a pool of tryptic peptides (each ends in K/R, contains no other K/R and does not
start with P), so that proteins share peptides on purpose; the decoy database is computed here the way the
tool documents it (reversed sequence, every special residue K/R swapped with its predecessor) with the
harness's own code, and PSMs are drawn from the target and decoy peptides.  Nothing here imports the package.
"""
from __future__ import annotations

from gen_pil import PEP_GRID

CORE = "ACDEFGHILNQSTVWY"  # no K, R, P, M


def make_peptide(rng, used):
    while True:
        s = "".join(rng.choice(CORE) for _ in range(rng.randint(6, 10))) + rng.choice("KR")
        if s not in used:
            used.add(s)
            return s


def swap_special(seq, special="KR"):
    s = list(seq)
    for i in range(1, len(s)):
        if s[i] in special:
            s[i], s[i - 1] = s[i - 1], s[i]
    return "".join(s)


def decoy_seq(seq):
    return swap_special(seq[::-1])


def tryptic(seq, min_len=5, max_len=60):
    """fully tryptic peptides without missed cleavages (K/R not before P)"""
    out, start = [], 0
    for i, c in enumerate(seq):
        if c in "KR" and not (i + 1 < len(seq) and seq[i + 1] == "P"):
            out.append(seq[start: i + 1])
            start = i + 1
    if start < len(seq):
        out.append(seq[start:])
    return [p for p in out if min_len <= len(p) <= max_len]


def gen_database(rng, n_prot=None):
    n = n_prot or rng.randint(2, 6)
    used = set()
    pool_shared = [make_peptide(rng, used) for _ in range(rng.randint(1, 4))]
    db = []
    for i in range(1, n + 1):
        peps = [make_peptide(rng, used) for _ in range(rng.randint(0, 3))]
        for s in pool_shared:
            if rng.random() < 0.45:
                peps.insert(rng.randint(0, len(peps)), s)
        if not peps:
            peps = [rng.choice(pool_shared)]
        db.append(("P%d" % i, "".join(peps)))
    # proteins that end up in ONE group with others (member order then depends on the order of each peptide's
    # protein list): a sub-protein, and isoforms with the same peptides in another arrangement
    if rng.random() < 0.5 and len(db) >= 2:
        src = rng.choice(db)
        t = tryptic(src[1])
        if len(t) >= 2:
            db.append(("P%d" % (len(db) + 1), "".join(t[: rng.randint(1, len(t) - 1)])))
    for _ in range(rng.choice([0, 1, 1, 2])):
        src = rng.choice(db)
        t = tryptic(src[1])
        if t:
            t = t[:]
            rng.shuffle(t)
            db.append(("P%d" % (len(db) + 1), "".join(t)))
    if rng.random() < 0.5:  # realistic identifiers (their hashes, hence set orders, differ from the short ones)
        db = [("sp|Q%05d|%s_HUMAN" % (rng.randint(0, 99999), pid), seq) for pid, seq in db]
    return db


def peptide_map(db):
    """peptide -> proteins (targets and REV__ decoys) in database order, 0 missed cleavages"""
    m = {}
    for pid, seq in db:
        for p in dict.fromkeys(tryptic(seq)):
            m.setdefault(p, []).append(pid)
    for pid, seq in db:
        for p in dict.fromkeys(tryptic(decoy_seq(seq))):
            m.setdefault(p, []).append("REV__" + pid)
    return m


def gen_psms(rng, db, n_exp=1, with_quant=False):
    """list of PSM dicts: peptide, proteins (targets only if any target), pep, experiment, charge, intensity, fraction"""
    m = peptide_map(db)
    peps = sorted(m)
    rng.shuffle(peps)
    psms = []
    for p in peps:
        prots = m[p]
        if any(not q.startswith("REV__") for q in prots):
            prots = [q for q in prots if not q.startswith("REV__")]
            keep = rng.random() < 0.8
            grid = PEP_GRID
        else:
            keep = rng.random() < 0.45
            grid = PEP_GRID[:12]
        if not keep:
            continue
        for _ in range(rng.choice([1, 1, 1, 2, 3])):
            psms.append(
                {
                    "peptide": p,
                    "proteins": prots,
                    "pep": rng.choice(grid),
                    "experiment": "exp%d" % rng.randint(1, n_exp),
                    "charge": rng.choice([2, 2, 3]),
                    "intensity": rng.randint(1, 2000) * 1000,
                    "fraction": 1,
                }
            )
    rng.shuffle(psms)
    return psms


def write_fasta(path, db, rng=None):
    with open(path, "w") as fh:
        for pid, seq in db:
            fh.write(f">{pid}\n")
            if rng is not None and rng.random() < 0.5 and len(seq) > 12:
                w = rng.randint(7, 30)
                for i in range(0, len(seq), w):
                    fh.write(seq[i: i + w] + "\n")
            else:
                fh.write(seq + "\n")


EV_COLS = ["Modified sequence", "Leading proteins", "Leading razor protein", "Score", "PEP", "Raw file", "Experiment", "Charge",
           "Intensity", "Fraction", "id"]


def write_evidence(path, psms):
    with open(path, "w") as fh:
        fh.write("\t".join(EV_COLS) + "\n")
        for i, s in enumerate(psms):
            fh.write(
                "\t".join(
                    [f"_{s['peptide']}_", ";".join(s["proteins"]), s["proteins"][0], "100", repr(float(s["pep"])), "raw_" + s["experiment"],
                     s["experiment"], str(s["charge"]), str(s["intensity"]), str(s["fraction"]), str(i)]
                )
                + "\n"
            )


# ------------------------------------------------------------------------------------------------
# additions for the command-line glue model (harness/cli_model.py): FASTA headers of several styles, an
# own fully-specific digestion with missed cleavages for a few proteases, per-file digestion parameters
# ------------------------------------------------------------------------------------------------
CLEAVE_AFTER = {"trypsin": "KR", "trypsinp": "KR", "lys-c": "K", "lys-cp": "K", "arg-c": "R"}
ORGANISMS = ["Homo sapiens", "Mus musculus"]
DESC_WORDS = ["Kinase", "alpha", "subunit", "binding", "protein", "2", "isoform", "C-terminal", "factor"]


def digest_full(seq, enzyme="trypsin", mc=0, min_len=7, max_len=60):
    """fully specific peptides of a sequence WITHOUT proline and without an initiator methionine (the generated
    databases have neither), up to `mc` missed cleavages, in the order start position, then length"""
    after = CLEAVE_AFTER[enzyme]
    cuts = [0] + [i + 1 for i, c in enumerate(seq) if c in after and i + 1 < len(seq)] + [len(seq)]
    out = []
    for a in range(len(cuts) - 1):
        for b in range(a + 1, min(a + 1 + mc, len(cuts) - 1) + 1):
            p = seq[cuts[a]: cuts[b]]
            if min_len <= len(p) <= max_len:
                out.append(p)
    return out


def gen_headers(rng, db, style, gene_share):
    """db: [(pid, seq)] with plain pids -> [(header, seq, ident-by-rule dict)].  style: 'plain' | 'desc' | 'uniprot'.
    `gene_share`: probability that a UniProt-style header carries a GN= field; isoforms may share a gene."""
    out = []
    genes = []
    for k, (pid, seq) in enumerate(db):
        pid = pid.split("|")[2].split("_")[0] if "|" in pid else pid
        if style == "plain":
            hdr = pid
        elif style == "desc":
            hdr = pid + " " + " ".join(rng.choice(DESC_WORDS) for _ in range(rng.randint(1, 3)))
        else:
            acc = "Q%05d" % (10000 + 7 * k + rng.randint(0, 6))
            words = [rng.choice(DESC_WORDS) for _ in range(rng.randint(1, 4))]
            hdr = "sp|%s|%s_HUMAN %s OS=%s OX=9606" % (acc, pid, " ".join(words), rng.choice(ORGANISMS))
            if rng.random() < gene_share:
                g = rng.choice(genes) if genes and rng.random() < 0.3 else "GENE%d" % (len(genes) + 1)
                if g not in genes:
                    genes.append(g)
                hdr += " GN=" + g
            hdr += " PE=%d SV=1" % rng.randint(1, 5)
        out.append((hdr, seq))
    return out


def ident(header, rule):
    """the identifier a header gets under a rule ('first' | 'uniprot' | 'gene'); None = record skipped"""
    first = header.split(" ")[0]
    if rule == "first":
        return first
    if rule == "uniprot":
        return first.split("|")[1] if "|" in first else first
    if " GN=" in header:
        return header.split(" GN=")[1].split(" ")[0]
    return None


def fasta_text(records, rng=None):
    """records: [(header, seq)] -> list of lines (each ending in a newline)"""
    lines = []
    for hdr, seq in records:
        lines.append(">" + hdr + "\n")
        if rng is not None and rng.random() < 0.4 and len(seq) > 12:
            w = rng.randint(7, 30)
            for i in range(0, len(seq), w):
                lines.append(seq[i: i + w] + "\n")
        else:
            lines.append(seq + "\n")
    return lines


# ------------------------------------------------------------------------------------------------
# names of generated input files and their order on the command line
# ------------------------------------------------------------------------------------------------
# (no ".csv" / ".parquet": those extensions switch the reader)
FILE_STEMS = {
    "mq": (["evidence", "evidence_sample2", "sample1_evidence", "Evidence_B", "evidence10", "evidence2", "combined_evidence", "msms"], ".txt"),
    "perc": (["percolator.target.psms", "percolator.decoy.psms", "pout", "pout_decoys", "andromeda.psms", "Target_results", "decoy_results"], ".txt"),
    "mokapot": (["mokapot.psms", "mokapot.decoy.psms", "run2.mokapot.psms", "Run1.mokapot.psms"], ".txt"),
    "fragpipe": (["psm", "psm_rep2", "exp1_psm", "PSM_b"], ".tsv"),
    "sage": (["results.sage", "results2.sage", "Lib.results.sage", "a_results.sage"], ".tsv"),
    "diann": (["report", "report_lib2", "Report_B", "diann_report"], ".tsv"),
    "fasta": (["uniprot_human", "contaminants", "db", "isoforms", "Swissprot_2023", "a_extra_entries"], ".fasta"),
    "map": (["peptide_protein_map", "map_lysc", "Map_trypsin", "digest2"], ".tsv"),
}
FILE_DIRS = ["run_b", "run_a", "batch2/txt", "batch10/txt", "Zebra", "a.d", "sample1/combined/txt", "sample2/combined/txt"]


def file_names(rng, n, kind):
    """n distinct relative paths for generated files of one kind, in the ORDER in which they are to be given on the
    command line.  Sorted order is the exception (n = 2: 20 %, n = 3: 7 %); 30 % of the multi-file sets use ONE file name
    in n different directories (the layout of several MaxQuant / Percolator runs)."""
    stems, ext = FILE_STEMS[kind]
    if n > 1 and rng.random() < 0.3:
        stem = rng.choice(stems)
        names = [d + "/" + stem + ext for d in rng.sample(FILE_DIRS, n)]
    else:
        names = []
        while len(names) < n:
            d = rng.choice(FILE_DIRS) + "/" if rng.random() < 0.4 else ""
            p = d + rng.choice(stems) + ext
            if p not in names:
                names.append(p)
    if n > 1 and names == sorted(names) and rng.random() < 0.6:
        names.reverse()
    return names


def default_names(n, kind, seed):
    """names for file sets whose case does not carry any (deterministic in `seed`)"""
    import random

    return file_names(random.Random("names:%s:%s:%d" % (kind, seed, n)), n, kind)


def write_once(d, rel, writer):
    """create d/rel (with its directories) through writer(path) unless it exists already (a file mentioned twice on
    the command line is ONE file); returns the path"""
    import os

    p = os.path.join(d, *rel.split("/"))
    if not os.path.exists(p):
        os.makedirs(os.path.dirname(p), exist_ok=True)
        writer(p)
    return p


# ------------------------------------------------------------------------------------------------
# additions for process-level runs in which the list-valued options carry SEVERAL values (C07 hash-seed
# stage): proteins duplicated under another identifier, a database split over several FASTA files so that
# proteins sharing peptides land in different files, Percolator-style evidence, peptide-protein map files.
# Nothing above is changed by these helpers.
# ------------------------------------------------------------------------------------------------
def add_duplicates(rng, db, n=None):
    """db plus copies of `n` (default 1-2) of its proteins: same sequence, another identifier (the way a reviewed
    and an unreviewed database list one protein twice).  Copies are appended; identifiers stay distinct."""
    out = list(db)
    have = {pid for pid, _ in db}
    k = n if n is not None else rng.choice([1, 1, 2])
    for pid, seq in rng.sample(db, min(k, len(db))):
        if "|" in pid:
            parts = pid.split("|")
            new = "tr|A%05d|%s" % (rng.randint(0, 99999), parts[2])
        else:
            new = pid + rng.choice(["b", "_2", "x"])
        if new not in have:
            have.add(new)
            out.append((new, seq))
    return out


def protein_peptides(seq, min_len=5):
    """target and generated-decoy peptides of a protein (0 missed cleavages)"""
    return set(tryptic(seq, min_len)) | set(tryptic(decoy_seq(seq), min_len))


def split_database(rng, db, n_files):
    """partition of db into at most n_files non-empty lists (database order kept inside every list): a protein goes to
    the file with which it shares the fewest peptides (then the smallest file, then at random), so proteins that
    share peptides - duplicates above all - land in DIFFERENT files whenever there is room."""
    n_files = max(1, min(n_files, len(db)))
    peps = [protein_peptides(seq) for _, seq in db]
    owner = [None] * len(db)
    order = list(range(len(db)))
    rng.shuffle(order)
    # proteins that share most go first, so that they still find an empty file
    order.sort(key=lambda i: -sum(len(peps[i] & peps[j]) for j in range(len(db)) if j != i))
    for i in order:
        cost = []
        for f in range(n_files):
            members = [j for j in range(len(db)) if owner[j] == f]
            cost.append((sum(len(peps[i] & peps[j]) for j in members), len(members), rng.random(), f))
        owner[i] = min(cost)[3]
    files = [[db[i] for i in range(len(db)) if owner[i] == f] for f in range(n_files)]
    while any(not f for f in files):  # cannot happen often: fill an empty file from the largest one
        big = max(files, key=len)
        empty = next(f for f in files if not f)
        empty.append(big.pop())
    return files


def shared_across_files(files):
    """peptides (target or decoy, 0 missed cleavages) that proteins of at least two different files yield"""
    seen = {}
    for k, f in enumerate(files):
        for _, seq in f:
            for p in protein_peptides(seq):
                seen.setdefault(p, set()).add(k)
    return sorted(p for p, ks in seen.items() if len(ks) > 1)


def split_psms(rng, psms, n_files):
    """n_files non-empty lists of PSMs; some PSMs appear (with another PEP) in a second file"""
    n_files = max(1, min(n_files, len(psms))) if psms else 1
    files = [[] for _ in range(n_files)]
    for k, s in enumerate(psms):
        files[k % n_files if k < n_files else rng.randrange(n_files)].append(s)
        if n_files > 1 and rng.random() < 0.2:
            files[rng.randrange(n_files)].append(dict(s, pep=rng.choice(PEP_GRID)))
    return files


PERC_COLS = ["PSMId", "score", "q-value", "posterior_error_prob", "peptide", "proteinIds"]


def percolator_text(psms):
    """native Percolator output: flanked peptides, one protein per trailing column"""
    lines = ["\t".join(PERC_COLS) + "\n"]
    for i, s in enumerate(psms):
        lines.append("\t".join(["raw_%s_%d_%d_1" % (s["experiment"], i, s["charge"]), "1.0", "0.01", repr(float(s["pep"])),
                                "-." + s["peptide"] + ".-"] + list(s["proteins"])) + "\n")
    return "".join(lines)


def evidence_text(psms):
    """the text write_evidence writes"""
    lines = ["\t".join(EV_COLS) + "\n"]
    for i, s in enumerate(psms):
        lines.append("\t".join([f"_{s['peptide']}_", ";".join(s["proteins"]), s["proteins"][0], "100", repr(float(s["pep"])),
                                "raw_" + s["experiment"], s["experiment"], str(s["charge"]), str(s["intensity"]), str(s["fraction"]),
                                str(i)]) + "\n")
    return "".join(lines)


def peptide_protein_map_text(db, min_len=5, mc=0):
    """a --peptide_protein_map file: peptide <tab> proteins joined by ';' (targets in database order, then decoys)"""
    m = {}
    for prefix, f in (("", lambda s: s), ("REV__", decoy_seq)):
        for pid, seq in db:
            for p in dict.fromkeys(digest_full(f(seq), "trypsin", mc, min_len, 60)):
                m.setdefault(p, []).append(prefix + pid)
    return "".join("%s\t%s\n" % (p, ";".join(q)) for p, q in m.items())


# ------------------------------------------------------------------------------------------------
# additions for runs RICH IN TIES (C07 hash-seed / fresh-process stages, C14 written-table exhibit): many protein
# groups with exactly the same best PEP, targets and decoys interleaved, so that the position of a method in the
# run's random stream (and any re-ordering of equal scores) shows in the written bytes.  Nothing above is changed.
# ------------------------------------------------------------------------------------------------
TIE_LEVELS = [[0.001], [0.001, 0.01], [0.0001, 0.001, 0.02], [0.01, 0.01, 0.002]]


def gen_tied_database(rng, n_prot=None):
    """[(id, sequence)]: n proteins (default 8-14), each with one or two peptides of its OWN (so that nearly every
    protein - and its generated decoy - is a group of its own under every grouping), one peptide shared by two of
    them; realistic identifiers half of the time"""
    n = n_prot or rng.randint(8, 14)
    used = set()
    db = []
    for i in range(1, n + 1):
        db.append(["P%d" % i, [make_peptide(rng, used) for _ in range(rng.choice([1, 1, 2]))]])
    if n >= 2 and rng.random() < 0.6:
        a, b = rng.sample(range(n), 2)
        s = make_peptide(rng, used)
        db[a][1].insert(rng.randint(0, len(db[a][1])), s)
        db[b][1].insert(rng.randint(0, len(db[b][1])), s)
    db = [(pid, "".join(peps)) for pid, peps in db]
    if rng.random() < 0.5:
        db = [("sp|Q%05d|%s_HUMAN" % (rng.randint(0, 99999), pid), seq) for pid, seq in db]
    return db


def gen_tied_psms(rng, db, n_exp=1, levels=None):
    """PSM dicts (the shape of gen_psms) with PEPs from a grid of one to three values: most target and decoy
    peptides are identified once, so many proteins and many generated decoys share exactly the same best PEP;
    the rows are shuffled (targets and decoys interleaved)"""
    levels = levels or rng.choice(TIE_LEVELS)
    m = peptide_map(db)
    peps = sorted(m)
    rng.shuffle(peps)
    psms = []
    for p in peps:
        prots = m[p]
        target = any(not q.startswith("REV__") for q in prots)
        if target:
            prots = [q for q in prots if not q.startswith("REV__")]
        if rng.random() > (0.9 if target else 0.75):
            continue
        for _ in range(rng.choice([1, 1, 1, 2])):
            psms.append({"peptide": p, "proteins": prots, "pep": rng.choice(levels), "experiment": "exp%d" % rng.randint(1, n_exp),
                         "charge": rng.choice([2, 2, 3]), "intensity": rng.randint(1, 2000) * 1000, "fraction": 1})
    rng.shuffle(psms)
    return psms


def gen_triangle_database(rng, n_tri=None, n_plain=None):
    """[(id, sequence)]: 3-5 TRIANGLES of proteins without a peptide of their own (a-b, b-c, c-a each share one
    peptide, so within a triangle every protein has the same number of shared peptides and the same degree in the
    peptide-protein graph) plus a few ordinary proteins with peptides of their own.  Several connected components of
    groups without unique peptides with tied members: what the rescue step / pseudo-gene grouping hand to the graph
    code (component order, leading protein of a merged group)."""
    used = set()
    db = []
    k = 0
    for t in range(n_tri or rng.randint(3, 5)):
        ab, bc, ca = (make_peptide(rng, used) for _ in range(3))
        for seq in (ab + ca, ab + bc, bc + ca):
            k += 1
            db.append(("T%d" % k, seq))
    for i in range(n_plain if n_plain is not None else rng.randint(3, 6)):
        db.append(("P%d" % (i + 1), "".join(make_peptide(rng, used) for _ in range(rng.choice([1, 2])))))
    rng.shuffle(db)
    if rng.random() < 0.5:
        db = [("sp|Q%05d|%s_HUMAN" % (rng.randint(0, 99999), pid), seq) for pid, seq in db]
    return db
