"""Structured generator of peptide-info lists (peptide -> (PEP, [proteins])) for pipeline-level checks.

Inputs are built from templates rather than i.i.d. bits, because only ~2 % of unstructured random
inputs exercise a rescue merge (DESIGN.md §17): unique peptides, shared peptides, nested chains,
equal peptide sets, chains / cycles / stars of shared-only peptides, weak unique peptides that a
rescue cutoff removes, decoy mirrors of target structures, contaminants, tied PEPs.
All randomness comes from the `random.Random` passed in.
"""
from __future__ import annotations

PEP_GRID = [m * 10.0**-e for e in range(1, 7) for m in (1, 2, 5)]  # strictly monotone under -log10
AA = "ACDEFGHILNQSTVWY"


def _pep_name(rng, used):
    while True:
        s = "".join(rng.choice(AA) for _ in range(rng.randint(6, 9))) + rng.choice("KR")
        if s not in used:
            used.add(s)
            return s


def gen_pil(rng, tier="quick", allow_dups=True, allow_contaminants=True, max_targets=None):
    """returns a list of [peptide, pep(float), [proteins]] in dict insertion order"""
    nt = rng.randint(1, max_targets or (6 if tier == "quick" else 9))
    targets = ["P%d" % i for i in range(1, nt + 1)]
    used = set()
    entries = []  # (peptide, pep, proteins)
    strong = lambda: rng.choice(PEP_GRID[6:])  # noqa: E731  <= 1e-3
    weak = lambda: rng.choice(PEP_GRID[:6])  # noqa: E731   >= 1e-2
    anyp = lambda: rng.choice(PEP_GRID)  # noqa: E731

    def add(prots, pep):
        entries.append([_pep_name(rng, used), pep, list(prots)])

    # --- target structures
    for p in targets:
        r = rng.random()
        if r < 0.55:
            for _ in range(rng.randint(1, 3)):
                add([p], anyp())
        elif r < 0.7:
            add([p], weak())  # a unique peptide that a rescue cutoff may remove
        # else: no unique peptide -> lives on shared peptides only
    nshared = rng.randint(0, max(1, nt))
    for _ in range(nshared):
        k = min(nt, rng.choice([2, 2, 2, 3, 4]))
        if k < 2:
            break
        prots = rng.sample(targets, k)
        add(prots, anyp())
    topo = rng.random()
    if nt >= 3 and topo < 0.35:  # chain of shared-only peptides
        ch = rng.sample(targets, rng.randint(3, min(nt, 5)))
        for a, b in zip(ch, ch[1:]):
            add([a, b], strong() if rng.random() < 0.7 else anyp())
        if rng.random() < 0.3:
            add([ch[-1], ch[0]], strong())  # close the cycle
    elif nt >= 3 and topo < 0.5:  # star
        hub = rng.choice(targets)
        for q in targets:
            if q != hub and rng.random() < 0.7:
                add([hub, q], anyp())
    elif nt >= 2 and topo < 0.65:  # nested / equal sets
        a, b = rng.sample(targets, 2)
        shared = [anyp() for _ in range(rng.randint(1, 3))]
        for s in shared:
            add([a, b], s)
        if rng.random() < 0.5:
            add([a], anyp())
    # --- decoys: mirror part of the targets' structure with REV__ (sometimes rev_) prefixes
    dp = rng.choice(["REV__", "REV__", "REV__", "rev_"])
    for pep, score, prots in list(entries):
        if rng.random() < 0.4:
            add([dp + q for q in prots], rng.choice(PEP_GRID[: 12 if rng.random() < 0.7 else 18]))
    if rng.random() < 0.3:
        add([dp + "P%d" % rng.randint(1, nt + 2)], anyp())
    # --- contaminants
    if allow_contaminants and rng.random() < 0.15:
        add(["CON__P%d" % rng.randint(1, 3)], anyp())
    # --- a target that carries an entrapment-style identifier (still a target for the decoy FDR)
    if rng.random() < 0.1:
        t = rng.choice(targets)
        new = rng.choice(["%s_entrapment", "Random_%s", "mimic_%s"]) % t
        for e in entries:
            e[2] = [new if q == t else (q.replace(t, new) if q.endswith(t) and q != t else q) for q in e[2]]
    # --- gene-level duplicates: a protein listed twice for a peptide
    if allow_dups and rng.random() < 0.12 and entries:
        e = rng.choice(entries)
        e[2] = e[2] + [rng.choice(e[2])]
    # --- ties: copy a PEP onto other entries
    if entries and rng.random() < 0.5:
        v = rng.choice(entries)[1]
        for e in entries:
            if rng.random() < 0.3:
                e[1] = v
    # --- order
    if rng.random() < 0.7:
        rng.shuffle(entries)
    for e in entries:
        if rng.random() < 0.3:
            rng.shuffle(e[2])
    return entries


def gen_rescue_pil(rng, tier="quick"):
    """A peptide list built to exercise the rescue merge at protein-group FDR threshold 0.2001:
    5-6 anchor targets with strong unique peptides (accepted: q = 1/6 or 1/7), two or three decoys in between, then a
    cluster of proteins whose only unique peptides are weak (removed by the rescue cutoff) and which are linked by
    strong shared-only peptides in a chain / cycle / star / clique, so that the second grouping leaves connected
    groups without a peptide of their own and the min-cut decoupling runs.  Returns (entries, threshold)."""
    used = set()
    entries = []

    def add(prots, pep):
        entries.append([_pep_name(rng, used), pep, list(prots)])

    na = rng.randint(5, 6)
    for i in range(1, na + 1):
        for _ in range(rng.randint(1, 2)):
            add(["P%d" % i], rng.choice(PEP_GRID[9:]))  # <= 1e-4
    for i in range(rng.randint(2, 3)):
        add(["REV__P%d" % rng.randint(1, na)], rng.choice(PEP_GRID[5:8]))  # ~1e-2 .. 1e-3
    nc = rng.randint(3, 5 if tier == "quick" else 6)
    cl = ["C%d" % i for i in range(1, nc + 1)]
    for c in cl:
        if rng.random() < 0.8:
            add([c], rng.choice(PEP_GRID[:5]))  # weak unique peptide: >= 2e-2
    topo = rng.choice(["chain", "cycle", "star", "clique", "chain+extra"])
    strongish = lambda: rng.choice(PEP_GRID[9:] if rng.random() < 0.85 else PEP_GRID)  # noqa: E731
    if topo in ("chain", "cycle", "chain+extra"):
        for a, b in zip(cl, cl[1:]):
            add([a, b], strongish())
        if topo == "cycle":
            add([cl[-1], cl[0]], strongish())
        if topo == "chain+extra":
            a, b = rng.sample(cl, 2)
            add([a, b], strongish())
    elif topo == "star":
        for q in cl[1:]:
            add([cl[0], q], strongish())
    else:
        for i in range(nc):
            for j in range(i + 1, nc):
                if rng.random() < 0.7:
                    add([cl[i], cl[j]], strongish())
    if rng.random() < 0.3:  # a three-way shared peptide
        add(rng.sample(cl, 3), strongish())
    if rng.random() < 0.3:  # an anchor sharing a peptide with the cluster
        add(["P%d" % rng.randint(1, na), rng.choice(cl)], strongish())
    if rng.random() < 0.4:  # decoy mirror of part of the cluster
        for pep, score, prots in list(entries):
            if prots[0].startswith("C") and rng.random() < 0.4:
                add(["REV__" + q for q in prots], rng.choice(PEP_GRID[:9]))
    rng.shuffle(entries)
    for e in entries:
        if rng.random() < 0.3:
            rng.shuffle(e[2])
    return entries, 0.2001


def pil_to_dict(pil):
    """the implementation's PeptideInfoList: dict peptide -> (score, proteins)"""
    return {p: (float(s), list(pr)) for p, s, pr in pil}
