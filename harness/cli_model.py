"""Command-line glue correspondence: the real `picked_group_fdr.picked_group_fdr.main(argv)`, run IN-PROCESS on generated
consistent inputs, against the composed Lean model `PgFdr.Cli.cliOutcome` (driver op "cli", lean/PgFdr/Model/Cli.lean).

What the stage models cannot see is compared here: which argument reaches which stage, per-file digestion parameters,
the peptide->protein map list shared between methods, which evidence files a method reads, the thresholds handed to the
inference function, the identifier rule of the digest vs the one of the annotations, the file name per method, the
annotation columns of the written table.

Input files carry random names (sub-directories, one file name in several directories) and are mentioned on the command line
in random, mostly non-alphabetical order (case["names"]); a file may be mentioned twice.  The model takes files by position.

Every input type a shipped method reads is generated, alone and mixed in one run: MaxQuant evidence, Percolator output in
native (`PSMId`) or mokapot (`SpecId`) style PER FILE (case["mokapot"]), with or without the `-.X.-` flanks, FragPipe
psm.tsv, Sage results, DIA-NN tsv reports (rows in the shape of props.C10 / Model/C10.lean RawRow; the files of the four
non-native formats are written by the renderers of props.C10, imported).  The peptide->protein maps come from --fasta and the
digestion flags, from --peptide_protein_map files instead (case["map_files"]: the digest's dicts written to files, the
database itself not given — annotations are then empty), from neither (no method needs a map), or both are given and
--fasta wins (case["maps_from"]).  FragPipe / Sage PEPs are computed by the model in double precision (Cli.roundD), so the
peptide lists are compared exactly as for the other formats.

The real run is observed from outside (recorders of harness/pipeline.py, re-installed here around EVERY method's
`get_protein_group_results` call — pipeline.py itself is not touched): shuffles, min-cut answers, float scores per
competition, the float rescue cutoff, md5 keys; additionally the peptide list and the three scalar arguments each call
received, and every file `write_protein_groups` wrote (read back immediately, so a later method overwriting the same file
name cannot hide it).

Compared exactly per method: the ingested peptide list (dict order), everything harness/pipeline.py compares for a single
call (groups / evidence handed to each competition, rankings, q-values, PEP cutoff, the nine row fields), the written
file's name and directory, its header and every cell (strings as written; `Q-value` / `Score` by `float(text)` against the
model's exact rational converted by one division — no tolerance).

The oracles are stated on what the real run produced and never consult the model: the run completes; every method whose
input type was given writes a table; each call received the thresholds of the command line; the ingested list equals an
independent Python re-statement of "best PSM per peptide through the matching digest" (own digestion, own decoy
sequences); the rescue cutoff is 10^-(worst first-pass score below the protein-group threshold); the C01 / C06 / C17
statements of harness/pipeline.py on the recorded ranking; and the written table directly: rows sorted by score, q-values
non-decreasing, no protein twice, every protein from the FASTA-derived universe, annotation columns equal to what the
FASTA headers say.
"""
from __future__ import annotations

import csv
import hashlib
import inspect
import io
import logging
import os
import shutil
import tempfile
import tomllib
from fractions import Fraction
from pathlib import Path

import gen_cli
import lib
import pipeline as pl
from gen_pil import PEP_GRID
from lib import rat, unrat

BASE_HEADERS = ["Protein IDs", "Majority protein IDs", "Peptide counts (unique)", "Best peptide", "Number of proteins",
                "Q-value", "Score", "Reverse", "Potential contaminant"]
ANN_HEADERS = ["Protein names", "Gene names", "Fasta headers"]
FLAG_OF_INPUT = {"mq": "--mq_evidence", "perc": "--perc_evidence", "fragpipe": "--fragpipe_psm", "sage": "--sage_results",
                 "diann": "--diann_reports"}
ALL_INPUTS = ("mq", "perc", "fragpipe", "sage", "diann")   # every evidence flag a shipped method reads
REMAP_INPUTS = ("mq", "perc")                              # input types for which remapping methods are shipped
# FragPipe `PeptideProphet Probability` cells (PEP = 1 - p + 1e-16 in doubles: the model rounds after both operations,
# Cli.roundD, so arbitrary doubles may be drawn), Sage `posterior_error` cells (log10 of the PEP; integer exponents, for
# which the platform's pow is asserted to be correctly rounded: props.C10.pow_grid_ok), DIA-NN PEP cells (literals
# pandas' parser reads as float() does: props.C10.pandas_grid_ok)
FRAG_P = [1.0, 0.9999, 0.999, 0.99, 0.95, 0.9, 0.75, 0.5, 0.0, 1023 / 1024, 1019 / 1024, 973 / 1024]
FRAG_P_WEAK = [0.99, 0.95, 0.9, 0.75, 0.5, 0.0, 973 / 1024]
SAGE_X = [0, -1, -2, -3, -4, -6, -7, -8]
SAGE_X_WEAK = [0, -1, -2, -3, -4]
DIG_FLAGS = [("enzyme", "--enzyme"), ("digestion", "--digestion"), ("min_length", "--min-length"), ("max_length", "--max-length"),
             ("cleavages", "--cleavages"), ("special_aas", "--special-aas")]
# protein-group thresholds (the values of pipeline.THRESHOLDS: no reachable estimate (D+1)/(T+1) rounds onto them, or dyadic), weighted
# towards values that split the first-pass q-values of small data sets, so that the PSM level cannot stand in for them
CLI_THRESHOLDS = [0.0101, 0.0503, 0.2001, 0.2001, 0.25, 0.25, 0.5, 0.5, 1.0]
assert set(CLI_THRESHOLDS) == set(pl.THRESHOLDS)
# PSM-level FDR values of --psm_fdr_cutoff (0.01 is the default of the tool: only the other values show whether the
# command line's value arrives); drawn independently of the protein-group threshold and of --keep_all_proteins
CLI_PSM_LEVELS = [0.01, 0.05, 0.0011, 0.2]
DIG_DEFAULTS = {"enzyme": "trypsin", "digestion": "full", "min_length": 7, "max_length": 60, "cleavages": 2, "special_aas": "KR"}


# ------------------------------------------------------------------------------------------------
# the shipped methods (read from the tree under test, never hard-coded)
# ------------------------------------------------------------------------------------------------
_METHODS = {}


def shipped():
    key = str(lib.REPO)
    if key not in _METHODS:
        out = {}
        for f in sorted((lib.REPO / "picked_group_fdr" / "methods").glob("*.toml")):
            try:
                out[f.stem] = tomllib.loads(f.read_text())
            except Exception:
                continue
        _METHODS[key] = out
    return _METHODS[key]


def score_description(t):
    st = t.get("scoreType", "")
    return st + (" razor" if t.get("sharedPeptides") == "razor" else "")


def input_of(t):
    """documented convention of the TOML files: which evidence flag a score type reads"""
    st = score_description(t)
    for k, v in (("Perc", "perc"), ("FragPipe", "fragpipe"), ("Sage", "sage"), ("DIA-NN", "diann")):
        if k in st:
            return v
    return "mq"


def remaps(t):
    st = score_description(t)
    if "Perc" in st:
        return "remap" in st
    if any(k in st for k in ("FragPipe", "Sage", "DIA-NN")):
        return False
    return "no_remap" not in st


def label_suffix(t):
    return str(t.get("label")).lower().replace(" ", "_")


# ------------------------------------------------------------------------------------------------
# generation
# ------------------------------------------------------------------------------------------------
def _param_sets(rng, n):
    """n digestion parameter sets and the flag lists that express them (a flag is omitted, given once, or given n times)"""
    enzymes = ["trypsin", "trypsin", "lys-c", "arg-c", "trypsinp"]
    sets = []
    for _ in range(n):
        sets.append({"enzyme": rng.choice(enzymes), "digestion": "semi" if rng.random() < 0.12 else "full", "min_length": rng.choice([5, 6, 7, 7, 8]),
                     "max_length": rng.choice([14, 22, 60, 60]), "cleavages": rng.choice([0, 0, 1, 2, 2]),
                     "special_aas": rng.choice(["KR", "KR", "K", "none", "R"])})
    flags = {}
    varied = False
    for k, _ in DIG_FLAGS:
        mode = rng.random()
        if n > 1 and mode < 0.5:
            flags[k] = [s[k] for s in sets]
            varied = True
        elif mode < 0.75:
            for s in sets:
                s[k] = sets[0][k]
            flags[k] = [sets[0][k]]
        else:
            for s in sets:
                s[k] = DIG_DEFAULTS[k]
    if n > 1 and not varied:
        k = rng.choice(["enzyme", "cleavages", "min_length"])
        vals = {"enzyme": enzymes, "cleavages": [0, 1, 2], "min_length": [5, 6, 7, 8]}[k]
        for s in sets:
            s[k] = rng.choice(vals)
        flags[k] = [s[k] for s in sets]
    return sets, flags


def _records(case_fasta):
    """[(header, sequence)] of a FASTA file given as a list of lines (own reading: '>' lines start a record)"""
    recs, hdr, seq = [], None, []
    for line in case_fasta:
        line = line.rstrip()
        if line.startswith(">"):
            if hdr is not None:
                recs.append((hdr, "".join(seq)))
            hdr, seq = line[1:], []
        else:
            seq.append(line)
    if hdr is not None:
        recs.append((hdr, "".join(seq)))
    return recs


def id_rule(flags, use_pseudo):
    """the identifier rule the property assigns to the digest: gene names for a gene-level run (unless it falls back to
    pseudo-genes), else accessions if asked for, else the first word"""
    if flags.get("gene_level") and not use_pseudo:
        return "gene"
    if flags.get("use_uniprot"):
        return "uniprot"
    return "first"


def falls_back_to_pseudo_genes(case):
    """gene-level run on a database where at most half of the entries carry a gene name"""
    if not case["flags"].get("gene_level") or not case["fasta"]:
        return False  # without --fasta there are no annotations and no fall-back (get_protein_annotations: `{}, False`)
    rule = "uniprot" if case["flags"].get("use_uniprot") else "first"
    seen = {}
    for f in case["fasta"]:
        for hdr, _, gen in _stream(_records(f), case["flags"].get("contains_decoys"), "KR"):
            i = gen_cli.ident(annotation_header(hdr, gen), rule)
            if i not in seen:
                seen[i] = gen_cli.ident(hdr, "gene")
    # later files override earlier entries with the same identifier ({**a, **b})
    with_gene = sum(1 for g in seen.values() if g)
    return not (with_gene / max(1, len(seen)) > 0.5)


def _stream(records, contains_decoys, special):
    """the record stream of read_fasta as (header, sequence, generated): the target, then (unless the file holds its own
    decoys) the generated decoy, which carries the TARGET's header (the tool prefixes the parsed identifier, or — for the
    annotations — the whole header, with REV__)"""
    out = []
    for hdr, seq in records:
        out.append((hdr, seq, False))
        if not contains_decoys:
            sp = "" if special == "none" else special
            out.append((hdr, gen_cli.swap_special(seq[::-1], sp) if sp else seq[::-1], True))
    return out


def digest_id(hdr, generated, rule):
    i = gen_cli.ident(hdr, rule)
    return None if not i else ("REV__" + i if generated else i)


def annotation_header(hdr, generated):
    return "REV__" + hdr if generated else hdr


def truth_map(case, pset, rule):
    """peptide -> identifiers (record order, each once per record) for one digestion parameter set; own digestion"""
    m = {}
    for f in case["fasta"]:
        for hdr, seq, gen in _stream(_records(f), case["flags"].get("contains_decoys"), pset["special_aas"]):
            pid = digest_id(hdr, gen, rule)
            if not pid:
                continue
            for p in dict.fromkeys(gen_cli.digest_full(seq, pset["enzyme"], pset["cleavages"], pset["min_length"], pset["max_length"])):
                m.setdefault(p, []).append(pid)
    return m


def _spell(rng, pep):
    """the peptide with modification tokens the tool strips again"""
    if rng.random() < 0.8:
        return pep
    i = rng.randint(1, len(pep) - 1)
    tok = rng.choice(["(ox)", "(ph)", "[UNIMOD:4]", "(Oxidation (M))"])
    return pep[:i] + tok + pep[i:]


def gen_case(rng, tier, only_inputs=ALL_INPUTS):
    """a command line: 1-3 shipped methods reading `only_inputs`, evidence of every input type they read, FASTA files and
    digestion flags.  With all five input types allowed (the default) the command line may also supply the peptide->protein
    maps by --peptide_protein_map files instead of --fasta, give neither (no method needs a map: the annotations are empty)
    or both (--fasta wins); Percolator files are drawn in native or mokapot style PER FILE."""
    sm = shipped()
    wide = set(only_inputs) == set(ALL_INPUTS)
    names = sorted(n for n, t in sm.items() if input_of(t) in only_inputs)
    # methods with a rescue step are the ones through which the two thresholds of the command line act differently
    names = names + [n for n in names if "rescued" in str(sm[n].get("grouping"))] * 2
    if wide:  # one shipped method each: drawn as often as a Percolator / MaxQuant method family
        names = names + [n for n in names if input_of(sm[n]) not in REMAP_INPUTS] * 2
    # --- methods: 1-3, weighted towards pairs that mix remapping and non-remapping methods and different inputs
    k = rng.choice([1, 1, 2, 2, 2, 3])
    remap_inputs = sorted(i for i in only_inputs if i in REMAP_INPUTS)
    shared_map = len(remap_inputs) > 1 and rng.random() < 0.2
    if shared_map:
        # two remapping methods of DIFFERENT input types with different numbers of files and ONE digestion parameter
        # set: both must see the one map for each of their files, whatever the other did with the list
        ia, ib = rng.sample(remap_inputs, 2)
        methods = [rng.choice([n for n in names if remaps(sm[n]) and input_of(sm[n]) == i]) for i in (ia, ib)]
        if rng.random() < 0.3:
            methods.insert(rng.randint(0, 2), rng.choice(names))
    elif k >= 2 and rng.random() < 0.5:
        a = rng.choice([n for n in names if not remaps(sm[n])])
        b = rng.choice([n for n in names if remaps(sm[n])])
        methods = [a, b] if rng.random() < 0.6 else [b, a]
        if k == 3:
            methods.insert(rng.randint(0, 2), rng.choice(names))
    else:
        methods = [rng.choice(names) for _ in range(k)]
    inputs = sorted({input_of(sm[n]) for n in methods})
    if rng.random() < 0.15 and len(inputs) > 1 and not shared_map:
        inputs = inputs[:1]  # a method without its input file is skipped with a warning
    # --- how the peptide->protein maps are supplied
    maps_from = "fasta"
    if wide:
        t = rng.random()
        if any(remaps(sm[n]) for n in methods):
            maps_from = "mapfile" if t < 0.25 else "both" if t < 0.33 else "fasta"
        else:  # no method needs a map: --fasta only feeds the annotation columns
            maps_from = "none" if t < 0.35 else "mapfile" if t < 0.45 else "fasta"
    # --- database
    db = gen_cli.gen_database(rng)
    style = rng.choice(["plain", "desc", "uniprot", "uniprot"])
    gene_level = style == "uniprot" and rng.random() < 0.45
    gene_share = rng.choice([0.9, 0.9, 0.3]) if gene_level else rng.choice([0.0, 0.7])
    recs = gen_cli.gen_headers(rng, db, style, gene_share)
    flags = {"contains_decoys": rng.random() < 0.3, "gene_level": gene_level,
             "use_uniprot": style == "uniprot" and rng.random() < 0.5}
    n_files = {i: rng.choice([1, 1, 2, 3]) for i in inputs}
    n_sets = rng.choice([1] + [n_files[i] for i in inputs] * 2)
    if shared_map:
        n_files = dict(n_files, **dict(zip((ia, ib), rng.choice([(2, 3), (2, 3), (2, 3), (3, 2), (1, 3)]))))
        n_sets = 1
    psets, dig_flags = _param_sets(rng, n_sets)
    if flags["contains_decoys"]:
        # the file brings its own decoys: reversed sequences (special residues of the first parameter set swapped)
        sp = psets[0]["special_aas"]
        sp = "" if sp == "none" else sp
        recs = [x for hdr, seq in recs for x in ((hdr, seq), ("REV__" + hdr, gen_cli.swap_special(seq[::-1], sp) if sp else seq[::-1]))]
    if len(recs) >= 4 and rng.random() < 0.25:
        cut = rng.randint(1, len(recs) - 1)
        if flags["contains_decoys"]:
            cut -= cut % 2
        cut = max(2, cut) if flags["contains_decoys"] else cut
        fasta = [gen_cli.fasta_text(recs[:cut], rng), gen_cli.fasta_text(recs[cut:], rng)]
        fasta = [f for f in fasta if f]
    else:
        fasta = [gen_cli.fasta_text(recs, rng)]
    case = {"kind": "cli_model", "fasta": fasta, "flags": dict(flags, **dig_flags), "methods": methods, "evidence": {},
            "thr": rat(rng.choice(CLI_THRESHOLDS)), "psm": rat(rng.choice(CLI_PSM_LEVELS)), "keepAll": rng.random() < 0.3,
            "psets": psets}
    use_pseudo = falls_back_to_pseudo_genes(case)
    rule = id_rule(flags, use_pseudo)
    maps = [truth_map(case, ps, rule) for ps in psets]
    styles = []
    for inp in inputs:
        files = []
        for fi in range(n_files[inp]):
            own = maps[fi] if fi < len(maps) and len(maps) > 1 else maps[0]
            others = [m for m in maps if m is not own]
            # header / peptide style of a Percolator file: decided per file by the parser (PSMId / SpecId header; flanks
            # `-.X.-` on the first data row)
            st = None
            if inp == "perc":
                st = {"mokapot": wide and rng.random() < 0.4, "flank": not (wide and rng.random() < 0.3)}
                styles.append(st["mokapot"])
            cand = sorted(own)
            rng.shuffle(cand)
            rows = []
            for p in cand:
                prots = own[p]
                target = any(not q.startswith("REV__") for q in prots)
                if rng.random() > (0.75 if target else 0.4):
                    continue
                for _ in range(rng.choice([1, 1, 1, 2])):
                    rows.append(_row(rng, inp, p, prots, PEP_GRID if target else PEP_GRID[:12], st))
            ps_own = psets[fi] if fi < len(psets) and len(psets) > 1 else psets[0]
            if ps_own["digestion"] == "semi":  # semi-specific search: ragged ends of fully specific peptides
                for p in cand[:4]:
                    q = p[rng.randint(1, 2):] if rng.random() < 0.5 else p[: -rng.randint(1, 2)]
                    if len(q) >= 5:
                        rows.append(_row(rng, inp, q, own[p], PEP_GRID, st))
            for m in others:  # peptides only another file's parameters produce
                extra = sorted(set(m) - set(own))
                rng.shuffle(extra)
                for p in extra[: rng.randint(0, 3)]:
                    rows.append(_row(rng, inp, p, m[p], PEP_GRID, st))
            if rng.random() < 0.3:  # a peptide the database does not contain
                rows.append(_row(rng, inp, "".join(rng.choice(gen_cli.CORE) for _ in range(8)) + "K", ["P1"], PEP_GRID, st))
            # a row without a PEP: MaxQuant's empty cell; the literal `nan` where the file is written by props.C10.render
            if rng.random() < 0.15 and rows and (inp == "mq" or (wide and (inp != "perc" or st["mokapot"]))):
                rows.append(dict(rows[0], score="nan"))
            rng.shuffle(rows)
            files.append(rows)
        case["evidence"][inp] = files
    if wide:
        case["mokapot"] = styles          # header style per --perc_evidence file, by position
        case["colseed"] = rng.randint(0, 10 ** 6)
    # --- file names and their order on the command line (the tool must pair the i-th file MENTIONED with the i-th
    # parameter set, whatever the files are called); 10 % of the multi-file inputs mention one file twice
    names = {"fasta": gen_cli.file_names(rng, len(fasta), "fasta")}
    if len(fasta) == 1 and rng.random() < DUP_FASTA_SHARE:
        case["fasta"] = fasta = [fasta[0], list(fasta[0])]
        names["fasta"] = names["fasta"] * 2
    for inp in inputs:
        files = case["evidence"][inp]
        nm = gen_cli.file_names(rng, len(files), inp)
        if len(files) >= 2 and rng.random() < 0.1:
            src, dst = rng.sample(range(len(files)), 2)
            nm[dst] = nm[src]
            files[dst] = [dict(r) for r in files[src]]
            if inp == "perc" and case.get("mokapot"):
                case["mokapot"][dst] = case["mokapot"][src]
        names[inp] = nm
    case["names"] = names
    # --- the maps by file instead of (or next to) --fasta.  The evidence above was drawn from the digest of the generated
    # database; a map FILE holds that digest's dict (one file per parameter set), so the database itself need not be given
    if maps_from in ("mapfile", "both"):
        lines = [map_lines(rng, m) for m in maps]
        if maps_from == "both":  # --fasta wins; the files map every peptide to proteins no FASTA record carries
            lines = [[[pep, ["MAPFILE_" + q for q in ps]] for pep, ps in ls] for ls in lines]
        case["map_files"] = lines
        names["map"] = gen_cli.file_names(rng, len(lines), "map")
    if maps_from in ("mapfile", "none"):
        case["fasta"] = []
        names["fasta"] = []
    case["maps_from"] = maps_from
    return case


def map_lines(rng, m):
    """the lines of a --peptide_protein_map file for the dict m: `[peptide, [protein...]]` in dict order; now and then a
    peptide's proteins are split over two lines (the reader appends: `defaultdict(list)`)"""
    out, late = [], []
    for pep, prots in m.items():
        prots = list(prots)
        if len(prots) >= 2 and rng.random() < 0.1:
            cut = rng.randint(1, len(prots) - 1)
            out.append([pep, prots[:cut]])
            late.append([pep, prots[cut:]])
        else:
            out.append([pep, prots])
    for x in late:
        out.insert(rng.randint(0, len(out)), x)
    # (a second half inserted in front of the first one swaps the halves of the protein list and moves the peptide's
    #  place in the dict: map_dict reads the lines as they stand)
    return out


def map_text(lines):
    """the text of a map file as csv.writer(delimiter TAB) writes it: `peptide TAB p1;p2 CRLF`"""
    buf = io.StringIO(newline="")
    w = csv.writer(buf, delimiter="\t")
    for pep, prots in lines:
        w.writerow([pep, ";".join(prots)])
    return buf.getvalue()


def map_dict(lines):
    """what the lines of a map file say: peptide -> proteins, appended line by line, peptides in the order of their first line"""
    d = {}
    for pep, prots in lines:
        d.setdefault(pep, []).extend(prots)
    return d


def run_maps(case, rule=None):
    """the peptide->protein maps of the command line, one per parameter set / map file, as the documentation of the two flags
    describes them: --fasta (own digestion, identifier rule of the run) if given, else the --peptide_protein_map files"""
    if case["fasta"]:
        if rule is None:
            rule = id_rule(case["flags"], falls_back_to_pseudo_genes(case))
        return [truth_map(case, ps, rule) for ps in case["psets"]]
    return [map_dict(ls) for ls in case.get("map_files") or []]


DUP_FASTA_SHARE = 0.05


def sync_mentions(case):
    """a file mentioned twice is ONE file: every later mention of a name carries the rows / lines of the first"""
    names = case.get("names")
    if not names:
        return case
    out = dict(case, evidence=dict(case["evidence"]))
    for key in names:
        if key != "fasta" and key not in case["evidence"]:
            continue
        files = list(case["fasta"] if key == "fasta" else case["evidence"][key])
        nm = names[key]
        if len(nm) != len(files):
            return dict(case, names=None)
        first = {}
        for i, n in enumerate(nm):
            if n in first:
                files[i] = files[first[n]]
            else:
                first[n] = i
        if key == "fasta":
            out["fasta"] = files
        elif key in case["evidence"]:
            out["evidence"][key] = files
        if key == "perc" and case.get("mokapot") and len(case["mokapot"]) == len(nm):
            out["mokapot"] = [case["mokapot"][first[n]] for n in nm]
    return out


def input_names(case, key, n):
    """relative paths of the n files of one input, in command-line order (cases without names: the numbered names)"""
    names = (case.get("names") or {}).get(key)
    if names and len(names) == n:
        return list(names)
    return [{"fasta": "db%d.fasta", "mq": "evidence%d.txt", "perc": "pout%d.txt", "fragpipe": "psm%d.tsv", "sage": "results%d.sage.tsv",
             "diann": "report%d.tsv", "map": "map%d.tsv"}[key] % i for i in range(n)]


def _row(rng, inp, pep, prots, grid, style=None):
    """one PSM row of an input file of type `inp` for peptide `pep`, in the cells the format's parser reads (the row shape
    of props.C10 / Model/C10.lean RawRow; MaxQuant rows carry the `Leading razor protein` cell as "razor_prot").
    `grid`: the PEP grid of the MaxQuant / Percolator rows — its length says whether strong scores may be drawn."""
    tprots = [q for q in prots if not q.startswith("REV__")] or list(prots)
    tprots = list(dict.fromkeys(tprots))
    strong = len(grid) > 12
    if inp == "mq":
        score = rat(float(rng.choice(grid)))
        return {"pep": "_" + _spell(rng, pep) + "_", "score": score, "prot": [";".join(tprots)], "razor_prot": tprots[0]}
    if inp == "perc":
        st = style or {"mokapot": False, "flank": True}
        score = rat(float(rng.choice(grid)))
        cell = _spell(rng, pep)
        cell = "-." + cell + ".-" if st["flank"] else cell
        if st["mokapot"]:  # one `Proteins` cell, tab-separated (written quoted by csv.writer)
            return {"pep": cell, "score": score, "prot": ["\t".join(tprots)]}
        return {"pep": cell, "score": score, "prot": tprots}
    if inp == "fragpipe":
        mod = _spell(rng, pep)
        return {"pep": pep, "mod": "" if (mod == pep and rng.random() < 0.7) else mod,
                "score": rat(float(rng.choice(FRAG_P if strong else FRAG_P_WEAK))), "prot": [tprots[0], ", ".join(tprots[1:])]}
    if inp == "sage":
        return {"pep": _spell(rng, pep), "score": rat(float(rng.choice(SAGE_X if strong else SAGE_X_WEAK))), "prot": [";".join(tprots)]}
    if inp == "diann":
        import props.C10 as c10

        g = c10.PEP_GRID if strong else [x for x in c10.PEP_GRID if x >= 1e-3]
        decoy = all(q.startswith("REV__") for q in tprots)  # Protein.Ids carries no decoy prefix: the Decoy cell says it
        ids = [q[len("REV__"):] for q in tprots] if decoy else tprots
        return {"pep": _spell(rng, pep), "score": rat(float(rng.choice(g))), "prot": [";".join(ids)], "decoy": decoy}
    raise ValueError(inp)


# ------------------------------------------------------------------------------------------------
# rendering and the real run
# ------------------------------------------------------------------------------------------------
def _cell(score):
    return "" if score == "nan" else repr(pl.fl(score))


def file_format(case, inp, k):
    """the format of the k-th file of an input: "maxquant" | "native" | "mokapot" | "fragpipe" | "sage" | "diann" """
    if inp == "mq":
        return "maxquant"
    if inp == "perc":
        mk = case.get("mokapot") or []
        return "mokapot" if (k < len(mk) and mk[k]) else "native"
    return inp


_REP = {}


def _rep_method(fmt):
    """a shipped method that reads files of the format (props.C10.render picks its renderer by the method's score type)"""
    import props.C10 as c10

    key = (str(lib.REPO), fmt)
    if key not in _REP:
        _REP[key] = next(names[0] for st, names in c10.shipped_classes().items() if c10.fmt_of(st, fmt == "mokapot")[0] == fmt)
    return _REP[key]


def _c10_write(path, fmt, rows, colseed):
    """one input file through the renderer of props.C10 (imported, not copied)"""
    import props.C10 as c10

    d, name = os.path.split(path)
    os.makedirs(d, exist_ok=True)
    sub = {"method": _rep_method(fmt), "mokapot": fmt == "mokapot", "colseed": colseed, "names": [name],
           "files": [[dict(r, mod=r.get("mod", ""), decoy=bool(r.get("decoy"))) for r in rows]]}
    got = c10.render(sub, d)
    if got != [path]:
        raise ValueError("harness: props.C10.render wrote %r, expected %r" % (got, path))


def render(case, d):
    """writes the input files into directory d; returns argv"""
    argv = []
    fastas = []
    ind = os.path.join(d, "in")
    written = {}

    def put(key, rel, content, writer):
        # a name mentioned twice is one file; the case must agree with itself about its content (sync_mentions)
        if written.setdefault((key, rel), content) != content:
            raise ValueError("harness: file %s is mentioned twice with different content" % rel)
        return gen_cli.write_once(ind, key + "/" + rel, writer)

    for rel, lines in zip(input_names(case, "fasta", len(case["fasta"])), case["fasta"]):
        def wf(p, lines=lines):
            with open(p, "w", newline="") as fh:
                fh.write("".join(lines))
        fastas.append(put("fasta", rel, lines, wf))
    if fastas:
        argv += ["--fasta"] + fastas
    for inp, files in case["evidence"].items():
        paths = []
        for k, (rel, rows) in enumerate(zip(input_names(case, inp, len(files)), files)):
            fmt = file_format(case, inp, k)
            if fmt not in ("maxquant", "native"):
                # mokapot-style Percolator, FragPipe, Sage, DIA-NN: the renderers of props.C10 (column order drawn from colseed)
                paths.append(put(inp, rel, rows, lambda p, fmt=fmt, rows=rows, k=k: _c10_write(p, fmt, rows, case.get("colseed", 0) + k)))
                continue
            if inp == "mq" and case.get("quant"):
                hdr, out = quant_evidence_table(case, rows)
            elif inp == "mq":
                hdr = ["Modified sequence", "Leading proteins", "Leading razor protein", "PEP", "Score", "Experiment", "id"]
                out = [[r["pep"], r["prot"][0], r["razor_prot"], _cell(r["score"]), "10", "E1", str(i)] for i, r in enumerate(rows)]
            else:
                hdr = ["PSMId", "score", "q-value", "posterior_error_prob", "peptide", "proteinIds"]
                out = [["raw_%d_2_1" % i, "1.0", "0.01", _cell(r["score"]), r["pep"]] + list(r["prot"]) for i, r in enumerate(rows)]

            def we(p, hdr=hdr, out=out):
                with open(p, "w", newline="", encoding="utf-8") as fh:
                    w = csv.writer(fh, delimiter="\t")
                    w.writerow(hdr)
                    w.writerows(out)
            paths.append(put(inp, rel, rows, we))
        argv += [FLAG_OF_INPUT[inp]] + paths
    if case.get("map_files"):
        paths = []
        for rel, lines in zip(input_names(case, "map", len(case["map_files"])), case["map_files"]):
            def wm(p, lines=lines):
                with open(p, "w", newline="", encoding="utf-8") as fh:
                    fh.write(map_text(lines))
            paths.append(put("map", rel, lines, wm))
        argv += ["--peptide_protein_map"] + paths
    argv += ["--methods", ",".join(case["methods"])]
    argv += ["--protein_group_fdr_threshold", repr(pl.fl(case["thr"])), "--psm_fdr_cutoff", repr(pl.fl(case["psm"]))]
    f = case["flags"]
    if case["keepAll"]:
        argv.append("--keep_all_proteins")
    if f.get("contains_decoys"):
        argv.append("--fasta_contains_decoys")
    if f.get("gene_level"):
        argv.append("--gene_level")
    if f.get("use_uniprot"):
        argv.append("--fasta_use_uniprot_id")
    for k, flag in DIG_FLAGS:
        if f.get(k):
            argv += [flag] + [str(x) for x in f[k]]
    if not case.get("quant") or case["quant"].get("suppress", True):
        argv.append("--suppress_missing_peptide_warning")
    if case.get("quant"):
        argv += ["--do_quant", "--skip_lfq"]
    return argv


def classify(e):
    t, msg = type(e).__name__, str(e)
    if t == "ValueError" and "not enough values to unpack" in msg:
        return "no_ranked_groups"
    if t == "IndexError" and "too many indices for array" in msg:
        return "no_ranked_groups"
    if type(e) is Exception and msg.startswith("No proteins with scores found"):
        return "no_ranked_groups"
    if t == "ValueError" and "Received digestion parameters of unequal length" in msg:
        return "unequal_digestion_params"
    if t == "ValueError" and "No fasta or peptide to protein mapping file detected" in msg:
        return "missing_fasta"
    if t == "FileNotFoundError" and "Could not find method" in msg:
        return "unknown_method"
    if t == "ValueError" and "SILAC channels" in msg:
        return "bad_silac_channels"
    return None


def run_impl(case):
    """the real main(argv) in-process with recorders; canonical output with the recorded parameters under "_rec" """
    import numpy as np
    from picked_group_fdr import graphs
    from picked_group_fdr import picked_group_fdr as pgf
    from picked_group_fdr.results import ProteinGroupResults
    from picked_group_fdr.writers import base as wbase

    if "sage" in case["evidence"] or "diann" in case["evidence"]:
        import props.C10 as c10

        if ("sage" in case["evidence"] and not c10.pow_grid_ok()) or ("diann" in case["evidence"] and not c10.pandas_grid_ok()):
            raise RuntimeError("harness: the platform's pow / pandas' float parser is not correctly rounded on the generated grid")
    d = tempfile.mkdtemp(prefix="pgfdr_cli_")
    work, outdir = os.path.join(d, "work"), os.path.join(d, "out")
    os.makedirs(work)
    os.makedirs(outdir)
    argv = render(case, d) + ["--protein_groups_out", os.path.join(outdir, "out.txt")]
    calls = []
    cur = [None]

    orig_run_method = pgf.run_method
    orig_gpr = pgf.get_protein_group_results
    orig_write = wbase.write_protein_groups
    orig_shuffle = np.random.shuffle
    orig_cut = graphs.minimum_st_node_cut
    orig_report = ProteinGroupResults.__dict__["from_protein_groups"]
    sig = inspect.signature(orig_gpr)

    def run_method(args, method_config, *a, **k):
        c = {"label": method_config.label, "gpr": None, "written": None, "done": False}
        calls.append(c)
        cur[0] = c
        try:
            r = orig_run_method(args, method_config, *a, **k)
            c["done"] = True
            return r
        finally:
            cur[0] = None

    def gpr(*a, **k):
        b = sig.bind(*a, **k)
        b.apply_defaults()
        pil = b.arguments["peptide_info_list"]
        cfg = b.arguments["method_config"]
        rec = {"shuffles": [], "cuts": [], "comp": [], "report": [],
               "pil": [[p, rat(float(v[0])), list(v[1])] for p, v in pil.items()],
               "args": {"thr": rat(float(b.arguments["protein_group_fdr_threshold"])), "psm": rat(float(b.arguments["psm_fdr_cutoff"])),
                        "keepAll": bool(b.arguments["keep_all_proteins"])}}
        if cur[0] is not None:
            cur[0]["gpr"] = rec

        def shuffle(x):
            idx = list(range(len(x)))
            orig_shuffle(idx)
            before = list(x)
            x[:] = [before[i] for i in idx]
            rec["shuffles"].append(idx)

        def cut(G, s, t, **kw):
            c = orig_cut(G, s, t, **kw)
            rec["cuts"].append([sorted(G.nodes), s, t, sorted(c)])
            return c

        st = cfg.picked_strategy
        orig_comp = st.do_competition

        def comp(protein_groups, infos, score_type):
            rec["comp"].append({"groups": [list(g) for g in protein_groups], "infos": pl.canon_infos(infos),
                                "scores": [rat(float(score_type.calculate_score(i))) for i in infos]})
            return orig_comp(protein_groups, infos, score_type)

        def report(cls, protein_groups, infos, scores, qvals, score_cutoff, keep_all):
            rec["report"].append({"groups": [list(g) for g in protein_groups], "infos": pl.canon_infos(infos),
                                  "scores": [rat(float(s)) for s in scores], "qvals": [rat(float(q)) for q in qvals],
                                  "cutoff": "inf" if score_cutoff == float("inf") else rat(float(score_cutoff)), "keepAll": bool(keep_all)})
            return orig_report.__func__(cls, protein_groups, infos, scores, qvals, score_cutoff, keep_all)

        np.random.shuffle = shuffle
        graphs.minimum_st_node_cut = cut
        st.do_competition = comp
        ProteinGroupResults.from_protein_groups = classmethod(report)
        try:
            res = orig_gpr(*a, **k)
            rec["rows"] = [pl.row_dict(r) for r in res]
            return res
        finally:
            np.random.shuffle = orig_shuffle
            graphs.minimum_st_node_cut = orig_cut
            del st.do_competition
            ProteinGroupResults.from_protein_groups = orig_report
            rc = getattr(cfg.grouping_strategy, "score_cutoff", None)
            rec["rescue_cutoff"] = rat(float(rc)) if (rc is not None and len(rec["comp"]) > 1) else None
            prots = sorted({p for _, _, pr in rec["pil"] for p in pr})
            rec["razor_keys"] = [[p, hashlib.md5(p.encode("utf-8")).hexdigest()] for p in prots]

    def write(writer, results, out):
        orig_write(writer, results, out)
        p = Path(out)
        with open(p, newline="", encoding="utf-8") as fh:
            text = fh.read()
        where = "given" if p.is_absolute() and os.path.dirname(str(p)) == outdir else ("cwd" if not p.is_absolute() and str(p.parent) == "." else "other:" + str(p.parent))
        if cur[0] is not None:
            cur[0]["written"] = {"file": p.name, "where": where, "text": text}

    out = {}
    cwd = os.getcwd()
    prev_disable = logging.root.manager.disable
    logging.disable(logging.CRITICAL)
    pgf.run_method = run_method
    pgf.get_protein_group_results = gpr
    wbase.write_protein_groups = write
    try:
        os.chdir(work)
        try:
            pgf.main(argv)
            out["err"] = None
        except Exception as e:
            tag = classify(e)
            if tag is None:
                raise
            out["err"] = tag
    finally:
        os.chdir(cwd)
        pgf.run_method = orig_run_method
        pgf.get_protein_group_results = orig_gpr
        wbase.write_protein_groups = orig_write
        logging.disable(prev_disable)
        final = {}
        for where, dd in (("given", outdir), ("cwd", work)):
            for fn in sorted(os.listdir(dd)):
                with open(os.path.join(dd, fn), newline="", encoding="utf-8") as fh:
                    final[where + "/" + fn] = fh.read()
        shutil.rmtree(d, ignore_errors=True)
    methods = []
    for c in calls:
        if not c["done"]:
            break
        methods.append(_method_view(c))
    out["methods"] = methods
    last = {}
    for c in calls:
        if c["written"]:
            last[c["written"]["where"] + "/" + c["written"]["file"]] = c["written"]["text"]
    out["files_consistent"] = last == final
    out["_rec"] = {"calls": calls, "argv": [a.replace(d, "<dir>") for a in argv], "final_files": sorted(final)}
    return out


def _passes(rec):
    passes = [{"comp_groups": c["groups"], "comp_infos": c["infos"], "scores": c["scores"]} for c in rec["comp"]]
    for k, r in enumerate(rec["report"]):
        if k < len(passes):
            passes[k].update({"ranked_groups": r["groups"], "ranked_infos": r["infos"], "ranked_scores": r["scores"],
                              "qvals": r["qvals"], "cutoff": r["cutoff"]})
    return passes


def read_table(text):
    rows = list(csv.reader(io.StringIO(text, newline=""), delimiter="\t"))
    return (rows[0], rows[1:]) if rows else ([], [])


def _num_cols(header):
    return [i for i, h in enumerate(header) if h in ("Q-value", "Score")]


def _impl_cells(header, rows):
    nc = _num_cols(header)
    return [[rat(float(c)) if i in nc else c for i, c in enumerate(r)] for r in rows]


def _model_cells(header, rows):
    nc = _num_cols(header)
    kinds = [quant_cell_kind(h) for h in header]
    out = []
    for r in rows:
        o = []
        for i, c in enumerate(r):
            if i in nc:
                n, dn = c.split("/")
                f = Fraction(int(n), int(dn))
                o.append(rat(f.numerator / f.denominator))
            elif i < len(kinds) and kinds[i] and "/" in c:
                n, dn = c.split("/")
                o.append(format_quant_cell(kinds[i], Fraction(int(n), int(dn))))
            else:
                o.append(c)
        out.append(o)
    return out


def _method_view(c):
    """canonical view of one completed run_method call"""
    if c["gpr"] is None and c["written"] is None:
        return None
    rec = c["gpr"] or {}
    v = {"pil": rec.get("pil"), "rows": rec.get("rows"),
         "passes": [{k: x for k, x in p.items() if k != "scores"} for p in _passes(rec)] if rec else None, "table": None}
    if c["written"]:
        hdr, rows = read_table(c["written"]["text"])
        v["table"] = {"file": c["written"]["file"], "where": c["written"]["where"], "header": hdr, "rows": _impl_cells(hdr, rows)}
    return v


def impl_view(case, impl_out):
    return {k: v for k, v in impl_out.items() if k != "_rec"}


# ------------------------------------------------------------------------------------------------
# the model
# ------------------------------------------------------------------------------------------------
def model_request(case, impl_out):
    calls = (impl_out.get("_rec") or {}).get("calls", []) if isinstance(impl_out, dict) else []
    recs = []
    for c in calls:
        r = c.get("gpr")
        if not r:
            recs.append({})
            continue
        comp = r["comp"]
        recs.append({"shuffles": r["shuffles"], "cuts": r["cuts"], "razor_keys": r.get("razor_keys", []),
                     "scores1": comp[0]["scores"] if len(comp) > 0 else [], "scores2": comp[1]["scores"] if len(comp) > 1 else [],
                     "rescue_cutoff": r.get("rescue_cutoff")})
    f = case["flags"]
    req = {"op": "cli", "fasta": case["fasta"] or None, "contains_decoys": bool(f.get("contains_decoys")), "gene_level": bool(f.get("gene_level")),
           "use_uniprot": bool(f.get("use_uniprot")), "methods": ",".join(case["methods"]), "mokapot": False,
           "thr": case["thr"], "psm": case["psm"], "keep_all": bool(case["keepAll"]),
           "out": {"dir": "given", "stem": "out", "suffix": ".txt"}, "recs": recs}
    for k, _ in DIG_FLAGS:
        if f.get(k):
            req[k] = [x if isinstance(x, int) else str(x) for x in f[k]]
    for inp in ALL_INPUTS:
        if inp in case["evidence"]:
            req[inp] = [[{"pep": r["pep"], "mod": r.get("mod", ""), "score": r["score"], "prot": r["prot"], "decoy": bool(r.get("decoy")),
                          "razor_prot": r.get("razor_prot", "")} for r in rows]
                        for rows in case["evidence"][inp]]
    if case.get("mokapot"):
        req["mokapot_files"] = [bool(x) for x in case["mokapot"]]
    if case.get("map_files"):
        req["pep_map_files"] = [map_text(lines) for lines in case["map_files"]]
    if case.get("quant"):
        req["op"] = "cli_quant"
        req["do_quant"] = True
        req["skip_lfq"] = True
        req["cells"] = [[quant_cells(r["q"]) for r in rows] for rows in case["evidence"].get("mq", [])]
        req["ibaq_run_rule"] = QUANT_IBAQ_RULE == "run"
    return req


def _pipeline_like(case, name, rec):
    """(case, impl_out) in the shape the single-call functions of harness/pipeline.py take"""
    c = {"kind": "pipeline", "method": name, "pil": rec["pil"], "thr": rec["args"]["thr"], "psm": rec["args"]["psm"], "keepAll": rec["args"]["keepAll"]}
    o = {"rows": rec.get("rows", []), "passes": _passes(rec), "_rec": rec}
    return c, o


def model_view(case, resp, impl_out):
    if "proto_err" in resp:
        return resp
    calls = (impl_out.get("_rec") or {}).get("calls", [])
    methods = []
    skipped_near_tie = False
    for i, t in enumerate(resp["tables"]):
        if t is None:
            methods.append(None)
            continue
        rec = calls[i]["gpr"] if i < len(calls) else None
        if rec:
            c, o = _pipeline_like(case, case["methods"][i], rec)
            if pl.near_tie(t, c):
                skipped_near_tie = True
            fi = pl.float_identities(c, t, o)
            if fi:
                return {"float_identity_broken": "method %d (%s): %s" % (i, case["methods"][i], fi)}
        if t.get("quant") and quant_near_tie(t["quant"], case):
            skipped_near_tie = True
        mv = pl.model_view({}, {"rows": t["rows"], "pass1": t["pass1"], "pass2": t["pass2"]}, None)
        hdr, rows = (t["records"][0], t["records"][1:]) if t["records"] else ([], [])
        methods.append({"pil": [[p, rat(pl.fl(s)), pr] for p, s, pr in t["pil"]], "rows": mv["rows"], "passes": mv["passes"],
                        "table": {"file": t["file"], "where": "given" if t["dir"] == "given" else "cwd", "header": hdr, "rows": _model_cells(hdr, rows)}})
    if skipped_near_tie:
        return impl_view(case, impl_out)  # float scan and exact scan of the PEP cutoff may differ: not compared (counted)
    return {"err": resp["err"], "methods": methods, "files_consistent": True}


# ------------------------------------------------------------------------------------------------
# the property, stated directly on what the real run produced
# ------------------------------------------------------------------------------------------------
def row_peptide(fmt, r, flank):
    """the (still modified) peptide a row of the format spells"""
    if fmt == "maxquant":
        return r["pep"][1:-1]
    if fmt in ("native", "mokapot"):
        return r["pep"][2:-2] if flank else r["pep"]
    if fmt == "fragpipe":
        return r.get("mod") or r["pep"]
    return r["pep"]


def row_file_proteins(fmt, r, razor=False):
    """the protein list a row of the format carries (format descriptions of the five tools, DIA-NN's `Decoy` cell)"""
    if fmt == "maxquant":
        return (r["razor_prot"] if razor else r["prot"][0]).split(";")
    if fmt == "native":
        return list(r["prot"])
    if fmt == "mokapot":
        return r["prot"][0].split("\t")
    if fmt == "fragpipe":
        return [r["prot"][0]] + (r["prot"][1].split(", ") if r["prot"][1] else [])
    ps = r["prot"][0].split(";")
    if fmt == "diann" and r.get("decoy"):
        ps = ["REV__" + q for q in ps]
    return ps


def row_pep(fmt, r):
    """the posterior error probability of a row as the double the tool holds (None: no number): FragPipe reports the
    probability of being CORRECT (1 - p, + 1e-16), Sage log10 of the PEP"""
    if r["score"] == "nan":
        return None
    x = pl.fl(r["score"])
    if fmt == "fragpipe":
        x = 1 - x + 1e-16
    elif fmt == "sage":
        x = float(Fraction(10) ** int(x))
    return Fraction(x)


def expected_pil(case, name):
    """independent statement of ingestion: best PSM per peptide through the matching digest / map file"""
    t = shipped()[name]
    inp = input_of(t)
    files = case["evidence"].get(inp)
    if not files:
        return None
    psets = case["psets"]
    if remaps(t):
        if case["fasta"] and any(ps["digestion"] != "full" for ps in psets):
            return None
        maps = run_maps(case)
        if len(maps) == 1:
            maps = maps * len(files)
    else:
        maps = [None] * len(files)
    razor = t.get("sharedPeptides") == "razor"
    d = {}
    for k, (rows, m) in enumerate(zip(files, maps)):
        fmt = file_format(case, inp, k)
        flank = bool(rows) and rows[0]["pep"].startswith("-.") and rows[0]["pep"].endswith(".-")
        for r in rows:
            pep = strip_mods(row_peptide(fmt, r, flank))
            if m is not None:
                prots = list(m.get(pep, []))
                if not prots:
                    continue
            else:
                prots = row_file_proteins(fmt, r, razor)
            decoy = lambda p: p.startswith("REV__") or p.startswith("rev_")  # noqa: E731
            if not (all("REV__" in p for p in prots) or all("rev_" in p for p in prots)):
                prots = [p for p in prots if not decoy(p)]
            s = row_pep(fmt, r)
            if not prots or s is None:
                continue
            if pep in d and d[pep][0] <= s:
                continue
            d[pep] = [s, prots]
    return [[p, rat(v[0]), v[1]] for p, v in d.items()]


def annotation_truth(case):
    """identifier -> (header, gene) of the first record carrying the identifier, under the rule of the annotations"""
    f = case["flags"]
    use_pseudo = falls_back_to_pseudo_genes(case)
    rule = "gene" if (f.get("gene_level") and not use_pseudo) else ("uniprot" if f.get("use_uniprot") else "first")
    d = {}
    for lines in case["fasta"]:
        one = {}
        for hdr, _, gen in _stream(_records(lines), f.get("contains_decoys"), "KR"):
            i = gen_cli.ident(annotation_header(hdr, gen), rule)
            if i is not None and i not in one:
                one[i] = (annotation_header(hdr, gen), gen_cli.ident(hdr, "gene"))
        d.update(one)
    return d


def universe(case):
    """every identifier a reported protein may carry: identifiers of the FASTA records under the run's rule (digest side)"""
    use_pseudo = falls_back_to_pseudo_genes(case)
    rule = id_rule(case["flags"], use_pseudo)
    out = set()
    for lines in case["fasta"]:
        for hdr, _, gen in _stream(_records(lines), case["flags"].get("contains_decoys"), "KR"):
            i = digest_id(hdr, gen, rule)
            if i:
                out.add(i)
    if not case["fasta"]:  # the maps come from --peptide_protein_map files: the identifiers those files list
        for lines in case.get("map_files") or []:
            for _, prots in lines:
                out.update(prots)
    return out


def check_written_table(case, text, ann, uni):
    hdr, rows = read_table(text)
    if hdr != BASE_HEADERS + ANN_HEADERS:
        return "header of the written table is %r" % (hdr,)
    ix = {h: i for i, h in enumerate(hdr)}
    seen = set()
    prev = None
    for k, r in enumerate(rows, 1):
        if len(r) != len(hdr):
            return "row %d has %d fields, the header has %d" % (k, len(r), len(hdr))
        ids = r[ix["Protein IDs"]].split(";")
        q, s = float(r[ix["Q-value"]]), float(r[ix["Score"]])
        if q != q or q < 0:
            return "row %d: q-value %r" % (k, q)
        if prev is not None and q < prev[0]:
            return "q-values decrease down the table: row %d has %r after %r" % (k, q, prev[0])
        if prev is not None and s > prev[1]:
            return "rows are not sorted by score: row %d has %r after %r" % (k, s, prev[1])
        prev = (q, s)
        for p in ids:
            if p in seen:
                return "protein %s is reported twice" % p
            seen.add(p)
            if p not in uni:
                return "row %d lists protein %r, which is not an identifier of the FASTA file(s) under the run's identifier rule" % (k, p)
        if int(r[ix["Number of proteins"]]) != len(ids):
            return "row %d: Number of proteins %s for %d identifiers" % (k, r[ix["Number of proteins"]], len(ids))
        found = [ann[p] for p in ids if p in ann]
        names = list(dict.fromkeys(p for p in ids if p in ann))
        genes = list(dict.fromkeys(g for _, g in found if g is not None))
        hdrs = list(dict.fromkeys(h for h, _ in found))
        want = [";".join(names), ";".join(genes), ";".join(hdrs)]
        got = [r[ix[h]] for h in ANN_HEADERS]
        if got != want:
            return "row %d (%s): annotation columns %r, the FASTA headers say %r" % (k, r[ix["Protein IDs"]], got, want)
    return None


def oracle_rescue(c, o):
    """the rescue cutoff is 10^-(worst first-pass score with q below the protein-group threshold; of all if none)"""
    import numpy as np

    p = o["passes"]
    if len(p) < 2 or "qvals" not in p[0]:
        return None
    thr = pl.fl(c["thr"])
    pairs = [(pl.fl(s), pl.fl(q)) for s, q in zip(p[0]["ranked_scores"], p[0]["qvals"])]
    sel = [s for s, q in pairs if q < thr] or [s for s, _ in pairs]
    if not sel:
        return None
    want = float(np.power(10, min(sel) * -1))
    got = o["_rec"].get("rescue_cutoff")
    if got is None or pl.fl(got) != want:
        return "rescue cutoff %r, but the worst first-pass protein score with q < %r is %r, i.e. PEP %r" % (
            None if got is None else pl.fl(got), thr, min(sel), want)
    return None


def oracle(case, impl_out):
    if not isinstance(impl_out, dict):
        return "no result"
    if "exc" in impl_out:
        return "the command line %s raised %s: %s" % (describe(case), impl_out["exc"], impl_out.get("msg"))
    sm = shipped()
    calls = impl_out["_rec"]["calls"]
    if impl_out["err"] == "no_ranked_groups":
        return None  # degenerate input: no group of the method has evidence
    if impl_out["err"] is not None:
        return "%s was refused (%s) although every method is shipped and the input is valid" % (describe(case), impl_out["err"])
    if len(calls) != len(case["methods"]):
        return "%d methods were given, %d were run" % (len(case["methods"]), len(calls))
    if not impl_out["files_consistent"]:
        return "the files left behind are not the tables the methods wrote: %r" % (impl_out["_rec"]["final_files"],)
    ann, uni = annotation_truth(case), universe(case)
    several = len(case["methods"]) > 1
    for i, (name, c) in enumerate(zip(case["methods"], calls)):
        t = sm[name]
        has_input = bool(case["evidence"].get(input_of(t)))
        if not has_input:
            if c["gpr"] is not None or c["written"] is not None:
                return "method %s has no input file of its type but was run" % name
            continue
        if c["gpr"] is None or c["written"] is None:
            return "method %s (input given) wrote no table" % name
        rec = c["gpr"]
        a = rec["args"]
        if (a["thr"], a["psm"], a["keepAll"]) != (case["thr"], case["psm"], bool(case["keepAll"])):
            return "method %s: the inference was called with threshold %r, PSM level %r, keep_all %r; the command line says %r, %r, %r" % (
                name, pl.fl(a["thr"]), pl.fl(a["psm"]), a["keepAll"], pl.fl(case["thr"]), pl.fl(case["psm"]), bool(case["keepAll"]))
        want = expected_pil(case, name)
        if want is not None and want != rec["pil"]:
            return "method %s: ingested peptide list differs from best-PSM-per-peptide through the matching digest: %s" % (name, _first_diff(want, rec["pil"]))
        pc, po = _pipeline_like(case, name, rec)
        for fn in (pl.oracle_c01, pl.oracle_c06, oracle_rescue):
            o = fn(pc, po)
            if o:
                return "method %s: %s" % (name, o)
        w = c["written"]
        want_file = "out_%s.txt" % label_suffix(t) if several else "out.txt"
        if w["file"] != want_file or w["where"] != ("cwd" if several else "given"):
            return "method %s wrote %s/%s, expected %s" % (name, w["where"], w["file"], want_file)
        o = check_written_table(case, w["text"], ann, uni if remaps(t) else uni | _file_proteins(case, t))
        if o:
            return "method %s, table %s: %s" % (name, w["file"], o)
        hdr, rows = read_table(w["text"])
        got = [r[:5] + [rat(float(r[5])), rat(float(r[6]))] + r[7:9] for r in rows]
        ret = [[r[k] if k != "numberOfProteins" else str(r[k]) for k in pl.ROW_FIELDS] for r in rec.get("rows", [])]
        if got != ret:
            return "method %s: the written rows are not the rows the inference returned" % name
    return None


def written_rows(text):
    """the rows of a written table as the nine-field records harness/pipeline.py states its properties on"""
    hdr, rows = read_table(text)
    if hdr[: len(BASE_HEADERS)] != BASE_HEADERS:
        return None
    out = []
    for r in rows:
        d = dict(zip(pl.ROW_FIELDS, r[: len(pl.ROW_FIELDS)]))
        d["numberOfProteins"] = int(d["numberOfProteins"])
        d["qValue"], d["score"] = rat(float(d["qValue"])), rat(float(d["score"]))
        out.append(d)
    return out


def command_line_like(case, name, rec, text):
    """(case, impl_out) in the shape the single-call property statements of harness/pipeline.py take, for what the USER
    of the command line sees: the thresholds are the ones GIVEN ON THE COMMAND LINE (not the ones the glue handed to the
    inference call), the rows are the ones read back from the WRITTEN table (not the returned objects); groups, evidence
    and cutoff of each pass are the observed ones"""
    c = {"kind": "pipeline", "method": name, "pil": rec["pil"], "thr": case["thr"], "psm": case["psm"], "keepAll": bool(case["keepAll"])}
    o = {"rows": written_rows(text), "passes": _passes(rec), "_rec": rec}
    return c, o


def statement_oracle(case, impl_out, statements):
    """the named property statements ("c01", "c06": `oracle_<name>` of harness/pipeline.py) on every table the command
    line wrote, relative to the command line's own --psm_fdr_cutoff / --protein_group_fdr_threshold / --keep_all_proteins"""
    if not isinstance(impl_out, dict):
        return "no result"
    if "exc" in impl_out:
        return "the command line %s raised %s: %s" % (describe(case), impl_out["exc"], impl_out.get("msg"))
    if impl_out["err"] == "no_ranked_groups":
        return None
    if impl_out["err"] is not None:
        return "%s was refused (%s) although every method is shipped and the input is valid" % (describe(case), impl_out["err"])
    sm = shipped()
    calls = impl_out["_rec"]["calls"]
    for name, c in zip(case["methods"], calls):
        if not case["evidence"].get(input_of(sm[name])):
            continue
        if c["gpr"] is None or c["written"] is None:
            return "method %s (input given) wrote no table" % name
        pc, po = command_line_like(case, name, c["gpr"], c["written"]["text"])
        if po["rows"] is None:
            return "method %s, table %s: header %r" % (name, c["written"]["file"], read_table(c["written"]["text"])[0])
        for st in statements:
            o = getattr(pl, "oracle_" + st)(pc, po)
            if o:
                return "method %s, written table %s (--psm_fdr_cutoff %r --protein_group_fdr_threshold %r%s): %s" % (
                    name, c["written"]["file"], pl.fl(case["psm"]), pl.fl(case["thr"]), " --keep_all_proteins" if case["keepAll"] else "", o)
    return None


def _file_proteins(case, t):
    out = set()
    inp = input_of(t)
    for k, rows in enumerate(case["evidence"].get(inp, [])):
        fmt = file_format(case, inp, k)
        for r in rows:
            out.update(row_file_proteins(fmt, r))
            if r.get("razor_prot"):
                out.add(r["razor_prot"])
    return out


def _first_diff(want, got):
    for k in range(max(len(want), len(got))):
        a = want[k] if k < len(want) else None
        b = got[k] if k < len(got) else None
        if a != b:
            def sh(x):
                return None if x is None else [x[0], pl.fl(x[1]), x[2]]
            return "entry %d expected %r, got %r (%d vs %d entries)" % (k, sh(a), sh(b), len(want), len(got))
    return "?"


def describe(case):
    f = case["flags"]
    maps = " ".join(input_names(case, "fasta", len(case["fasta"]))) if case["fasta"] else "(none)"
    if case.get("map_files"):
        maps += "; --peptide_protein_map " + " ".join(input_names(case, "map", len(case["map_files"])))
    if any(case.get("mokapot") or []):
        maps += "; mokapot-style Percolator files: %s" % " ".join(
            n for n, mk in zip(input_names(case, "perc", len(case["mokapot"])), case["mokapot"]) if mk)
    return "--methods %s [%s; --fasta %s; %s; digestion flags %r]" % (
        ",".join(case["methods"]),
        ", ".join("%s %s" % (FLAG_OF_INPUT[k], " ".join(input_names(case, k, len(v)))) for k, v in case["evidence"].items()),
        maps,
        " ".join(k for k in ("contains_decoys", "gene_level", "use_uniprot") if f.get(k)) or "default ids",
        {k: f[k] for k, _ in DIG_FLAGS if f.get(k)})


def nontrivial(case, impl_out):
    return isinstance(impl_out, dict) and any(m and m.get("table") and len(m["table"]["rows"]) >= 2 for m in impl_out.get("methods", []))


def features(case, impl_out):
    f = ["cli_model:methods=%d" % len(case["methods"])]
    sm = shipped()
    kinds = {("remap" if remaps(sm[n]) else "noremap") for n in case["methods"]}
    if len(kinds) == 2:
        f.append("cli_model:mixed_remap")
    f.append("cli_model:param_sets=%d" % len(case["psets"]))
    if any(ps["digestion"] == "semi" for ps in case["psets"]):
        f.append("cli_model:semi_specific")
    for k, v in case["evidence"].items():
        f.append("cli_model:%s_files=%d" % (k, len(v)))
        for i, rows in enumerate(v):
            f.append("cli_model:format=" + file_format(case, k, i))
            if k == "perc" and rows:
                f.append("cli_model:perc_flanks=%s" % (rows[0]["pep"].startswith("-.") and rows[0]["pep"].endswith(".-")))
    if len(case["evidence"]) > 1:
        f.append("cli_model:input_types=" + "+".join(sorted(case["evidence"])))
    if len(set(case.get("mokapot") or [])) > 1:
        f.append("cli_model:native_and_mokapot_files_in_one_run")
    f.append("cli_model:maps_from=" + ("fasta+mapfile" if case["fasta"] and case.get("map_files") else "fasta" if case["fasta"]
                                       else "mapfile" if case.get("map_files") else "none"))
    for k in ("contains_decoys", "gene_level", "use_uniprot"):
        if case["flags"].get(k):
            f.append("cli_model:" + k)
    if falls_back_to_pseudo_genes(case):
        f.append("cli_model:pseudo_genes")
    if len(case["fasta"]) > 1:
        f.append("cli_model:two_fasta_files")
    for key, nm in (case.get("names") or {}).items():
        if len(nm) > 1:
            f.append("cli_model:%s_files_in_%s_order" % (key, "alphabetical" if nm == sorted(nm) else "non_alphabetical"))
            if len(set(nm)) < len(nm):
                f.append("cli_model:%s_file_mentioned_twice" % key)
            if len({n.rsplit("/", 1)[-1] for n in set(nm)}) < len(set(nm)):
                f.append("cli_model:%s_same_file_name_in_different_directories" % key)
    f.append("cli_model:psm_level=%r" % pl.fl(case["psm"]))
    f.append("cli_model:protein_threshold=%r" % pl.fl(case["thr"]))
    if case["keepAll"]:
        f.append("cli_model:keep_all_proteins")
    if isinstance(impl_out, dict) and "methods" in impl_out:
        f.append("cli_model:err=%s" % impl_out.get("err"))
        f.append("cli_model:tables=%d" % sum(1 for m in impl_out["methods"] if m and m.get("table")))
        if any(m is None for m in impl_out["methods"]):
            f.append("cli_model:method_skipped")
        labels = [label_suffix(sm[n]) for n in case["methods"]]
        if len(set(labels)) < len(labels):
            f.append("cli_model:label_collision")
        for n in case["methods"]:
            f.append("cli_model:method=" + n)
    return f


def _shrink(case):
    if len(case["methods"]) > 1:
        for i in range(len(case["methods"])):
            yield dict(case, methods=case["methods"][:i] + case["methods"][i + 1:])
    read = {input_of(shipped()[n]) for n in case["methods"] if n in shipped()}
    if any(k not in read for k in case["evidence"]):  # input files no method of the run reads
        c = dict(case, evidence={k: v for k, v in case["evidence"].items() if k in read})
        if "perc" not in read and case.get("mokapot"):
            c["mokapot"] = []
        yield c
    names = case.get("names") or {}
    for inp, files in case["evidence"].items():
        nm = names.get(inp)
        if len(files) > 1 and len(case["psets"]) == 1:
            for i in range(len(files)):
                c = dict(case, evidence=dict(case["evidence"], **{inp: files[:i] + files[i + 1:]}))
                if nm:
                    c["names"] = dict(names, **{inp: nm[:i] + nm[i + 1:]})
                if inp == "perc" and case.get("mokapot"):
                    c["mokapot"] = case["mokapot"][:i] + case["mokapot"][i + 1:]
                yield c
        for i, rows in enumerate(files):
            if nm and nm[i] in nm[:i]:
                continue  # a second mention of a file: its rows follow the first mention
            for j in range(len(rows)):
                yield dict(case, evidence=dict(case["evidence"], **{inp: files[:i] + [rows[:j] + rows[j + 1:]] + files[i + 1:]}))
    if case["keepAll"]:
        yield dict(case, keepAll=False)
    if any(case.get("mokapot") or []):  # does the header style matter?  the same Percolator rows in native files
        c = dict(case, mokapot=[False] * len(case["mokapot"]), evidence=dict(case["evidence"]))
        c["evidence"]["perc"] = [[dict(r, prot=r["prot"][0].split("\t")) for r in rows if r["score"] != "nan"] if mk else rows
                                 for rows, mk in zip(case["evidence"]["perc"], case["mokapot"])]
        yield c
    if case.get("map_files") and case["fasta"]:
        yield {k: v for k, v in case.items() if k != "map_files"}
    if names:
        # do the names matter?  numbered names in the order of mention (evidence0.txt, evidence1.txt, ...); a file
        # mentioned twice becomes two files of equal content
        yield dict(case, names=None)
        for key, nm in names.items():
            if len(nm) > 1 and nm != sorted(nm) and len(set(nm)) == len(nm):
                # the same files given in alphabetical order (files and their parameter sets keep their positions)
                yield dict(case, names=dict(names, **{key: sorted(nm)}))


def shrink(case):
    for c in _shrink(case):
        yield sync_mentions(c)


# ------------------------------------------------------------------------------------------------
# quantification runs: `--do_quant --skip_lfq` on MaxQuant evidence (model: lean/PgFdr/Model/CliQuant.lean, op "cli_quant")
# ------------------------------------------------------------------------------------------------
# identifiers of the iBAQ peptide numbers: "first" = first word of the FASTA header, which is what writers/factory.py asks
# the digest for whatever --fasta_use_uniprot_id / --gene_level say (the code as it is); "run" = the run's identifier rule
# (the repair proposed in fixes/C12-ibaq-identifier-rule.diff).  Decides the model request and the recomputation alike.
QUANT_IBAQ_RULE = os.environ.get("VERIF_QUANT_IBAQ_RULE", "run")  # "run": the identifier rule of the run (repaired by /repo fix); "first" = the pinned behaviour
QUANT_EXPS = ["E1", "E2", "E10", "b", "B"]  # `sorted(set(...))` is code-point order: B E1 E10 E2 b
QUANT_SILAC = {0: [], 2: ["L", "H"], 3: ["L", "M", "H"]}
COVERAGE_HEADERS = ("Sequence coverage [%]", "Unique + razor sequence coverage [%]", "Unique sequence coverage [%]")


def gen_quant_case(rng, tier):
    """a command line with MaxQuant methods only, every evidence row carrying the quantification cells: 1-3 experiments,
    optional fractions, charges 2-3, sibling rows of a precursor in other runs (match-between-runs rows = empty PEP,
    re-identifications with another PEP), integer intensities (sums exact), label free / SILAC 2 / SILAC 3 / TMT 2"""
    case = gen_case(rng, tier, only_inputs=("mq",))
    lay = {"silac": rng.choice([0, 0, 0, 2, 3]), "tmt": rng.choice([0, 0, 0, 2]), "has_fraction": rng.random() < 0.5}
    exps = rng.sample(QUANT_EXPS, rng.choice([1, 2, 2, 3]))
    files = case["evidence"].get("mq", [])
    names = (case.get("names") or {}).get("mq") or [str(i) for i in range(len(files))]
    next_id = [0]

    def cells(z=None):
        t = rng.random()
        inten = None if t < 0.03 else "empty" if t < 0.08 else rat(rng.randint(0, 10 ** rng.choice([3, 5, 6])))
        q = {"id": next_id[0], "z": z if z is not None else rng.choice([2, 2, 3]), "exp": rng.choice(exps),
             "frac": str(rng.choice([1, 2, 3])) if lay["has_fraction"] else "-1", "int": inten,
             "silac": [rat(rng.randint(0, 50000)) for _ in range(lay["silac"])],
             "tmt": [rat(rng.randint(0, 30000)) for _ in range(3 * lay["tmt"])]}
        next_id[0] += 1
        return q

    first = {}
    for fi, rows in enumerate(files):
        if names[fi] in first:
            files[fi] = files[first[names[fi]]]
            continue
        first[names[fi]] = fi
        out = []
        for r in rows:
            r = dict(r, q=cells())
            out.append(r)
            for _ in range(rng.choice([0, 0, 1, 1, 2, 3])):
                sib = dict(r, q=cells(r["q"]["z"] if rng.random() < 0.7 else None))
                t = rng.random()
                if t < 0.45:
                    sib["score"] = "nan"  # a match-between-runs row
                elif t < 0.75:
                    sib["score"] = rat(float(rng.choice(PEP_GRID)))
                out.append(sib)
        rng.shuffle(out)
        files[fi] = out
    case["quant"] = {"layout": lay, "suppress": rng.random() < 0.5}
    return case


def _num_text(x):
    """protocol number (R | None = NaN | "empty") -> field text of evidence.txt"""
    if x is None:
        return "NaN"
    if x == "empty":
        return ""
    f = unrat(x)
    return str(f.numerator) if f.denominator == 1 else repr(f.numerator / f.denominator)


def _num_val(x):
    """protocol number -> what the parser holds (R, or None for NaN; an empty cell is 0)"""
    return None if x is None else (["0", "1"] if x == "empty" else x)


def quant_evidence_table(case, rows):
    lay = case["quant"]["layout"]
    hdr = ["Modified sequence", "Leading proteins", "Leading razor protein", "PEP", "Score", "Experiment", "Charge", "Intensity", "Raw file"]
    if lay["has_fraction"]:
        hdr.append("Fraction")
    hdr.append("id")
    hdr += ["Intensity " + c for c in QUANT_SILAC[lay["silac"]]]
    for kind in ("Reporter intensity corrected ", "Reporter intensity ", "Reporter intensity count "):
        hdr += [kind + str(i) for i in range(1, lay["tmt"] + 1)]
    out = []
    for r in rows:
        q = r["q"]
        line = [r["pep"], r["prot"][0], r["razor_prot"], _cell(r["score"]), "10", q["exp"], str(q["z"]), _num_text(q["int"]),
                "raw_%s_%s" % (q["exp"], q["frac"])]
        if lay["has_fraction"]:
            line.append(q["frac"])
        line.append(str(q["id"]))
        line += [_num_text(x) for x in q["silac"]] + [_num_text(x) for x in q["tmt"]]
        out.append(line)
    return hdr, out


def quant_cells(q):
    return {"id": q["id"], "z": q["z"], "exp": q["exp"], "frac": q["frac"], "int": _num_val(q["int"]),
            "silac": [_num_val(x) for x in q["silac"]], "tmt": [_num_val(x) for x in q["tmt"]]}


def quant_cell_kind(h):
    """which formatter the MaxQuant writer applies to the cells of a column: '%.0f' (floats handed to
    `_format_extra_columns`), '%.1f' of the hundredfold (sequence coverage), None = text as it is"""
    if h in COVERAGE_HEADERS or h.startswith("Sequence coverage [%] "):
        return "cov"
    if h == "Intensity" or h == "iBAQ" or h.startswith("Intensity ") or h.startswith("iBAQ ") or h.startswith("Reporter intensity "):
        return "f0"
    return None


def fmt0(fr):
    """'%.0f' % (the double nearest to fr): round half to even on the exact binary value, done with integers"""
    v = fr.numerator / fr.denominator
    f = Fraction(*v.as_integer_ratio())
    sign = "-" if f < 0 else ""
    f = abs(f)
    n, rem = divmod(f.numerator, f.denominator)
    if 2 * rem > f.denominator or (2 * rem == f.denominator and n % 2 == 1):
        n += 1
    return "-0" if (n == 0 and sign) else sign + str(n)


def format_quant_cell(kind, fr):
    if kind == "cov":
        return "%.1f" % ((fr.numerator / fr.denominator) * 100)  # the code: (sum / len) * 100 on doubles
    return fmt0(fr)


def quant_near_tie(qv, case):
    """a running mean of the finite PEPs of the quantified precursors within 1e-9 (relative) of --psm_fdr_cutoff: the float
    scan of calc_post_err_prob_cutoff and the exact one may cross at different elements (the PEPs are decimal fractions)"""
    level = unrat(case["psm"])
    vals = sorted(unrat(x) for x in qv["peps"] if not isinstance(x, str))
    s = Fraction(0)
    for k, v in enumerate(vals):
        s += v
        m = s / (k + 1)
        if abs(m - level) <= abs(level) * Fraction(1, 10**9) and not (k == 0 and m == level):
            return True
    return False


def truth_ibaq(case, rule=None):
    """protein -> number of distinct fully specific peptides of length max(6, min)..min(30, max) without missed cleavages
    (own digestion), over every FASTA file and every digestion parameter set of the command line; identifiers by `rule`"""
    if rule is None:
        rule = QUANT_IBAQ_RULE
    if rule == "run":
        rule = id_rule(case["flags"], falls_back_to_pseudo_genes(case))
    m = {}
    for f in case["fasta"]:
        for ps in case["psets"]:
            for hdr, seq, gen in _stream(_records(f), case["flags"].get("contains_decoys"), ps["special_aas"]):
                pid = digest_id(hdr, gen, rule)
                if not pid:
                    continue
                for p in dict.fromkeys(gen_cli.digest_full(seq, ps["enzyme"], 0, max(6, ps["min_length"]), min(30, ps["max_length"]))):
                    m.setdefault(p, []).append(pid)
    n = {}
    for prots in m.values():
        for q in dict.fromkeys(prots):
            n[q] = n.get(q, 0) + 1
    return n


def strip_mods(mod):
    import re

    return re.sub(r"\[[^]]*\]", "", re.sub(r"\([^)]*\)", "", mod)).replace(")", "")


def quant_evidence_truth(case, name):
    """the evidence rows of a MaxQuant method as the property sees them: per row the modified sequence, the protein list
    (through the harness's own digest of the FASTA for the parameter set of the file's position when the method remaps,
    the file's own list otherwise), PEP and quantification cells.  None: not stated here (semi-specific digestion)."""
    t = shipped()[name]
    files = case["evidence"].get("mq") or []
    if remaps(t):
        if any(ps["digestion"] != "full" for ps in case["psets"]):
            return None
        rule = id_rule(case["flags"], falls_back_to_pseudo_genes(case))
        maps = [truth_map(case, ps, rule) for ps in case["psets"]]
        if len(maps) == 1:
            maps = maps * len(files)
    else:
        maps = [None] * len(files)
    out = []
    for rows, m in zip(files, maps):
        one = []
        for r in rows:
            mod = r["pep"][1:-1]
            if m is not None:
                prot = list(m.get(strip_mods(mod), []))
            elif t.get("sharedPeptides") == "razor":
                prot = r["razor_prot"].split(";")
            else:
                prot = r["prot"][0].split(";")
            q = r["q"]
            one.append({"id": q["id"], "pep": mod, "z": q["z"], "exp": q["exp"], "frac": q["frac"], "prot": prot, "int": q["int"],
                        "pp": r["score"], "silac": q["silac"], "tmt": q["tmt"]})
        out.append(one)
    return out


def run_oracle(case, impl_out):
    """the run completes, one run_method per method, every method whose input was given wrote its table"""
    if not isinstance(impl_out, dict):
        return "no result"
    if "exc" in impl_out:
        return "the command line %s raised %s: %s" % (describe(case), impl_out["exc"], impl_out.get("msg"))
    if impl_out["err"] == "no_ranked_groups":
        return None
    if impl_out["err"] is not None:
        return "%s was refused (%s) although every method is shipped and the input is valid" % (describe(case), impl_out["err"])
    sm = shipped()
    calls = impl_out["_rec"]["calls"]
    if len(calls) != len(case["methods"]):
        return "%d methods were given, %d were run" % (len(case["methods"]), len(calls))
    if not impl_out["files_consistent"]:
        return "the files left behind are not the tables the methods wrote: %r" % (impl_out["_rec"]["final_files"],)
    for name, c in zip(case["methods"], calls):
        if not case["evidence"].get(input_of(sm[name])):
            continue
        if c["gpr"] is None or c["written"] is None:
            return "method %s (input given) wrote no table" % name
    return None


# ------------------------------------------------------------------------------------------------
# mixin: adds command-line glue cases to a property module's P (class P(CliMixin, Base))
# ------------------------------------------------------------------------------------------------
class CliMixin:
    cli_model_share = 0.03     # fraction of generated cases that run the whole command line against the model
    cli_oracles = None         # None: the complete oracle of this module (glue statements included); a tuple of names
    #                            ("c01", "c06"): only those property statements, evaluated by statement_oracle on the
    #                            written tables against the command line's own thresholds

    def gen_case(self, rng, tier):
        if rng.random() < self.cli_model_share:
            return gen_case(rng, tier)
        return super().gen_case(rng, tier)

    def run_impl(self, case):
        if isinstance(case, dict) and case.get("kind") == "cli_model":
            return run_impl(case)
        return super().run_impl(case)

    def model_request(self, case, impl_out):
        if isinstance(case, dict) and case.get("kind") == "cli_model":
            if not isinstance(impl_out, dict) or "_rec" not in impl_out:
                return None
            return model_request(case, impl_out)
        return super().model_request(case, impl_out)

    def model_view(self, case, resp, impl_out):
        if isinstance(case, dict) and case.get("kind") == "cli_model":
            return model_view(case, resp, impl_out)
        return super().model_view(case, resp, impl_out)

    def impl_view(self, case, impl_out):
        if isinstance(case, dict) and case.get("kind") == "cli_model":
            return impl_view(case, impl_out)
        return super().impl_view(case, impl_out)

    def oracle(self, case, impl_out):
        if isinstance(case, dict) and case.get("kind") == "cli_model":
            if self.cli_oracles is not None:
                o = statement_oracle(case, impl_out, self.cli_oracles)
                return None if o is None else "command line %s: %s" % (describe(case), o)
            o = oracle(case, impl_out)
            return None if o is None else "command line vs glue model: " + o
        return super().oracle(case, impl_out)

    def nontrivial(self, case, impl_out):
        if isinstance(case, dict) and case.get("kind") == "cli_model":
            return nontrivial(case, impl_out)
        return super().nontrivial(case, impl_out)

    def features(self, case, impl_out):
        if isinstance(case, dict) and case.get("kind") == "cli_model":
            return ["kind=cli_model"] + features(case, impl_out)
        return super().features(case, impl_out)

    def shrink(self, case):
        if isinstance(case, dict) and case.get("kind") == "cli_model":
            return shrink(case)
        return super().shrink(case)


class QuantCliMixin(CliMixin):
    """command lines with `--do_quant --skip_lfq` (MaxQuant methods); the property module supplies
    `quant_table_oracle(case, method_name, recorded_call, written_text)` (its own statement on the written table)"""

    def gen_case(self, rng, tier):
        if rng.random() < self.cli_model_share:
            return gen_quant_case(rng, tier)
        return super(CliMixin, self).gen_case(rng, tier)

    def oracle(self, case, impl_out):
        if isinstance(case, dict) and case.get("kind") == "cli_model":
            o = run_oracle(case, impl_out)
            if o is None and impl_out.get("err") is None:
                sm = shipped()
                for name, c in zip(case["methods"], impl_out["_rec"]["calls"]):
                    if not case["evidence"].get(input_of(sm[name])):
                        continue
                    o = self.quant_table_oracle(case, name, c["gpr"], c["written"]["text"])
                    if o:
                        o = "method %s, written table %s (--psm_fdr_cutoff %r --protein_group_fdr_threshold %r): %s" % (
                            name, c["written"]["file"], pl.fl(case["psm"]), pl.fl(case["thr"]), o)
                        break
            return None if o is None else "command line %s --do_quant --skip_lfq: %s" % (describe(case), o)
        return super().oracle(case, impl_out)

    def features(self, case, impl_out):
        f = super().features(case, impl_out)
        if isinstance(case, dict) and case.get("kind") == "cli_model" and case.get("quant"):
            lay = case["quant"]["layout"]
            f += ["cli_quant", "cli_quant:silac=%d" % lay["silac"], "cli_quant:tmt=%d" % lay["tmt"],
                  "cli_quant:fraction_column=%s" % lay["has_fraction"]]
            rows = [r for fl_ in case["evidence"].get("mq", []) for r in fl_]
            f.append("cli_quant:experiments=%d" % len({r["q"]["exp"] for r in rows}))
            if any(r["score"] == "nan" for r in rows):
                f.append("cli_quant:has_mbr")
            for m in (impl_out.get("methods") or []) if isinstance(impl_out, dict) else []:
                if m and m.get("table"):
                    f.append("cli_quant:rows_written=%s" % min(len(m["table"]["rows"]), 5))
                    if m.get("rows") is not None and len(m["table"]["rows"]) < len(m["rows"]):
                        f.append("cli_quant:group_without_precursors_removed")
        return f
