"""development probe: N generated command lines (all input types, --fasta / --peptide_protein_map / neither) through the real
   code, the composed model (driver op "cli") and the oracle of harness/cli_model.py
   usage: /venv/bin/python harness/tools/cli_probe.py [seed] [n] [--show]"""
import json
import os
import random
import sys
import time

sys.path.insert(0, os.path.join(os.path.dirname(__file__), ".."))
import lib  # noqa: E402

sys.path.insert(0, str(lib.REPO))
sys.path.append(os.path.join(os.path.dirname(__file__), "..", "stubs"))
import cli_model as cm  # noqa: E402

seed = int(sys.argv[1]) if len(sys.argv) > 1 else 0
n = int(sys.argv[2]) if len(sys.argv) > 2 else 20
show = "--show" in sys.argv
rng = random.Random(seed)
cases = [cm.gen_case(random.Random(rng.random()), "quick") for _ in range(n)]
outs = []
t0 = time.time()
for c in cases:
    try:
        outs.append(cm.run_impl(c))
    except Exception as e:  # noqa: BLE001
        import traceback

        traceback.print_exc()
        outs.append({"exc": type(e).__name__, "msg": str(e)})
t1 = time.time()
reqs = [cm.model_request(c, o) if "exc" not in o else None for c, o in zip(cases, outs)]
idx = [i for i, r in enumerate(reqs) if r is not None]
resps = lib.Model().ask([reqs[i] for i in idx])
t2 = time.time()
bad = 0
hist = {}
for i, resp in zip(idx, resps):
    c, o = cases[i], outs[i]
    if "proto_err" in resp:
        print(i, "PROTO", resp)
        bad += 1
        continue
    mv = cm.model_view(c, resp, o)
    iv = cm.impl_view(c, o)
    orc = cm.oracle(c, o)
    for f in cm.features(c, o):
        hist[f] = hist.get(f, 0) + 1
    if mv == iv and "err" not in mv:
        hist["(skipped: near tie)"] = hist.get("(skipped: near tie)", 0) + 1
    if mv != iv or orc:
        bad += 1
        print("==== case", i, cm.describe(c))
        if orc:
            print("  ORACLE:", orc)
        if mv != iv:
            print("  DISAGREE: model err", mv.get("err") if isinstance(mv, dict) else mv, "impl err", iv.get("err"))
            for k, (a, b) in enumerate(zip(mv.get("methods") or [], iv.get("methods") or [])):
                if a != b:
                    for key in (a or {}):
                        if (a or {}).get(key) != (b or {}).get(key):
                            print("   method", k, c["methods"][k], "differs in", key)
                            print("     model:", json.dumps((a or {}).get(key))[:600])
                            print("     impl :", json.dumps((b or {}).get(key))[:600])
                            break
        if show:
            print(json.dumps(c)[:3000])
print("cases", n, "bad", bad, "exceptions", sum(1 for o in outs if "exc" in o), "impl %.1fs model %.1fs" % (t1 - t0, t2 - t1))
for k in sorted(hist):
    print("  %-70s %d" % (k, hist[k]))
