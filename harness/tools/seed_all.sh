#!/bin/bash
# seed_all.sh [lanes]: every seeded change against its property's check (quick tier, scratch worktrees); results in seeded/RESULTS.txt
cd /verif
LANES=${1:-4}
ls seeded | grep -E '^C[0-9]+-[a-z]$' | sort > /tmp/seed_all.list
rm -f /tmp/seed_all.out.*
split -n l/$LANES -d /tmp/seed_all.list /tmp/seed_all.lane.
for f in /tmp/seed_all.lane.*; do
  ( while read s; do harness/tools/seed_run.sh $s quick | tail -1; done < $f > /tmp/seed_all.out.$(basename $f) ) &
done
wait
cat /tmp/seed_all.out.* | sort > seeded/RESULTS.txt
rm -f /tmp/seed_all.lane.* /tmp/seed_all.out.* /tmp/seed_all.list
grep -c CAUGHT seeded/RESULTS.txt; grep -v "CAUGHT(failing-input)" seeded/RESULTS.txt
