#!/bin/bash
# seed_confirm.sh <src dir with patch.diff demo.py meta.json> <seeded id>
# Confirms a seeded change in a scratch worktree of /repo (tests still pass; demo passes clean, fails patched)
# and stores it as /verif/seeded/<id>/.  The worktree is removed afterwards.
set -u
SRC=$1; ID=$2
WT=/tmp/sc_$ID
STUBS=/verif/harness/stubs
git -C /repo worktree remove --force $WT 2>/dev/null
git -C /repo worktree add -q --detach $WT HEAD || exit 2
cd $WT
run_demo() { PYTHONDONTWRITEBYTECODE=1 PYTHONPATH=$WT:$STUBS timeout 900 /venv/bin/python $SRC/demo.py >/tmp/sc_$ID.demo.out 2>&1; echo $?; }
D0=$(run_demo)
if ! git apply --check $SRC/patch.diff 2>/tmp/sc_$ID.apply; then echo "PATCH DOES NOT APPLY: $(cat /tmp/sc_$ID.apply | head -3)"; cd /; git -C /repo worktree remove --force $WT; exit 3; fi
git apply $SRC/patch.diff
T1=$(PYTHONDONTWRITEBYTECODE=1 timeout 1800 /venv/bin/python -m pytest -ra -q -p no:cacheprovider --timeout=900 --continue-on-collection-errors 2>&1 | tail -1)
D1=$(run_demo)
DEMO_TAIL=$(tail -3 /tmp/sc_$ID.demo.out | tr '\n' ' ' | cut -c1-300)
cd /
git -C /repo worktree remove --force $WT
echo "id=$ID demo_clean=$D0 demo_patched=$D1 tests_patched: $T1"
if [ "$D0" = 0 ] && [ "$D1" != 0 ] && echo "$T1" | grep -q "91 passed" && ! echo "$T1" | grep -q "failed"; then
  mkdir -p /verif/seeded/$ID
  cp $SRC/patch.diff $SRC/demo.py /verif/seeded/$ID/
  /venv/bin/python - "$SRC/meta.json" "/verif/seeded/$ID/meta.json" "$ID" "$T1" "$DEMO_TAIL" <<'PY'
import json,sys
src,dst,ID,t1,tail=sys.argv[1:6]
try: m=json.load(open(src))
except Exception: m={}
m["seeded_id"]=ID
m["confirmed"]={"baseline_tests_with_patch":t1,"demo_clean_exit":0,"demo_patched_exit":"nonzero","demo_patched_tail":tail,
  "how":"harness/tools/seed_confirm.sh: scratch git worktree of /repo HEAD, baseline pytest command with the patch applied, demo.py with PYTHONPATH=<worktree>:harness/stubs before and after git apply"}
json.dump(m,open(dst,"w"),indent=1)
PY
  echo "CONFIRMED -> /verif/seeded/$ID"
else
  echo "NOT CONFIRMED"; tail -5 /tmp/sc_$ID.demo.out
fi
