"""development probe: N generated `--do_quant --skip_lfq` command lines through the real code, the model and the oracle
   usage: PGFDR_DRIVER_CMD="lake env lean --run dev/DriverCliQuant.lean" /venv/bin/python harness/tools/quant_probe.py [seed] [n]"""
import json
import os
import random
import sys

sys.path.insert(0, os.path.join(os.path.dirname(__file__), ".."))
import lib  # noqa: E402

sys.path.insert(0, str(lib.REPO))
sys.path.append(os.path.join(os.path.dirname(__file__), "..", "stubs"))
sys.path.insert(0, os.path.join(os.path.dirname(__file__), "..", "props"))
import importlib  # noqa: E402

C12 = importlib.import_module("C12")
import cli_model as cm  # noqa: E402

seed = int(sys.argv[1]) if len(sys.argv) > 1 else 0
n = int(sys.argv[2]) if len(sys.argv) > 2 else 20
P = C12.P()
rng = random.Random(seed)
cases = [cm.gen_quant_case(random.Random(rng.random()), "quick") for _ in range(n)]
outs = []
for c in cases:
    try:
        outs.append(P.run_impl(c))
    except Exception as e:  # noqa: BLE001
        import traceback

        traceback.print_exc()
        outs.append({"exc": type(e).__name__, "msg": str(e)})
reqs = [P.model_request(c, o) if "exc" not in o else None for c, o in zip(cases, outs)]
idx = [i for i, r in enumerate(reqs) if r is not None]
resps = lib.Model().ask([reqs[i] for i in idx])
bad = 0
hist = {}
for i, resp in zip(idx, resps):
    c, o = cases[i], outs[i]
    if "proto_err" in resp:
        print(i, "PROTO", resp)
        bad += 1
        continue
    mv = P.model_view(c, resp, o)
    iv = P.impl_view(c, o)
    orc = P.oracle(c, o)
    for f in P.features(c, o):
        hist[f] = hist.get(f, 0) + 1
    for t in resp.get("tables") or []:
        if t and t.get("quant"):
            qv = t["quant"]
            hist["q:cutoff=%s" % ("1" if qv["cutoff"] == ["1", "1"] else "crossing")] = hist.get("q:cutoff=%s" % ("1" if qv["cutoff"] == ["1", "1"] else "crossing"), 0) + 1
            if cm.quant_near_tie(qv, c):
                hist["q:near_tie"] = hist.get("q:near_tie", 0) + 1
            n_att = sum(len(a) for a in qv["attached"]); n_ev = len(qv["evidence"]); n_used = sum(len(g["evidenceIds"]) for g in qv["groups"]); n_ret = sum(len(g["quants"]) for g in qv["groups"])
            for name, cond in (("row_left_out", n_att < n_ev), ("unidentified_dropped", n_ret < n_att), ("retained_not_used", n_used < n_ret), ("all_zero_ibaq", bool(qv["groups"]) and all(all(n == 0 for n in g["nPeps"]) for g in qv["groups"])),
                               ("partly_unknown_row", any(len({tuple(g) for g in qv["reported"] if p in g} ) == 0 for lead in qv["leading"] if lead and any(any(p in g for g in qv["reported"]) for p in lead) for p in lead if not (p.startswith("REV__") and not all(x.startswith("REV__") for x in lead))))):
                if cond:
                    hist["q:" + name] = hist.get("q:" + name, 0) + 1
    if mv != iv or orc:
        bad += 1
        print("case", i, cm.describe(c), "err impl", o.get("err"), "err model", resp.get("err"))
        if orc:
            print("   ORACLE:", orc[:1500])
        if mv != iv:
            d = C12.first_diff(mv, iv, "view")
            print("   DIFF (model vs impl):", (d or "?")[:1500])
        if os.environ.get("DUMP"):
            json.dump({"case": c}, open(os.environ["DUMP"] + ".%d.json" % i, "w"))
print("cases", n, "modelled", len(idx), "bad", bad)
for k in sorted(hist):
    if not k.startswith("cli_model:method=") and "threshold" not in k:
        print("  ", k, hist[k])
