"""development: show one generated quantification command line (written table vs model table)"""
import os, random, sys, json
sys.path.insert(0, os.path.join(os.path.dirname(__file__), ".."))
import lib
sys.path.insert(0, str(lib.REPO)); sys.path.append(os.path.join(os.path.dirname(__file__), "..", "stubs")); sys.path.insert(0, os.path.join(os.path.dirname(__file__), "..", "props"))
import importlib
C12 = importlib.import_module("C12"); import cli_model as cm
seed = int(sys.argv[1]); k = int(sys.argv[2])
rng = random.Random(seed)
cases = [cm.gen_quant_case(random.Random(rng.random()), "quick") for _ in range(k + 1)]
c = cases[k]; P = C12.P(); o = P.run_impl(c)
resp = lib.Model().ask([P.model_request(c, o)])[0]
mv = P.model_view(c, resp, o); iv = P.impl_view(c, o)
print(cm.describe(c)); print("argv", o["_rec"]["argv"])
for m_i, (a, b) in enumerate(zip(mv["methods"], iv["methods"])):
    if not a or not a.get("table"): continue
    print("method", m_i, "file", b["table"]["file"], "same", a == b)
    h = b["table"]["header"]
    for ra, rb in zip(a["table"]["rows"], b["table"]["rows"]):
        for hh, x, y in zip(h, ra, rb):
            if hh in cm.BASE_HEADERS[1:]: continue
            print("   %-45s model %-25r impl %r" % (hh, x, y))
        print("   ---")
    q = resp["tables"][m_i]["quant"]
    print("cutoff", q["cutoff"], "peps", q["peps"], "kept", q["kept"], "reported", q["reported"], "ibaq", q["ibaq"])
