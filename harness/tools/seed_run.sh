#!/bin/bash
# seed_run.sh <seeded id> [quick|thorough] [--in-repo]
# Runs the property's check against the seeded change.  Default: in a scratch worktree (VERIF_REPO);
# with --in-repo: git -C /repo apply, run, git -C /repo checkout -- .  (only when nothing else uses /repo).
ID=$1; TIER=${2:-quick}; MODE=${3:-}
PROP=${4:-${ID%%-*}}     # 4th argument: run ANOTHER property's check against this change
cd /verif
if [ "$MODE" = "--in-repo" ]; then
  git -C /repo apply /verif/seeded/$ID/patch.diff || exit 2
  OUT=$(timeout 3600 ./check $PROP --tier $TIER 2>&1); RC=$?
  git -C /repo checkout -- .
else
  WT=/tmp/sr_$ID
  exec 9>/tmp/seed_run.gitlock
  flock 9
  git -C /repo worktree remove --force $WT 2>/dev/null
  git -C /repo worktree add -q --detach $WT HEAD || exit 2
  flock -u 9
  git -C $WT apply /verif/seeded/$ID/patch.diff || { git -C /repo worktree remove --force $WT; exit 2; }
  OUT=$(VERIF_REPO=$WT timeout 3600 ./check $PROP --tier $TIER 2>&1); RC=$?
  flock 9; git -C /repo worktree remove --force $WT; flock -u 9
fi
echo "$OUT" | cut -c1-220 | tail -4
KIND=""
if [ $RC = 1 ]; then
  if echo "$OUT" | grep "^VIOLATION" | grep -qv "no-failing-input-found"; then KIND="CAUGHT(failing-input)"; else KIND="CAUGHT(no-failing-input-found)"; fi
  RP=$(echo "$OUT" | grep -m1 "^VIOLATION" | sed 's/.*replay=\([^ ]*\).*/\1/')
  if [ -f "/verif/$RP" ] && grep -q "lake build" "/verif/$RP" 2>/dev/null; then KIND="CAUGHT(broken-obligation:see-replay)"; fi
else KIND="MISSED"; fi
echo "seed=$ID check=$PROP tier=$TIER rc=$RC $KIND"
