#!/bin/bash
# seed_run.sh <seeded id> [quick|thorough] [--in-repo]
# Runs the property's check against the seeded change.  Default: in a scratch worktree (VERIF_REPO);
# with --in-repo: git -C /repo apply, run, git -C /repo checkout -- .  (only when nothing else uses /repo).
ID=$1; TIER=${2:-quick}; MODE=${3:-}
PROP=${ID%%-*}
cd /verif
if [ "$MODE" = "--in-repo" ]; then
  git -C /repo apply seeded/$ID/patch.diff || exit 2
  OUT=$(timeout 3600 ./check $PROP --tier $TIER 2>&1); RC=$?
  git -C /repo checkout -- .
else
  WT=/tmp/sr_$ID
  git -C /repo worktree remove --force $WT 2>/dev/null
  git -C /repo worktree add -q --detach $WT HEAD || exit 2
  git -C $WT apply /verif/seeded/$ID/patch.diff || { git -C /repo worktree remove --force $WT; exit 2; }
  OUT=$(VERIF_REPO=$WT timeout 3600 ./check $PROP --tier $TIER 2>&1); RC=$?
  git -C /repo worktree remove --force $WT
fi
echo "$OUT" | cut -c1-220 | tail -4
echo "seed=$ID tier=$TIER rc=$RC $( [ $RC = 1 ] && echo CAUGHT || echo MISSED )"
