#!/bin/bash
# sweep.sh <tier> <seed>...   : setup, then every claimed check for each seed; prints one line per run
TIER=$1; shift
cd "$(dirname "$0")/../.."
/venv/bin/python harness/tables.py /repo >/dev/null && (cd lean && lake build 2>&1 | tail -1)
for s in "$@"; do
  for p in $(/venv/bin/python -c "import json; print(' '.join(c['property_id'] for c in json.load(open('MANIFEST.json'))['checks']))"); do
    t0=$(date +%s)
    out=$(VERIF_SEED=$s timeout 7200 ./check $p --tier $TIER 2>&1 | grep -v '^KNOWN-FINDING' | tail -2 | tr '\n' ' ' | cut -c1-300)
    echo "seed=$s $p rc=$? $(( $(date +%s) - t0 ))s :: $out"
  done
done
