import PgFdr.DriverMain
import PgFdr.Driver.C01
import PgFdr.Driver.C02
import PgFdr.Driver.C03
import PgFdr.Driver.C04
import PgFdr.Driver.C05
import PgFdr.Driver.C06
import PgFdr.Driver.C07
import PgFdr.Driver.C08
import PgFdr.Driver.C09
import PgFdr.Driver.C10
import PgFdr.Driver.C11
import PgFdr.Driver.C12
import PgFdr.Driver.C13
import PgFdr.Driver.C14
import PgFdr.Driver.C15
import PgFdr.Driver.C16
import PgFdr.Driver.C17
import PgFdr.Driver.C18
import PgFdr.Driver.C19
import PgFdr.Driver.C20
import PgFdr.Driver.Cli
/-! Native model driver `pgfdr_model`: all protocol handlers (see `PgFdr/DriverMain.lean`). -/
open Lean PgFdr PgFdr.Driver

def allHandlers : List (String × (Json → R Json)) :=
  handlersC01 ++ handlersC02 ++ handlersC03 ++ handlersC04 ++ handlersC05 ++
  handlersC06 ++ handlersC07 ++ handlersC08 ++ handlersC09 ++ handlersC10 ++
  handlersC11 ++ handlersC12 ++ handlersC13 ++ handlersC14 ++ handlersC15 ++
  handlersC16 ++ handlersC17 ++ handlersC18 ++ handlersC19 ++ handlersC20 ++ handlersCli

def main : IO Unit := runHandlers allHandlers
