import PgFdr.Json
import PgFdr.Driver.C01
import PgFdr.Driver.C02
import PgFdr.Driver.C03
import PgFdr.Driver.C04
import PgFdr.Driver.C05
import PgFdr.Driver.C06
import PgFdr.Driver.C07
import PgFdr.Driver.C08
import PgFdr.Driver.C09
import PgFdr.Driver.C10
import PgFdr.Driver.C11
import PgFdr.Driver.C12
import PgFdr.Driver.C13
import PgFdr.Driver.C14
import PgFdr.Driver.C15
import PgFdr.Driver.C16
import PgFdr.Driver.C17
import PgFdr.Driver.C18
import PgFdr.Driver.C19
import PgFdr.Driver.C20
/-!
Model driver: one JSON object per input line (`{"op": …, …}`), one JSON line back.
Errors of the *protocol* come back as `{"proto_err": …}`; errors of the *model* (the
model rejecting what the code rejects) are ordinary results `{"err": "<enum>"}`.
-/
open Lean PgFdr PgFdr.Driver

def allHandlers : List (String × (Json → R Json)) :=
  handlersC01 ++ handlersC02 ++ handlersC03 ++ handlersC04 ++ handlersC05 ++
  handlersC06 ++ handlersC07 ++ handlersC08 ++ handlersC09 ++ handlersC10 ++
  handlersC11 ++ handlersC12 ++ handlersC13 ++ handlersC14 ++ handlersC15 ++
  handlersC16 ++ handlersC17 ++ handlersC18 ++ handlersC19 ++ handlersC20

def handleLine (line : String) : String :=
  match Json.parse line with
  | .error e => (Json.mkObj [("proto_err", .str s!"parse: {e}")]).compress
  | .ok j =>
    match j.getObjVal? "op" with
    | .ok (.str op) =>
      if op == "ops" then (ofStrs (allHandlers.map (·.1))).compress else
      match allHandlers.lookup op with
      | some h => match h j with
        | .ok r => r.compress
        | .error e => (Json.mkObj [("proto_err", .str e)]).compress
      | none => (Json.mkObj [("proto_err", .str s!"unknown op {op}")]).compress
    | _ => (Json.mkObj [("proto_err", .str "no op")]).compress

partial def loop (hin hout : IO.FS.Stream) : IO Unit := do
  let line ← hin.getLine
  if line.isEmpty then return ()
  let t := line.trimAscii.toString
  if t.isEmpty then loop hin hout else
  hout.putStrLn (handleLine t)
  hout.flush
  loop hin hout

def main : IO Unit := do
  loop (← IO.getStdin) (← IO.getStdout)
