-- Root of the library: importing the property files pulls in models, proofs and generated tables.
import PgFdr.Json
import PgFdr.Generated.Enzymes
import PgFdr.Generated.Methods
import PgFdr.Generated.Markers
import PgFdr.Generated.Headers
import PgFdr.Props.C01
import PgFdr.Props.C03
import PgFdr.Props.C05
import PgFdr.Props.C06
import PgFdr.Props.C07
import PgFdr.Props.C17
import PgFdr.Props.C20
