-- Root of the library: importing the property files pulls in models, proofs and generated tables.
import PgFdr.Json
import PgFdr.Generated.Enzymes
import PgFdr.Generated.Methods
import PgFdr.Generated.Markers
import PgFdr.Generated.Headers
import PgFdr.Props.C17
