import PgFdr.Proofs.C13

/-!
# C13 — output tables are rectangular, uniquely headed, re-readable; the FDR filter tool is exact

Property text (properties.jsonl): "Every protein-group output file has unique column headers and exactly
as many fields in every row as in the header, for every combination of experiments, labelling (label-free,
SILAC, TMT), quantification options and output format; reading the file back yields the same identifiers,
q-values and scores. The FDR filter tool outputs the header plus exactly those rows whose q-value is at
most the cutoff, unchanged and in their original order."

Only property theorems live here.  The executable model is `PgFdr/Model/C13.lean` (the functions the
driver ops `table`, `table_gen`, `table_write`, `csv`, `parse_mq`, `fdrfilter` run), helper lemmas are in
`PgFdr/Proofs/C13.lean`; the model is tied to results.py, columns/*.py, writers/*.py, parsers/tsv.py,
parsers/maxquant.py and pipeline/filter_fdr_maxquant.py by the correspondence of `harness/props/C13.py`.
-/
namespace PgFdr.C13

/-- "one generator adding a header without a value (or the reverse) shifts every later column": every
    column generator that runs adds exactly as many cells to a row as it adds headers (whenever
    `append_header` accepted its headers, i.e. they are pairwise distinct — which is what makes the size
    of the experiment→index dict equal the number of experiments). -/
theorem generator_arity (g : Gen) (ctx : Ctx) (r : Row) (new : List String) (hvalid : g.valid ctx = true)
    (hh : g.hdrs ctx = .ok new) (hnodup : new.Nodup) : (g.vals ctx r).length = new.length :=
  arity g ctx r new hvalid hh hnodup

/-- "Every protein-group output file has unique column headers and exactly as many fields in every row as
    in the header … for every result set and every sequence of column generators the writers apply":
    after ANY history of generators over ANY context (experiment names, SILAC and TMT channel numbers),
    if no `append_header` raised, the headers are pairwise distinct and every row has one cell per header
    (nine base fields plus the extra columns). -/
theorem table_invariant (ctx : Ctx) (history : List Gen) (rows : List Row) (t : Table)
    (hrows : ∀ r ∈ rows, r.extra = []) (h : applyAll ctx (Table.init rows) history = .ok t) :
    t.headers.Nodup ∧ ∀ r ∈ t.rows, 9 + r.extra.length = t.headers.length :=
  (applyAll_inv ctx history _ t h (init_inv rows hrows)).2

/-- the same invariant is kept by every further generator applied to a table that already has it (for
    instance a table read back from a file) -/
theorem table_invariant_step (ctx : Ctx) (history : List Gen) (t t' : Table) (hi : t.Inv)
    (h : applyAll ctx t history = .ok t') : t'.Inv :=
  applyAll_inv ctx history t t' h hi

/-- histories that also call `ProteinGroupResults.remove_column` keep the invariant, as long as no BASE header
    is removed (`remove_column` of one of the nine base headers indexes `extraColumns` with a negative
    number, deletes an unrelated extra column and leaves the base cells under shifted headers: see the example
    at the end of this file; no writer does this) -/
theorem table_invariant_with_removals (ctx : Ctx) (ops : List Op) (rows : List Row) (t : Table)
    (hrows : ∀ r ∈ rows, r.extra = []) (hrem : ∀ h, Op.remove h ∈ ops → h ∉ baseHeaders)
    (h : applyOps ctx (Table.init rows) ops = .ok t) :
    t.headers.Nodup ∧ ∀ r ∈ t.rows, 9 + r.extra.length = t.headers.length :=
  (applyOps_inv ctx ops _ t hrem h (init_inv rows hrows)).2

/-- "… for every combination of experiments, labelling, quantification options and output format": the
    tables the three writers build (`append_quant_columns` of the MaxQuant writer with and without LFQ, the
    DIA-NN writer, the minimal writer) have the invariant -/
theorem writer_table_invariant (w : Writer) (ctx : Ctx) (rows : List Row) (t : Table)
    (hrows : ∀ r ∈ rows, r.extra = []) (h : w.appendQuantColumns ctx (Table.init rows) = .ok t) :
    t.headers.Nodup ∧ ∀ r ∈ t.rows, 9 + r.extra.length = t.headers.length :=
  (appendQuantColumns_inv w ctx rows t hrows h).2

/-- `csv.reader` inverts `csv.writer` in the dialect the repository selects (tab, `QUOTE_MINIMAL`,
    doublequote, "\r\n"), for ALL field strings — tabs, quotes, carriage returns and line feeds inside
    fields, empty fields, empty records included; no restriction is needed. -/
theorem csv_roundtrip (rows : List (List String)) : parseText (formatRows rows) = rows :=
  parseText_formatRows rows

/-- one record: `parseRow (formatRow fs) = fs` -/
theorem csv_roundtrip_row (fs : List String) : parseRow (formatRow fs) = fs := by
  have := parseText_formatRows [fs]
  simp only [formatRows, List.flatMap_cons, List.flatMap_nil, List.append_nil] at this
  simp [parseRow, this]

/-- a plain split reads the file too wherever no quoting was needed: a record none of whose fields contains a
    tab, a quote, CR or LF is written as its fields joined by tabs, followed by "\r\n" -/
theorem write_plain_split (fs : List String) (hne : fs ≠ [""]) (hplain : ∀ f ∈ fs, needsQuote f.toList = false) :
    formatRow fs = List.intercalate [delim] (fs.map String.toList) ++ ['\r', '\n'] := by
  simp [formatRow, hne, fmtFields_plain fs hplain]

/-- "exactly as many fields in every row as in the header" on the written bytes, without a header dict
    (`ProteinGroupResults.write(file)`): the file reads back as the header list followed by the rows, each
    with one field per header -/
theorem write_rectangular (t : Table) (text : List Char)
    (hinv : t.headers.Nodup ∧ ∀ r ∈ t.rows, 9 + r.extra.length = t.headers.length)
    (h : writeTable t none = .ok text) :
    parseText text = t.headers :: t.rows.map Row.toList
      ∧ t.headers.Nodup ∧ ∀ r ∈ t.rows.map Row.toList, r.length = t.headers.length := by
  obtain ⟨recs, hr, rfl⟩ := writeTable_eq t none text h
  rw [writeRecords_none] at hr
  cases hr
  refine ⟨parseText_formatRows _, hinv.1, ?_⟩
  intro r hr
  obtain ⟨r0, hr0, rfl⟩ := List.mem_map.mp hr
  have := hinv.2 r0 hr0
  simp [Row.toList]; omega

/-- the same with a header dict (`ProteinGroupsWriter.write` of every writer, in particular the DIA-NN
    writer which selects and renames columns): whatever the table, a file that is written has pairwise
    distinct headers (the keys of a dict) and every row has one field per header -/
theorem write_rectangular_dict (w : Writer) (ctx : Ctx) (t : Table) (text : List Char)
    (h : w.write ctx t = .ok text) :
    ∃ header body, parseText text = header :: body ∧ header.Nodup ∧ body.length = t.rows.length
      ∧ ∀ r ∈ body, r.length = header.length := by
  have hd : ∃ ps, w.headerDict ctx t = dictOfPairs ps := by
    cases w with
    | diann => exact ⟨_, rfl⟩
    | minimal => exact ⟨_, rfl⟩
    | maxquant b => exact ⟨_, rfl⟩
  obtain ⟨ps, hps⟩ := hd
  unfold Writer.write at h
  rw [hps] at h
  obtain ⟨recs, hr, rfl⟩ := writeTable_eq t _ text h
  unfold writeRecords at hr
  cases hb : outRows t (some (dictOfPairs ps)) t.rows with
  | error e => rw [hb] at hr; cases hr
  | ok body =>
    rw [hb] at hr
    simp only [bind, Except.bind, pure, Except.pure] at hr
    cases hr
    obtain ⟨h1, h2⟩ := outRows_some_spec t _ _ _ hb
    refine ⟨_, body, parseText_formatRows _, dictOfPairs_keys_nodup ps, h1, ?_⟩
    intro r hr
    simp [h2 r hr]

/-- "reading the file back yields the same identifiers, q-values and scores": a table with the invariant
    written by the MaxQuant or the minimal writer is accepted by `parse_mq_protein_groups_file`, and the
    rows it returns carry the identifiers and the other base fields of the written rows unchanged and the
    numbers Python's `int` / `float` make of the written number cells (`float(repr(x)) = x` is CPython's). -/
theorem reread_same_ids_q_score (w : Writer) (hw : w ≠ .diann) (ctx : Ctx) (t : Table) (hi : t.Inv)
    (pint : String → Option Int) (pfloat : String → Option FVal)
    (hnum : ∀ r ∈ t.rows, (pint r.numberOfProteins).isSome ∧ (pfloat r.qValue).isSome ∧ (pfloat r.score).isSome) :
    ∃ text ms, w.write ctx t = .ok text ∧ parseMq pint pfloat [] text = .ok (baseHeaders, ms)
      ∧ ms.length = t.rows.length
      ∧ ∀ (i : Nat) (m : MqRow) (r : Row), ms[i]? = some m → t.rows[i]? = some r →
          m.proteinIds = r.proteinIds ∧ some m.qValue = pfloat r.qValue ∧ some m.score = pfloat r.score
          ∧ m.majorityProteinIds = r.majorityProteinIds ∧ m.peptideCountsUnique = r.peptideCountsUnique
          ∧ some m.numberOfProteins = pint r.numberOfProteins ∧ m.reverse = r.reverse
          ∧ m.potentialContaminant = r.potentialContaminant := by
  obtain ⟨⟨ex, hex⟩, hnd, hrows⟩ := hi
  have hrr : ∀ r ∈ t.rows, (r.reread pint pfloat).isSome := by
    intro r hr
    obtain ⟨h1, h2, h3⟩ := hnum r hr
    unfold Row.reread
    cases hn : pint r.numberOfProteins <;> cases hq : pfloat r.qValue <;> cases hs : pfloat r.score <;>
      simp_all
  obtain ⟨ms, hms, hmap⟩ := parseMqRows_toList pint pfloat ex t.rows hrr
  refine ⟨formatRows (t.headers :: t.rows.map Row.toList), ms, ?_, ?_, ?_, ?_⟩
  · unfold Writer.write writeTable
    rw [headerDict_nondiann w hw, writeRecords_identity t ⟨⟨ex, hex⟩, hnd, hrows⟩]
    rfl
  · unfold parseMq
    rw [parseText_formatRows, hex]
    simp only [hms, appendHeaders, bind, Except.bind, pure, Except.pure]
  · have := congrArg List.length hmap
    simpa using this
  · intro i m r hm hr
    have h1 : (ms.map some)[i]? = (t.rows.map (Row.reread pint pfloat))[i]? := by rw [hmap]
    simp only [List.getElem?_map, hm, hr, Option.map_some] at h1
    have h1 := (Option.some.inj h1).symm
    unfold Row.reread at h1
    cases hn : pint r.numberOfProteins <;> cases hq : pfloat r.qValue <;> cases hs : pfloat r.score <;>
      simp only [hn, hq, hs] at h1 <;> try cases h1
    simp [Row.toMq]

/-- "The FDR filter tool outputs the header plus exactly those rows whose q-value is at most the cutoff,
    unchanged and in their original order": whenever the tool writes an output for an input file, the output
    reads back as the input's header followed by `rows.filter (q ≤ cutoff)` — `List.filter` keeps the order
    and the rows (all their fields) as they are; `float` of the q-value cell is compared with IEEE `<=`
    (`keepRow`), so a q-value equal to the cutoff is kept and NaN is dropped. -/
theorem fdr_filter_exact (pfloat : String → Option FVal) (cutoff : FVal) (text out : List Char)
    (h : filterText pfloat cutoff text = .ok out) :
    ∃ header rows, parseText text = header :: rows
      ∧ parseText out = header :: rows.filter (keepRow pfloat cutoff (header.idxOf "Q-value")) := by
  unfold filterText at h
  cases hp : parseText text with
  | nil => rw [hp] at h; cases h
  | cons header rows =>
    rw [hp] at h
    simp only at h
    split at h
    · cases hf : filterRows pfloat cutoff (header.idxOf "Q-value") rows with
      | error e => rw [hf] at h; cases h
      | ok kept =>
        rw [hf] at h
        simp only [bind, Except.bind, pure, Except.pure] at h
        cases h
        refine ⟨header, rows, rfl, ?_⟩
        rw [parseText_formatRows, filterRows_spec _ _ _ _ _ hf]
    · cases h

/-- a row is in the filtered file iff it is a row of the input whose q-value cell parses to a value
    `≤ cutoff`; the filtered rows are a sublist of the input rows (original order, nothing duplicated) -/
theorem fdr_filter_rows (pfloat : String → Option FVal) (cutoff : FVal) (qcol : Nat) (rows : List (List String)) :
    (∀ r, r ∈ rows.filter (keepRow pfloat cutoff qcol) ↔
        r ∈ rows ∧ ∃ f v, r[qcol]? = some f ∧ pfloat f = some v ∧ v.le cutoff = true)
      ∧ (rows.filter (keepRow pfloat cutoff qcol)).Sublist rows := by
  refine ⟨?_, List.filter_sublist⟩
  intro r
  rw [List.mem_filter]
  constructor
  · rintro ⟨hr, hk⟩
    refine ⟨hr, ?_⟩
    unfold keepRow at hk
    cases hq : r[qcol]? with
    | none => simp [hq] at hk
    | some f =>
      cases hf : pfloat f with
      | none => simp [hq, hf] at hk
      | some v => exact ⟨f, v, rfl, hf, by simpa [hq, hf] using hk⟩
  · rintro ⟨hr, f, v, hq, hf, hv⟩
    exact ⟨hr, by simp [keepRow, hq, hf, hv]⟩

/-- the tool does write an output whenever the input has a header with a `Q-value` column and every row
    reaches that column with a cell `float` accepts -/
theorem fdr_filter_total (pfloat : String → Option FVal) (cutoff : FVal) (text : List Char)
    (header : List String) (rows : List (List String)) (hp : parseText text = header :: rows)
    (hq : "Q-value" ∈ header)
    (hrows : ∀ r ∈ rows, ∃ f, r[header.idxOf "Q-value"]? = some f ∧ (pfloat f).isSome) :
    ∃ out, filterText pfloat cutoff text = .ok out := by
  obtain ⟨kept, hk⟩ := filterRows_total pfloat cutoff _ rows hrows
  exact ⟨formatRows (header :: kept), by simp [filterText, hp, hq, hk, bind, Except.bind, pure, Except.pure]⟩

/-- several input files: every file re-opens the output for writing, so what the tool leaves behind is the
    filtered LAST file (the model follows the code here; see notes/C13.md) -/
theorem fdr_filter_files_last (pfloat : String → Option FVal) (cutoff : FVal) :
    ∀ (files : List (String × List Char)) (acc res : Option (List Char)),
      filterFiles pfloat cutoff files acc = .ok res →
      (files = [] ∧ res = acc) ∨
      ∃ init name text out, files = init ++ [(name, text)] ∧ filterText pfloat cutoff text = .ok out ∧ res = some out := by
  intro files
  induction files with
  | nil => intro acc res h; simp [filterFiles] at h; exact Or.inl ⟨rfl, h.symm⟩
  | cons f fs ih =>
    intro acc res h
    obtain ⟨name, text⟩ := f
    simp only [filterFiles] at h
    split at h
    · cases ho : filterText pfloat cutoff text with
      | error e => rw [ho] at h; cases h
      | ok o =>
        rw [ho] at h
        simp only [bind, Except.bind] at h
        rcases ih (some o) res h with ⟨hnil, hres⟩ | ⟨init, n2, t2, out, hfs, hft, hres⟩
        · subst hnil
          exact Or.inr ⟨[], name, text, o, rfl, ho, hres⟩
        · exact Or.inr ⟨(name, text) :: init, n2, t2, out, by simp [hfs], hft, hres⟩
    · cases h

/-! ## Non-vacuity

A SILAC(2) result with two experiments (one name with a blank, an identifier with a quote) goes through
the MaxQuant writer: 42 columns as on the data sheet (9 + 3 + 3 + 2 + 15 + 4 + 5 + 0 + 1), 33 extra
cells in the row; the hypotheses of `table_invariant`, `write_rectangular`, `reread_same_ids_q_score`
and `fdr_filter_exact` are met by concrete inputs, and a colliding pair of experiment names ("L e1", "e1"
under SILAC: both give "Intensity L e1") is rejected as the code rejects it. -/

private def exRow : Row :=
  { proteinIds := "P1;P\"2", majorityProteinIds := "P1", peptideCountsUnique := "1;1", bestPeptide := "PEPA",
    numberOfProteins := "2", qValue := "0.01", score := "2.5", reverse := "", potentialContaminant := "", nprec := 2 }

private def exCtx : Ctx := { experiments := ["e1", "e 2"], silac := 2 }

private def shape (r : Except Err Table) : Option (Nat × List Nat) :=
  r.toOption.map (fun t => (t.headers.length, t.rows.map (fun r => r.extra.length)))

example : shape ((Writer.maxquant false).appendQuantColumns exCtx (Table.init [exRow])) = some (42, [33]) := by
  decide +kernel

example : shape (Writer.diann.appendQuantColumns { experiments := ["e1", "e2", "e3"] } (Table.init [exRow]))
    = some (9 + 4 + 4 + 3, [11]) := by decide +kernel

example : shape ((Writer.maxquant true).appendQuantColumns { experiments := ["e1"], tmt := 2 } (Table.init [exRow]))
    = some (9 + 3 + 2 + 1 + 5 + 4 + 6 + 1, [22]) := by decide +kernel

example : (applyAll { experiments := ["L e1", "e1"], silac := 2 } (Table.init [exRow]) [.sumIbaq]).toOption.isNone := by
  decide +kernel

example : ((Writer.maxquant false).write exCtx (Table.init [exRow])).toOption.isSome := by decide +kernel

example : (Table.init [exRow]).Inv := init_inv _ (by simp [exRow])

/-- the hypotheses of `reread_same_ids_q_score` are jointly satisfiable (minimal writer, one row) -/
example : ∃ text ms, Writer.minimal.write exCtx (Table.init [exRow]) = .ok text
    ∧ parseMq (fun _ => some 2) (fun _ => some (.fin (1 / 100))) [] text = .ok (baseHeaders, ms) ∧ ms.length = 1 := by
  obtain ⟨text, ms, h1, h2, h3, _⟩ := reread_same_ids_q_score .minimal (by decide) exCtx (Table.init [exRow])
    (init_inv _ (by simp [exRow])) (fun _ => some 2) (fun _ => some (.fin (1 / 100))) (by simp)
  exact ⟨text, ms, h1, h2, by simpa [Table.init] using h3⟩

example : parseText (formatRows [["a\tb", "", "c\"d\r\n"], [""], []]) = [["a\tb", "", "c\"d\r\n"], [""], []] := by
  decide +kernel

/-- removing an extra column keeps the table aligned … -/
example : shape (applyOps exCtx (Table.init [exRow]) [.gen .annotations, .gen .evidenceIds, .remove "Gene names"])
    = some (9 + 3, [3]) := by decide +kernel

/-- … removing a BASE column does not (the model follows the code: `del extraColumns[6 - 9]` deletes the extra
    column "Gene names"): the counts still match (12 headers, 9 + 3 cells), but the header list no longer starts
    with the nine base headers while `to_list` still emits the nine base fields, so from "Score" on every cell
    sits under the wrong header -/
example : (applyOps exCtx (Table.init [exRow]) [.gen .annotations, .gen .evidenceIds, .remove "Score"]).toOption.map
      (fun t => (t.headers.length, t.rows.map (fun r => r.extra.length), t.headers.drop 5))
    = some (12, [3], ["Q-value", "Reverse", "Potential contaminant", "Protein names", "Gene names", "Fasta headers",
        "Evidence IDs"]) := by decide +kernel

private def exFloat (s : String) : Option FVal :=
  if s = "0.01" then some (.fin (1 / 100)) else if s = "0.02" then some (.fin (1 / 50))
  else if s = "nan" then some .nan else none

example : (filterText exFloat (.fin (1 / 100))
      "Protein IDs\tQ-value\r\nA\t0.01\r\n\"B\tC\"\t0.02\r\nD\tnan\r\nE\t0.01\r\n".toList).toOption.map String.ofList
    = some "Protein IDs\tQ-value\r\nA\t0.01\r\nE\t0.01\r\n" := by decide +kernel

end PgFdr.C13
