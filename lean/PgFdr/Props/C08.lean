import PgFdr.Proofs.C08
namespace PgFdr.C08
theorem placeholder_tmp : True := trivial
end PgFdr.C08
