import PgFdr.Proofs.C08
import PgFdr.Proofs.C08Semi
import PgFdr.Proofs.C08Config

/-!
# C08 — in-silico digestion yields exactly the peptides the cleavage rule defines

Property text (properties.jsonl): "For full, semi-specific and non-specific digestion the set of
peptides generated from a protein equals the set of its substrings whose length lies within the
configured bounds, whose required termini (both, at least one, none) coincide with a protein
terminus, an enzymatic cleavage site or the site behind a removable initiator methionine, and that
span at most the allowed number of enzymatic cleavage sites. A cleavage site is exactly a position
after a 'pre' residue not followed by a 'not_post' residue or before a 'post' residue, for every
supported enzyme."

The executable model (`fullDigest`, `semiDigest`, `nonSpecific`, `digestByName`, `enz`) lives in
`PgFdr/Model/C08.lean` and is what the driver op `digest` runs against `digest.get_digested_peptides`;
the declarative side (`RuleAt`, `Site`, `MetSite`, `Terminus`, `innerSites`, `Valid`) is defined there
too.  Helper lemmas: `PgFdr/Proofs/C08.lean`.  The enzyme table `PgFdr.Generated.enzymes` is
regenerated from `ENZYME_CLEAVAGE_RULES` on every run.
-/
namespace PgFdr.C08
open PgFdr.Generated

/-- "A cleavage site is exactly a position after a 'pre' residue not followed by a 'not_post' residue or
    before a 'post' residue, for every supported enzyme": at every internal cut position `x` the site test
    the code applies at residue `x - 1` (with its clamped look-ahead) is the rule — for every rule record,
    hence for every enzyme of the table. -/
theorem site_iff_rule (r : EnzymeRule) (seq : List Char) (x : Nat) (h1 : 1 ≤ x) (h2 : x < seq.length) :
    (enz r seq (x - 1) = true ↔ RuleAt r seq x) ∧
    (x ∈ (sitesZ r seq).map (· + 1) ↔ Site r seq x) ∧
    (isEnzymatic r (seq.getD (x - 1) ' ') (seq.getD x ' ') = true ↔ RuleAt r seq x) := by
  refine ⟨enz_iff_rule r seq x h1 (by omega), ?_, ?_⟩
  · rw [← siteCut_iff_site]
    simp only [List.mem_map, SiteCut]
    constructor
    · rintro ⟨z, hz, rfl⟩; exact ⟨z, hz, rfl, by omega⟩
    · rintro ⟨z, hz, rfl, _⟩; exact ⟨z, hz, rfl⟩
  · simp [isEnzymatic, RuleAt]

/-- "… for every supported enzyme": the same, by name, over the regenerated table -/
theorem site_iff_rule_table (name : String) (r : EnzymeRule) (_h : lookupEnzyme name = some r)
    (seq : List Char) (x : Nat) (h1 : 1 ≤ x) (h2 : x < seq.length) :
    enz r seq (x - 1) = true ↔ RuleAt r seq x :=
  (site_iff_rule r seq x h1 h2).1

/-- the regenerated table is well formed: enzyme names are distinct (the lookup by name is unambiguous),
    every residue is an upper-case letter, the default enzyme is in the table, and `no_enzyme` has no site -/
theorem enzymes_wellformed :
    (enzymes.map (·.name)).Nodup ∧
    (∀ r ∈ enzymes, ∀ ch ∈ r.pre ++ r.notPost ++ r.post, ch.isUpper = true) ∧
    (lookupEnzyme enzymeDefault).isSome = true ∧
    lookupEnzyme "no_enzyme" = some { name := "no_enzyme", pre := [], notPost := [], post := [] } := by
  refine ⟨by decide, by decide, by decide, by decide⟩

/-- "For full … digestion the set of peptides generated from a protein equals the set of its substrings
    whose length lies within the configured bounds, whose required termini (both …) coincide with a protein
    terminus, an enzymatic cleavage site or the site behind a removable initiator methionine, and that span
    at most the allowed number of enzymatic cleavage sites" — for every rule, every non-empty sequence,
    every window with `min_len ≥ 1`, every budget and both methionine settings. -/
theorem full_digest_set_eq (r : EnzymeRule) (seq : List Char) (minL maxL mc : Nat) (met : Bool)
    (hne : seq ≠ []) (hmin : 1 ≤ minL) :
    ∃ l, fullDigest r seq minL maxL mc met = .ok l ∧
      ∀ x, x ∈ l ↔ ∃ a b, Valid .full r minL maxL mc met seq a b ∧ x = slice seq a b := by
  cases seq with
  | nil => exact absurd rfl hne
  | cons ch t =>
    refine ⟨_, rfl, ?_⟩
    intro x
    rw [mem_fullPeptides]
    have hn1 : 1 ≤ (cfgOf (ch :: t) minL maxL mc met).n := by simp [cfgOf]
    constructor
    · rintro ⟨a, b, hE, rfl⟩
      refine ⟨a, b, ?_, rfl⟩
      rw [← zvalid_iff_valid]
      exact (zfull_digest_set_eq _ _ hn1 hmin (sitesZ_sorted r _) (sitesZ_lt r _) a b).mp hE
    · rintro ⟨a, b, hV, rfl⟩
      refine ⟨a, b, ?_, rfl⟩
      rw [← zvalid_iff_valid] at hV
      exact (zfull_digest_set_eq _ _ hn1 hmin (sitesZ_sorted r _) (sitesZ_lt r _) a b).mpr hV

/-- "For … semi-specific … digestion the set of peptides generated from a protein equals the set of its
    substrings whose length lies within the configured bounds, whose required termini (… at least one …)
    coincide with a protein terminus, an enzymatic cleavage site or the site behind a removable initiator
    methionine, and that span at most the allowed number of enzymatic cleavage sites" — soundness and
    completeness, for every rule, every non-empty sequence, every window, budget and methionine setting
    (the model has the repaired Met handling of fixes/C08-semi-met-site.diff). -/
theorem semi_digest_set_eq (r : EnzymeRule) (seq : List Char) (minL maxL mc : Nat) (met : Bool)
    (hne : seq ≠ []) :
    ∃ l, semiDigest r seq minL maxL mc met = .ok l ∧
      ∀ x, x ∈ l ↔ ∃ a b, Valid .semi r minL maxL mc met seq a b ∧ x = slice seq a b := by
  cases seq with
  | nil => exact absurd rfl hne
  | cons ch t =>
    refine ⟨_, rfl, ?_⟩
    intro x
    rw [mem_semiPeptides]
    have hn1 : 1 ≤ (semiCfg r (ch :: t) minL maxL mc met).n := by simp [semiCfg]
    have hmet := semiMet_site r (ch :: t) minL maxL mc met
    have key := zsemi_set_eq (semiCfg r (ch :: t) minL maxL mc met) (semiSite r (ch :: t)) hn1 hmet
    rw [siteList_semi] at key
    constructor
    · rintro ⟨a, b, hE, rfl⟩
      exact ⟨a, b, (zvalidSemi_iff_valid r _ hne minL maxL mc met a b).mp ((key a b).mp hE), rfl⟩
    · rintro ⟨a, b, hV, rfl⟩
      exact ⟨a, b, (key a b).mpr ((zvalidSemi_iff_valid r _ hne minL maxL mc met a b).mpr hV), rfl⟩

/-- soundness half of `semi_digest_set_eq`, kept under the planned name -/
theorem semi_digest_sound (r : EnzymeRule) (seq : List Char) (minL maxL mc : Nat) (met : Bool) (hne : seq ≠ [])
    (l : List (List Char)) (hl : semiDigest r seq minL maxL mc met = .ok l) (x : List Char) (hx : x ∈ l) :
    ∃ a b, Valid .semi r minL maxL mc met seq a b ∧ x = slice seq a b := by
  obtain ⟨l', hl', h⟩ := semi_digest_set_eq r seq minL maxL mc met hne
  rw [hl] at hl'
  cases hl'
  exact (h x).mp hx

/-- completeness half of `semi_digest_set_eq`, kept under the planned name -/
theorem semi_digest_complete (r : EnzymeRule) (seq : List Char) (minL maxL mc : Nat) (met : Bool) (hne : seq ≠ [])
    (a b : Nat) (hv : Valid .semi r minL maxL mc met seq a b) :
    ∃ l, semiDigest r seq minL maxL mc met = .ok l ∧ slice seq a b ∈ l := by
  obtain ⟨l, hl, h⟩ := semi_digest_set_eq r seq minL maxL mc met hne
  exact ⟨l, hl, (h _).mpr ⟨a, b, hv, rfl⟩⟩

/-- "For … non-specific digestion the set of peptides generated from a protein equals the set of its
    substrings whose length lies within the configured bounds" (no terminus condition, no site budget) -/
theorem nonspecific_set_eq (r : EnzymeRule) (seq : List Char) (minL maxL mc : Nat) (met : Bool)
    (hmin : 1 ≤ minL) (x : List Char) :
    x ∈ nonSpecific seq minL maxL ↔ ∃ a b, Valid .none r minL maxL mc met seq a b ∧ x = slice seq a b := by
  rw [mem_nonSpecific]
  constructor
  · rintro ⟨i, j, h1, h2, h3, rfl⟩
    exact ⟨i, j, ⟨by omega, h3, by omega, by omega, trivial, fun h => absurd rfl h⟩, rfl⟩
  · rintro ⟨a, b, ⟨h1, h2, h3, h4, _, _⟩, rfl⟩
    exact ⟨a, b, by omega, by omega, h2, rfl⟩

/-- "For full, semi-specific and non-specific digestion …": `get_digested_peptides`, looked up by enzyme name in
    the regenerated table, yields for every supported enzyme, every non-empty sequence, every window with
    `min_len ≥ 1`, budget, mode string and methionine setting exactly the substrings the declarative rule allows -/
theorem digest_by_name_set_eq (name : String) (r : EnzymeRule) (hr : lookupEnzyme name = some r)
    (seq : List Char) (minL maxL mc : Nat) (digestion : String) (met : Bool) (hne : seq ≠ []) (hmin : 1 ≤ minL) :
    ∃ l, digestByName name seq minL maxL digestion mc met = .ok l ∧
      ∀ x, x ∈ l ↔ ∃ a b, Valid (modeOf digestion) r minL maxL mc met seq a b ∧ x = slice seq a b := by
  unfold digestByName
  rw [hr]
  simp only
  cases hm : modeOf digestion with
  | full => exact full_digest_set_eq r seq minL maxL mc met hne hmin
  | semi => exact semi_digest_set_eq r seq minL maxL mc met hne
  | none => exact ⟨_, rfl, fun x => nonspecific_set_eq r seq minL maxL mc met hmin x⟩

/-! ## The digestion as configured

`PgFdr/Model/C08Config.lean` models the path from a user's configuration to the digestion call:
`DigestionParams(...)` (`mkParams`), the option lists of the command line with their defaults (`argLists`),
`get_digestion_params_list` (`paramsList`), the call a parameter object is turned into (`configuredDigest`), the
per-protein content of `get_peptide_to_protein_map_from_params` (`emissions`, `keysFor`), the iBAQ settings
(`ibaqParams`) and the output blocks of `digest.main` run on ONE list of parameter objects (`runBlocks`, `cliMain`).
"The configured bounds" and "the allowed number of enzymatic cleavage sites" of the property text are the values the
user GAVE; a default stands in only for a value that is absent. -/

/-- "within the configured bounds … at most the allowed number of enzymatic cleavage sites": every argument of
    `DigestionParams(...)` that is given is the attribute the digestion reads — whatever its value, `0` included —
    and the default constant is used exactly for an argument that is omitted; `no_enzyme` forces the non-specific
    mode, `"none"` means no special residues, methionine cleavage is on, hash keys go with the non-specific mode. -/
theorem params_ctor_fields (a : CtorArgs) :
    (mkParams a).enzyme = (match a.enzyme with | some e => e | none => enzymeDefault) ∧
    (mkParams a).minL = (match a.minLength with | some v => v | none => minPeplenDefault) ∧
    (mkParams a).maxL = (match a.maxLength with | some v => v | none => maxPeplenDefault) ∧
    (mkParams a).mc = (match a.cleavages with | some v => v | none => cleavagesDefault) ∧
    (mkParams a).digestion = (if (mkParams a).enzyme = "no_enzyme" then "none"
                              else match a.digestion with | some d => d | none => digestionDefault) ∧
    (mkParams a).special = (match a.specialAas with
                            | some s => if s = "none" then [] else s.toList
                            | none => if specialAasDefault = "none" then [] else specialAasDefault.toList) ∧
    (mkParams a).met = true ∧
    (mkParams a).dbTarget = (match a.containsDecoys with | some b => b | none => false) ∧
    (mkParams a).useHash = decide ((mkParams a).digestion = "none") := by
  obtain ⟨e, d, mn, mx, c, s, cd⟩ := a
  refine ⟨?_, ?_, ?_, ?_, ?_, ?_, rfl, ?_, ?_⟩
  · cases e <;> rfl
  · cases mn <;> rfl
  · cases mx <;> rfl
  · cases c <;> rfl
  · cases d <;> simp [mkParams]
  · cases s <;> simp [mkParams]
  · cases cd <;> rfl
  · exact Bool.beq_eq_decide_eq _ _

/-- the falsy-but-valid values: a budget of 0 missed cleavages, a minimum or maximum length of 0 and an empty
    special-residue string are kept as given (never replaced by the defaults 2 / 7 / 60 / "KR") -/
theorem params_ctor_zero_kept (a : CtorArgs) :
    (mkParams { a with cleavages := some 0 }).mc = 0 ∧
    (mkParams { a with minLength := some 0 }).minL = 0 ∧
    (mkParams { a with maxLength := some 0 }).maxL = 0 ∧
    (mkParams { a with specialAas := some "" }).special = [] :=
  ⟨rfl, rfl, rfl, by simp [mkParams]⟩

/-- the command line: an option that is given is the list `get_digestion_params_list` reads, an absent option is
    the one-element list of its default constant -/
theorem arg_lists_defaults (o : CliOpts) :
    (argLists o).enzyme = (match o.enzyme with | some l => l | none => [enzymeDefault]) ∧
    (argLists o).digestion = (match o.digestion with | some l => l | none => [digestionDefault]) ∧
    (argLists o).minLength = (match o.minLength with | some l => l | none => [minPeplenDefault]) ∧
    (argLists o).maxLength = (match o.maxLength with | some l => l | none => [maxPeplenDefault]) ∧
    (argLists o).cleavages = (match o.cleavages with | some l => l | none => [cleavagesDefault]) ∧
    (argLists o).specialAas = (match o.specialAas with | some l => l | none => [specialAasDefault]) ∧
    (argLists o).containsDecoys = o.containsDecoys := by
  obtain ⟨e, d, mn, mx, c, s, cd⟩ := o
  refine ⟨?_, ?_, ?_, ?_, ?_, ?_, rfl⟩
  · cases e <;> rfl
  · cases d <;> rfl
  · cases mn <;> rfl
  · cases mx <;> rfl
  · cases c <;> rfl
  · cases s <;> rfl

/-- `get_digestion_params_list` (broadcast of single values): when it succeeds, every option list has length one or
    the common length `n`; there are exactly `n` parameter objects and the `i`-th is `DigestionParams` of the `i`-th
    value of every list with several values and of THE value of every list with one (`pickAt`), all given explicitly -/
theorem params_list_broadcast (a : ArgLists) (ps : List Params) (h : paramsList a = .ok ps) :
    (∀ n ∈ nonOneLengths a, n = numParams a) ∧ ps.length = numParams a ∧
    ∀ i, i < numParams a → ∃ e d mn mx c s,
      pickAt a.enzyme i = some e ∧ pickAt a.digestion i = some d ∧ pickAt a.minLength i = some mn ∧
      pickAt a.maxLength i = some mx ∧ pickAt a.cleavages i = some c ∧ pickAt a.specialAas i = some s ∧
      ps[i]? = some (mkParams { enzyme := some e, digestion := some d, minLength := some mn, maxLength := some mx,
                                cleavages := some c, specialAas := some s, containsDecoys := some a.containsDecoys }) :=
  paramsList_ok a ps h

/-- "Raises ValueError if digestion parameters of length > 1 are of unequal length": the only error, and exactly then -/
theorem params_list_error_iff (a : ArgLists) :
    (paramsList a = .error .unequalLength ↔ ∃ m ∈ nonOneLengths a, ∃ n ∈ nonOneLengths a, m ≠ n) ∧
    (∀ e, paramsList a = .error e → e = .unequalLength) := by
  refine ⟨paramsList_error_iff a, ?_⟩
  intro e h
  unfold paramsList at h
  split at h
  · cases h
  · injection h with h; exact h.symm

/-- one value per option (or none): the command line configures ONE parameter object, the one `DigestionParams`
    builds from the given values with the absent ones omitted — an absent option and an omitted constructor argument
    fall back to the same constants, and nothing else does -/
theorem cli_single_values (e d : Option String) (mn mx c : Option Nat) (s : Option String) (cd : Bool) :
    paramsList (argLists { enzyme := e.map ([·]), digestion := d.map ([·]), minLength := mn.map ([·]),
                           maxLength := mx.map ([·]), cleavages := c.map ([·]), specialAas := s.map ([·]),
                           containsDecoys := cd }) =
      .ok [mkParams { enzyme := e, digestion := d, minLength := mn, maxLength := mx, cleavages := c,
                      specialAas := s, containsDecoys := some cd }] := by
  cases e <;> cases d <;> cases mn <;> cases mx <;> cases c <;> cases s <;> rfl

/-- "the set of peptides generated from a protein equals the set of its substrings whose length lies within the
    configured bounds, whose required termini …, and that span at most the allowed number of enzymatic cleavage
    sites": the digestion call a parameter object is turned into yields exactly the rule's peptides for the object's
    enzyme, mode, window, budget and methionine setting -/
theorem configured_digest_set_eq (p : Params) (r : EnzymeRule) (hr : lookupEnzyme p.enzyme = some r) (seq : Seq)
    (hne : seq ≠ []) (hmin : 1 ≤ p.minL) :
    ∃ l, configuredDigest p seq = .ok l ∧
      ∀ x, x ∈ l ↔ ∃ i j, Valid (modeOf p.digestion) r p.minL p.maxL p.mc p.met seq i j ∧ x = slice seq i j :=
  digest_by_name_set_eq p.enzyme r hr seq p.minL p.maxL p.mc p.digestion p.met hne hmin

/-- … instantiated with the GIVEN values: `DigestionParams(enzyme, digestion, min_length, max_length, cleavages, …)`
    digests with exactly `min_length`, `max_length`, `cleavages` (not with a default), methionine cleavage on, in the
    mode named by `digestion` (non-specific for `no_enzyme`) -/
theorem configured_digest_given (enzyme digestion : String) (mn mx c : Nat) (special : Option String)
    (cd : Option Bool) (r : EnzymeRule) (hr : lookupEnzyme enzyme = some r) (seq : Seq) (hne : seq ≠ [])
    (hmin : 1 ≤ mn) :
    ∃ l, configuredDigest (mkParams { enzyme := some enzyme, digestion := some digestion, minLength := some mn,
                                      maxLength := some mx, cleavages := some c, specialAas := special,
                                      containsDecoys := cd }) seq = .ok l ∧
      ∀ x, x ∈ l ↔ ∃ i j, Valid (if enzyme = "no_enzyme" then Mode.none else modeOf digestion) r mn mx c true seq i j ∧
        x = slice seq i j := by
  let a : CtorArgs := { enzyme := some enzyme, digestion := some digestion, minLength := some mn,
                        maxLength := some mx, cleavages := some c, specialAas := special, containsDecoys := cd }
  have h := configured_digest_set_eq (mkParams a) r hr seq hne hmin
  have hm : modeOf (mkParams a).digestion = (if enzyme = "no_enzyme" then Mode.none else modeOf digestion) := by
    simp only [a, mkParams, Option.getD_some, beq_iff_eq]
    split
    · rfl
    · rfl
  rw [hm] at h
  exact h

/-- "`cleavages = 0`": a configured budget of zero means that no generated peptide spans an enzymatic cleavage
    site (full and semi-specific digestion), whatever the other settings -/
theorem configured_budget_zero (enzyme digestion : String) (mn mx : Nat) (special : Option String) (cd : Option Bool)
    (r : EnzymeRule) (hr : lookupEnzyme enzyme = some r) (seq : Seq) (hne : seq ≠ []) (hmin : 1 ≤ mn)
    (hmode : (if enzyme = "no_enzyme" then Mode.none else modeOf digestion) ≠ Mode.none)
    (l : List Seq)
    (hl : configuredDigest (mkParams { enzyme := some enzyme, digestion := some digestion, minLength := some mn,
                                       maxLength := some mx, cleavages := some 0, specialAas := special,
                                       containsDecoys := cd }) seq = .ok l)
    (x : Seq) (hx : x ∈ l) :
    ∃ i j, x = slice seq i j ∧ i < j ∧ j ≤ seq.length ∧ ∀ k, i < k → k < j → ¬ Site r seq k := by
  obtain ⟨l', hl', hiff⟩ := configured_digest_given enzyme digestion mn mx 0 special cd r hr seq hne hmin
  rw [hl] at hl'
  injection hl' with hl'
  subst hl'
  obtain ⟨i, j, hv, rfl⟩ := (hiff x).mp hx
  refine ⟨i, j, rfl, hv.lt, hv.le, ?_⟩
  intro k hik hkj hs
  have hb := hv.budget hmode
  have hmem : k ∈ (List.range j).filter (fun x => decide (i < x) && decide (Site r seq x)) := by
    simp [List.mem_filter, hkj, hik, hs]
  have hpos : 0 < innerSites r seq i j := List.length_pos_of_mem hmem
  omega

/-- "the iBAQ criteria (6 <= pepLen <= 30, no miscleavages)": the parameter objects as `get_ibaq_peptide_to_protein_map`
    rewrites them digest fully specifically, without methionine removal, within `max(6, min_length)` …
    `min(30, max_length)` and without a cleavage site inside; rewriting twice changes nothing more -/
theorem ibaq_digest_set_eq (p : Params) (r : EnzymeRule) (hr : lookupEnzyme p.enzyme = some r) (seq : Seq)
    (hne : seq ≠ []) :
    (∃ l, configuredDigest (ibaqParams p) seq = .ok l ∧
      ∀ x, x ∈ l ↔ ∃ i j, Valid .full r (max 6 p.minL) (min 30 p.maxL) 0 false seq i j ∧ x = slice seq i j) ∧
    ibaqParams (ibaqParams p) = ibaqParams p ∧ (ibaqParams p).useHash = false := by
  refine ⟨?_, ibaqParams_idem p, rfl⟩
  have h := configured_digest_set_eq (ibaqParams p) r hr seq hne (by simp only [ibaqParams]; omega)
  exact h

/-- the map of `get_peptide_to_protein_map_from_params`, read per protein: the keys listed for a protein identifier
    are exactly the (hash keys of the) peptides the configured digestion of a record with that identifier yields,
    under one of the configured parameter sets, in one of the files; the identifiers are those of the records -/
theorem per_protein_keys (files : List Fasta) (ps : List Params) (em : List Emission)
    (h : emissions files ps = .ok em) (id : String) :
    (id ∈ proteinIds em ↔ ∃ f ∈ files, ∃ p ∈ ps, ∃ rec ∈ records p f, rec.1 = id) ∧
    (∀ x, x ∈ keysFor id em ↔
      ∃ f ∈ files, ∃ p ∈ ps, ∃ rec ∈ records p f, rec.1 = id ∧
        ∃ l, configuredDigest p rec.2 = .ok l ∧ x ∈ l.map (hashKey p)) ∧
    (keysFor id em).Nodup ∧
    (∀ kv, kv ∈ perProtein em ↔ kv.1 ∈ proteinIds em ∧ kv.2 = keysFor kv.1 em) := by
  refine ⟨?_, ?_, dedup_nodup _, mem_perProtein em⟩
  · rw [mem_proteinIds]
    constructor
    · rintro ⟨e, he, rfl⟩
      obtain ⟨f, hf, p, hp, rec, hrec, l, _, rfl⟩ := (mem_emissions files ps em h e).mp he
      exact ⟨f, hf, p, hp, rec, hrec, rfl⟩
    · rintro ⟨f, hf, p, hp, rec, hrec, rfl⟩
      -- the record was digested (the run succeeded), so it contributed
      obtain ⟨a, ha⟩ := emitJob_ok_of_emissions files ps em h f hf p hp
      obtain ⟨l, hl⟩ := emitJob_record_ok p f a ha rec hrec
      exact ⟨(rec.1, l.map (hashKey p)), (mem_emissions files ps em h _).mpr ⟨f, hf, p, hp, rec, hrec, l, hl, rfl⟩, rfl⟩
  · intro x
    rw [mem_keysFor]
    constructor
    · rintro ⟨e, he, rfl, hx⟩
      obtain ⟨f, hf, p, hp, rec, hrec, l, hl, rfl⟩ := (mem_emissions files ps em h e).mp he
      exact ⟨f, hf, p, hp, rec, hrec, rfl, l, hl, hx⟩
    · rintro ⟨f, hf, p, hp, rec, hrec, rfl, l, hl, hx⟩
      exact ⟨(rec.1, l.map (hashKey p)), (mem_emissions files ps em h _).mpr ⟨f, hf, p, hp, rec, hrec, l, hl, rfl⟩,
        rfl, hx⟩

/-- `python -m picked_group_fdr.digest`, blocks in ANY order on one list of parameter objects: the last block of a
    kind writes its file from the parameter objects as the blocks before it left them — the configured ones as long
    as no iBAQ block ran, the iBAQ rewrite of them afterwards; the iBAQ file is always digested with the iBAQ
    settings of the CONFIGURED objects.  So a map / Prosit file reflects the configuration iff no iBAQ block precedes it
    (or the iBAQ rewrite changes nothing). -/
theorem run_blocks_any_order (files : List Fasta) (pre post : List Block) (b : Block) (hb : b ∉ post)
    (ps : List Params) (w0 : Written) (st : List Params × Written)
    (h : runBlocks files (pre ++ b :: post) (ps, w0) = .ok st) :
    match b with
    | .prosit => ∃ em, mapItems files (if Block.ibaq ∈ pre then ps.map ibaqParams else ps) = .ok em ∧
        st.2.prosit = some (prositRows em)
    | .map => ∃ em, mapItems files (if Block.ibaq ∈ pre then ps.map ibaqParams else ps) = .ok em ∧
        st.2.map = some (perProtein em)
    | .ibaq => ∃ em, mapItems files (ps.map ibaqParams) = .ok em ∧ st.2.ibaq = some (ibaqCounts em) :=
  runBlocks_block files pre post b hb ps w0 st h

/-- `digest.main` with each output option alone and in every combination (its blocks run in the order Prosit input,
    peptide-protein map, iBAQ map): every file that is requested is written from the CONFIGURED parameter objects —
    the map lists per protein the keys of `per_protein_keys` under the configured sets, the Prosit input the valid
    ones among them, the iBAQ map the numbers under the iBAQ settings of the configured sets — and a file that is not
    requested is not written; in particular what one file holds does not depend on which others are requested. -/
theorem cli_main_written (o : CliOpts) (files : List Fasta) (wp wm wi : Bool) (w : Written)
    (h : cliMain o files wp wm wi = .ok w) :
    ∃ ps, paramsList (argLists o) = .ok ps ∧
      (if wp then ∃ em, emissions files ps = .ok em ∧ w.prosit = some (prositRows em) else w.prosit = none) ∧
      (if wm then ∃ em, emissions files ps = .ok em ∧ w.map = some (perProtein em) else w.map = none) ∧
      (if wi then ∃ em, emissions files (ps.map ibaqParams) = .ok em ∧ w.ibaq = some (ibaqCounts em)
       else w.ibaq = none) := by
  unfold cliMain at h
  cases hps : paramsList (argLists o) with
  | error e => rw [hps] at h; cases h
  | ok ps =>
    rw [hps] at h
    simp only at h
    cases hrun : runBlocks files (mainBlocks wp wm wi) (ps, {}) with
    | error e => rw [hrun] at h; cases h
    | ok st =>
      rw [hrun] at h
      injection h with h
      subst h
      obtain ⟨u1, u2, u3⟩ := runBlocks_untouched files _ _ _ hrun
      refine ⟨ps, rfl, ?_, ?_, ?_⟩
      · cases wp
        · simp only [Bool.false_eq_true, if_false]
          exact u1 (by cases wm <;> cases wi <;> decide)
        · simp only [if_true]
          rw [mainBlocks_prosit] at hrun
          obtain ⟨em, hem, hw⟩ := runBlocks_block files [] _ .prosit (by cases wm <;> cases wi <;> decide) ps {} st hrun
          exact ⟨em, (mapItems_ok _ _ _ (by simpa [paramsAfter] using hem)).1, hw⟩
      · cases wm
        · simp only [Bool.false_eq_true, if_false]
          exact u2 (by cases wp <;> cases wi <;> decide)
        · simp only [if_true]
          rw [mainBlocks_map] at hrun
          obtain ⟨em, hem, hw⟩ := runBlocks_block files _ _ .map (by cases wi <;> decide) ps {} st hrun
          have hpa : paramsAfter ps (if wp = true then [Block.prosit] else []) = ps := by
            cases wp <;> simp [paramsAfter]
          rw [hpa] at hem
          exact ⟨em, (mapItems_ok _ _ _ hem).1, hw⟩
      · cases wi
        · simp only [Bool.false_eq_true, if_false]
          exact u3 (by cases wp <;> cases wm <;> decide)
        · simp only [if_true]
          rw [mainBlocks_ibaq] at hrun
          obtain ⟨em, hem, hw⟩ := runBlocks_block files _ [] .ibaq (by decide) ps {} st hrun
          exact ⟨em, (mapItems_ok _ _ _ hem).1, hw⟩

/-- "the others must not be affected by it being requested": two invocations with the same options and files that
    both ask for a file write the same content into it, whatever else each of them is asked for -/
theorem cli_file_independent_of_other_outputs (o : CliOpts) (files : List Fasta) (wp wm wi wp' wm' wi' : Bool)
    (w w' : Written) (h : cliMain o files wp wm wi = .ok w) (h' : cliMain o files wp' wm' wi' = .ok w') :
    (wp = true → wp' = true → w.prosit = w'.prosit) ∧ (wm = true → wm' = true → w.map = w'.map) ∧
    (wi = true → wi' = true → w.ibaq = w'.ibaq) := by
  obtain ⟨ps, hps, c1, c2, c3⟩ := cli_main_written o files wp wm wi w h
  obtain ⟨ps', hps', c1', c2', c3'⟩ := cli_main_written o files wp' wm' wi' w' h'
  rw [hps] at hps'
  injection hps' with hps'
  subst hps'
  refine ⟨?_, ?_, ?_⟩
  · rintro rfl rfl
    simp only [if_true] at c1 c1'
    obtain ⟨em, hem, hw⟩ := c1
    obtain ⟨em', hem', hw'⟩ := c1'
    rw [hem] at hem'; injection hem' with hem'; subst hem'
    rw [hw, hw']
  · rintro rfl rfl
    simp only [if_true] at c2 c2'
    obtain ⟨em, hem, hw⟩ := c2
    obtain ⟨em', hem', hw'⟩ := c2'
    rw [hem] at hem'; injection hem' with hem'; subst hem'
    rw [hw, hw']
  · rintro rfl rfl
    simp only [if_true] at c3 c3'
    obtain ⟨em, hem, hw⟩ := c3
    obtain ⟨em', hem', hw'⟩ := c3'
    rw [hem] at hem'; injection hem' with hem'; subst hem'
    rw [hw, hw']

/-! Non-vacuity: concrete inputs.  `MAKAAK` with trypsin, window 1–50, budget 0, Met cleavage on:
the declarative rule allows `AK` (cut positions 1 = Met site, 3 = after K) and the executable model yields it;
the lys-n protein `MK` (site behind the Met is enzymatic) in semi mode with budget 0 yields `M`, `K` but not `MK`. -/

private def trypsin : EnzymeRule := { name := "trypsin", pre := ['K', 'R'], notPost := ['P'], post := [] }
private def lysN : EnzymeRule := { name := "lys-n", pre := [], notPost := [], post := ['K'] }

example : lookupEnzyme "trypsin" = some trypsin := by decide
example : lookupEnzyme "lys-n" = some lysN := by decide

example : Valid .full trypsin 1 50 0 true ['M', 'A', 'K', 'A', 'A', 'K'] 1 3 :=
  ⟨by decide, by decide, by decide, by decide,
   ⟨Or.inr (Or.inr (Or.inr ⟨rfl, rfl, rfl⟩)), Or.inr (Or.inr (Or.inl (by decide)))⟩, fun _ => by decide⟩

example : fullDigest trypsin ['M', 'A', 'K', 'A', 'A', 'K'] 1 50 0 true =
    .ok [['M'], ['M', 'A', 'K'], ['A', 'K'], ['A', 'A', 'K']] := by rfl

example : fullDigest trypsin ['A', 'A', 'A', 'A', 'A', 'K', 'A', 'A', 'A', 'A', 'A'] 6 50 0 true =
    .ok [['A', 'A', 'A', 'A', 'A', 'K']] := by rfl

example : semiDigest lysN ['M', 'K'] 1 3 0 true = .ok [['M'], ['K']] := by rfl

example : Valid .semi lysN 1 3 0 true ['M', 'K'] 0 1 :=
  ⟨by decide, by decide, by decide, by decide, Or.inl (Or.inl rfl), fun _ => by decide⟩

example : ¬ Valid .semi lysN 1 3 0 true ['M', 'K'] 0 2 := fun h => absurd (h.budget (by decide)) (by decide)

example : Site trypsin ['M', 'A', 'K', 'A', 'A', 'K'] 3 := by decide

/-! Non-vacuity of the configuration theorems: a command line `--enzyme trypsin --min-length 2 --cleavages 1
--fasta_contains_decoys` on the protein `MAKCCCCCKAAR`, all three outputs requested — the map holds the peptides with
at most ONE missed cleavage from length 2 (the configured values, not the defaults 7 / 2), the iBAQ number is 1
(`CCCCCK`); with `--cleavages 0` no listed peptide spans a site; had the iBAQ block run BEFORE the map block, the map
would hold `CCCCCK` only. -/

private def demoProt : Fasta := [("P1", ['M', 'A', 'K', 'C', 'C', 'C', 'C', 'C', 'K', 'A', 'A', 'R'])]
private def demoOpts (mc : Nat) : CliOpts :=
  { enzyme := some ["trypsin"], minLength := some [2], cleavages := some [mc], containsDecoys := true }

example : (mkParams { cleavages := some 0 }).mc = 0 ∧ (mkParams {}).mc = cleavagesDefault ∧
    (mkParams { minLength := some 0 }).minL = 0 ∧ (mkParams { enzyme := some "no_enzyme", digestion := some "full" }).digestion = "none" :=
  ⟨rfl, rfl, rfl, by decide⟩

example : paramsList (argLists { enzyme := some ["trypsin", "lys-n"], cleavages := some [0], minLength := some [1, 2] }) =
    .ok [mkParams { enzyme := some "trypsin", digestion := some digestionDefault, minLength := some 1,
                    maxLength := some maxPeplenDefault, cleavages := some 0, specialAas := some specialAasDefault,
                    containsDecoys := some false },
         mkParams { enzyme := some "lys-n", digestion := some digestionDefault, minLength := some 2,
                    maxLength := some maxPeplenDefault, cleavages := some 0, specialAas := some specialAasDefault,
                    containsDecoys := some false }] := rfl

example : paramsList (argLists { enzyme := some ["trypsin", "lys-n"], cleavages := some [0, 1, 2] }) =
    .error .unequalLength := rfl

example : cliMain (demoOpts 1) [demoProt] true true true =
    .ok { prosit := some [(['M', 'A', 'K'], "P1"), (['A', 'K'], "P1"),
                          (['M', 'A', 'K', 'C', 'C', 'C', 'C', 'C', 'K'], "P1"),
                          (['A', 'K', 'C', 'C', 'C', 'C', 'C', 'K'], "P1"), (['C', 'C', 'C', 'C', 'C', 'K'], "P1"),
                          (['C', 'C', 'C', 'C', 'C', 'K', 'A', 'A', 'R'], "P1"), (['A', 'A', 'R'], "P1")],
          map := some [("P1", [['M', 'A', 'K'], ['A', 'K'], ['M', 'A', 'K', 'C', 'C', 'C', 'C', 'C', 'K'],
                               ['A', 'K', 'C', 'C', 'C', 'C', 'C', 'K'], ['C', 'C', 'C', 'C', 'C', 'K'],
                               ['C', 'C', 'C', 'C', 'C', 'K', 'A', 'A', 'R'], ['A', 'A', 'R']])],
          ibaq := some [("P1", 1)] } := by rfl

example : cliMain (demoOpts 0) [demoProt] false true false =
    .ok { map := some [("P1", [['M', 'A', 'K'], ['A', 'K'], ['C', 'C', 'C', 'C', 'C', 'K'], ['A', 'A', 'R']])] } := by
  rfl

/-- the order of the blocks in `main` is load-bearing: iBAQ block first, and the map is digested with the iBAQ settings -/
example : (match runBlocks [demoProt] [.ibaq, .map]
      ([mkParams { enzyme := some "trypsin", minLength := some 2, cleavages := some 1, containsDecoys := some true }], {}) with
    | .ok st => st.2.map
    | .error _ => none) = some [("P1", [['C', 'C', 'C', 'C', 'C', 'K']])] := by decide +kernel

end PgFdr.C08
