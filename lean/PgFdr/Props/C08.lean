import PgFdr.Proofs.C08
import PgFdr.Proofs.C08Semi

/-!
# C08 — in-silico digestion yields exactly the peptides the cleavage rule defines

Property text (properties.jsonl): "For full, semi-specific and non-specific digestion the set of
peptides generated from a protein equals the set of its substrings whose length lies within the
configured bounds, whose required termini (both, at least one, none) coincide with a protein
terminus, an enzymatic cleavage site or the site behind a removable initiator methionine, and that
span at most the allowed number of enzymatic cleavage sites. A cleavage site is exactly a position
after a 'pre' residue not followed by a 'not_post' residue or before a 'post' residue, for every
supported enzyme."

The executable model (`fullDigest`, `semiDigest`, `nonSpecific`, `digestByName`, `enz`) lives in
`PgFdr/Model/C08.lean` and is what the driver op `digest` runs against `digest.get_digested_peptides`;
the declarative side (`RuleAt`, `Site`, `MetSite`, `Terminus`, `innerSites`, `Valid`) is defined there
too.  Helper lemmas: `PgFdr/Proofs/C08.lean`.  The enzyme table `PgFdr.Generated.enzymes` is
regenerated from `ENZYME_CLEAVAGE_RULES` on every run.
-/
namespace PgFdr.C08
open PgFdr.Generated

/-- "A cleavage site is exactly a position after a 'pre' residue not followed by a 'not_post' residue or
    before a 'post' residue, for every supported enzyme": at every internal cut position `x` the site test
    the code applies at residue `x - 1` (with its clamped look-ahead) is the rule — for every rule record,
    hence for every enzyme of the table. -/
theorem site_iff_rule (r : EnzymeRule) (seq : List Char) (x : Nat) (h1 : 1 ≤ x) (h2 : x < seq.length) :
    (enz r seq (x - 1) = true ↔ RuleAt r seq x) ∧
    (x ∈ (sitesZ r seq).map (· + 1) ↔ Site r seq x) ∧
    (isEnzymatic r (seq.getD (x - 1) ' ') (seq.getD x ' ') = true ↔ RuleAt r seq x) := by
  refine ⟨enz_iff_rule r seq x h1 (by omega), ?_, ?_⟩
  · rw [← siteCut_iff_site]
    simp only [List.mem_map, SiteCut]
    constructor
    · rintro ⟨z, hz, rfl⟩; exact ⟨z, hz, rfl, by omega⟩
    · rintro ⟨z, hz, rfl, _⟩; exact ⟨z, hz, rfl⟩
  · simp [isEnzymatic, RuleAt]

/-- "… for every supported enzyme": the same, by name, over the regenerated table -/
theorem site_iff_rule_table (name : String) (r : EnzymeRule) (_h : lookupEnzyme name = some r)
    (seq : List Char) (x : Nat) (h1 : 1 ≤ x) (h2 : x < seq.length) :
    enz r seq (x - 1) = true ↔ RuleAt r seq x :=
  (site_iff_rule r seq x h1 h2).1

/-- the regenerated table is well formed: enzyme names are distinct (the lookup by name is unambiguous),
    every residue is an upper-case letter, the default enzyme is in the table, and `no_enzyme` has no site -/
theorem enzymes_wellformed :
    (enzymes.map (·.name)).Nodup ∧
    (∀ r ∈ enzymes, ∀ ch ∈ r.pre ++ r.notPost ++ r.post, ch.isUpper = true) ∧
    (lookupEnzyme enzymeDefault).isSome = true ∧
    lookupEnzyme "no_enzyme" = some { name := "no_enzyme", pre := [], notPost := [], post := [] } := by
  refine ⟨by decide, by decide, by decide, by decide⟩

/-- "For full … digestion the set of peptides generated from a protein equals the set of its substrings
    whose length lies within the configured bounds, whose required termini (both …) coincide with a protein
    terminus, an enzymatic cleavage site or the site behind a removable initiator methionine, and that span
    at most the allowed number of enzymatic cleavage sites" — for every rule, every non-empty sequence,
    every window with `min_len ≥ 1`, every budget and both methionine settings. -/
theorem full_digest_set_eq (r : EnzymeRule) (seq : List Char) (minL maxL mc : Nat) (met : Bool)
    (hne : seq ≠ []) (hmin : 1 ≤ minL) :
    ∃ l, fullDigest r seq minL maxL mc met = .ok l ∧
      ∀ x, x ∈ l ↔ ∃ a b, Valid .full r minL maxL mc met seq a b ∧ x = slice seq a b := by
  cases seq with
  | nil => exact absurd rfl hne
  | cons ch t =>
    refine ⟨_, rfl, ?_⟩
    intro x
    rw [mem_fullPeptides]
    have hn1 : 1 ≤ (cfgOf (ch :: t) minL maxL mc met).n := by simp [cfgOf]
    constructor
    · rintro ⟨a, b, hE, rfl⟩
      refine ⟨a, b, ?_, rfl⟩
      rw [← zvalid_iff_valid]
      exact (zfull_digest_set_eq _ _ hn1 hmin (sitesZ_sorted r _) (sitesZ_lt r _) a b).mp hE
    · rintro ⟨a, b, hV, rfl⟩
      refine ⟨a, b, ?_, rfl⟩
      rw [← zvalid_iff_valid] at hV
      exact (zfull_digest_set_eq _ _ hn1 hmin (sitesZ_sorted r _) (sitesZ_lt r _) a b).mpr hV

/-- "For … semi-specific … digestion the set of peptides generated from a protein equals the set of its
    substrings whose length lies within the configured bounds, whose required termini (… at least one …)
    coincide with a protein terminus, an enzymatic cleavage site or the site behind a removable initiator
    methionine, and that span at most the allowed number of enzymatic cleavage sites" — soundness and
    completeness, for every rule, every non-empty sequence, every window, budget and methionine setting
    (the model has the repaired Met handling of fixes/C08-semi-met-site.diff). -/
theorem semi_digest_set_eq (r : EnzymeRule) (seq : List Char) (minL maxL mc : Nat) (met : Bool)
    (hne : seq ≠ []) :
    ∃ l, semiDigest r seq minL maxL mc met = .ok l ∧
      ∀ x, x ∈ l ↔ ∃ a b, Valid .semi r minL maxL mc met seq a b ∧ x = slice seq a b := by
  cases seq with
  | nil => exact absurd rfl hne
  | cons ch t =>
    refine ⟨_, rfl, ?_⟩
    intro x
    rw [mem_semiPeptides]
    have hn1 : 1 ≤ (semiCfg r (ch :: t) minL maxL mc met).n := by simp [semiCfg]
    have hmet := semiMet_site r (ch :: t) minL maxL mc met
    have key := zsemi_set_eq (semiCfg r (ch :: t) minL maxL mc met) (semiSite r (ch :: t)) hn1 hmet
    rw [siteList_semi] at key
    constructor
    · rintro ⟨a, b, hE, rfl⟩
      exact ⟨a, b, (zvalidSemi_iff_valid r _ hne minL maxL mc met a b).mp ((key a b).mp hE), rfl⟩
    · rintro ⟨a, b, hV, rfl⟩
      exact ⟨a, b, (key a b).mpr ((zvalidSemi_iff_valid r _ hne minL maxL mc met a b).mpr hV), rfl⟩

/-- soundness half of `semi_digest_set_eq`, kept under the planned name -/
theorem semi_digest_sound (r : EnzymeRule) (seq : List Char) (minL maxL mc : Nat) (met : Bool) (hne : seq ≠ [])
    (l : List (List Char)) (hl : semiDigest r seq minL maxL mc met = .ok l) (x : List Char) (hx : x ∈ l) :
    ∃ a b, Valid .semi r minL maxL mc met seq a b ∧ x = slice seq a b := by
  obtain ⟨l', hl', h⟩ := semi_digest_set_eq r seq minL maxL mc met hne
  rw [hl] at hl'
  cases hl'
  exact (h x).mp hx

/-- completeness half of `semi_digest_set_eq`, kept under the planned name -/
theorem semi_digest_complete (r : EnzymeRule) (seq : List Char) (minL maxL mc : Nat) (met : Bool) (hne : seq ≠ [])
    (a b : Nat) (hv : Valid .semi r minL maxL mc met seq a b) :
    ∃ l, semiDigest r seq minL maxL mc met = .ok l ∧ slice seq a b ∈ l := by
  obtain ⟨l, hl, h⟩ := semi_digest_set_eq r seq minL maxL mc met hne
  exact ⟨l, hl, (h _).mpr ⟨a, b, hv, rfl⟩⟩

/-- "For … non-specific digestion the set of peptides generated from a protein equals the set of its
    substrings whose length lies within the configured bounds" (no terminus condition, no site budget) -/
theorem nonspecific_set_eq (r : EnzymeRule) (seq : List Char) (minL maxL mc : Nat) (met : Bool)
    (hmin : 1 ≤ minL) (x : List Char) :
    x ∈ nonSpecific seq minL maxL ↔ ∃ a b, Valid .none r minL maxL mc met seq a b ∧ x = slice seq a b := by
  rw [mem_nonSpecific]
  constructor
  · rintro ⟨i, j, h1, h2, h3, rfl⟩
    exact ⟨i, j, ⟨by omega, h3, by omega, by omega, trivial, fun h => absurd rfl h⟩, rfl⟩
  · rintro ⟨a, b, ⟨h1, h2, h3, h4, _, _⟩, rfl⟩
    exact ⟨a, b, by omega, by omega, h2, rfl⟩

/-- "For full, semi-specific and non-specific digestion …": `get_digested_peptides`, looked up by enzyme name in
    the regenerated table, yields for every supported enzyme, every non-empty sequence, every window with
    `min_len ≥ 1`, budget, mode string and methionine setting exactly the substrings the declarative rule allows -/
theorem digest_by_name_set_eq (name : String) (r : EnzymeRule) (hr : lookupEnzyme name = some r)
    (seq : List Char) (minL maxL mc : Nat) (digestion : String) (met : Bool) (hne : seq ≠ []) (hmin : 1 ≤ minL) :
    ∃ l, digestByName name seq minL maxL digestion mc met = .ok l ∧
      ∀ x, x ∈ l ↔ ∃ a b, Valid (modeOf digestion) r minL maxL mc met seq a b ∧ x = slice seq a b := by
  unfold digestByName
  rw [hr]
  simp only
  cases hm : modeOf digestion with
  | full => exact full_digest_set_eq r seq minL maxL mc met hne hmin
  | semi => exact semi_digest_set_eq r seq minL maxL mc met hne
  | none => exact ⟨_, rfl, fun x => nonspecific_set_eq r seq minL maxL mc met hmin x⟩

/-! Non-vacuity: concrete inputs.  `MAKAAK` with trypsin, window 1–50, budget 0, Met cleavage on:
the declarative rule allows `AK` (cut positions 1 = Met site, 3 = after K) and the executable model yields it;
the lys-n protein `MK` (site behind the Met is enzymatic) in semi mode with budget 0 yields `M`, `K` but not `MK`. -/

private def trypsin : EnzymeRule := { name := "trypsin", pre := ['K', 'R'], notPost := ['P'], post := [] }
private def lysN : EnzymeRule := { name := "lys-n", pre := [], notPost := [], post := ['K'] }

example : lookupEnzyme "trypsin" = some trypsin := by decide
example : lookupEnzyme "lys-n" = some lysN := by decide

example : Valid .full trypsin 1 50 0 true ['M', 'A', 'K', 'A', 'A', 'K'] 1 3 :=
  ⟨by decide, by decide, by decide, by decide,
   ⟨Or.inr (Or.inr (Or.inr ⟨rfl, rfl, rfl⟩)), Or.inr (Or.inr (Or.inl (by decide)))⟩, fun _ => by decide⟩

example : fullDigest trypsin ['M', 'A', 'K', 'A', 'A', 'K'] 1 50 0 true =
    .ok [['M'], ['M', 'A', 'K'], ['A', 'K'], ['A', 'A', 'K']] := by rfl

example : fullDigest trypsin ['A', 'A', 'A', 'A', 'A', 'K', 'A', 'A', 'A', 'A', 'A'] 6 50 0 true =
    .ok [['A', 'A', 'A', 'A', 'A', 'K']] := by rfl

example : semiDigest lysN ['M', 'K'] 1 3 0 true = .ok [['M'], ['K']] := by rfl

example : Valid .semi lysN 1 3 0 true ['M', 'K'] 0 1 :=
  ⟨by decide, by decide, by decide, by decide, Or.inl (Or.inl rfl), fun _ => by decide⟩

example : ¬ Valid .semi lysN 1 3 0 true ['M', 'K'] 0 2 := fun h => absurd (h.budget (by decide)) (by decide)

example : Site trypsin ['M', 'A', 'K', 'A', 'A', 'K'] 3 := by decide

end PgFdr.C08
