import PgFdr.Proofs.C04
import PgFdr.Props.C03
import PgFdr.Proofs.C04Unshared

/-!
# C04 — rescue regrouping keeps a partition and merges only along shared peptides

Property text (properties.jsonl): "The rescue pass regroups with only the peptides whose PEP is better
than the PEP equivalent of the worst-scoring group accepted at the FDR threshold: proteins keeping such
a peptide form a valid subset grouping of those peptides in which groups without a peptide of their own
are additionally merged with groups they are connected to through shared peptides - always when the
connected set cannot be separated, by removing shared peptides, into parts that each still hold a
second group or a remaining shared peptide, never across unconnected groups and never involving a
group that has its own unique peptide - while all other proteins stay together with exactly those
former group-mates that also kept no such peptide. The result is again a partition of exactly the
first-pass proteins, completely absorbed first-pass groups remain in the ranking only as placeholders
and are never reported, and so no protein is reported in two groups. When no peptide is shared between
proteins the rescue pass reports exactly the groups, scores and q-values that plain subset grouping
reports."

All theorems are about `rescueGroupsN` (`PgFdr/Model/C04.lean`), the function the driver executes for
op "rescue" and that `harness/props/C04.py` compares with `merge_with_rescued_protein_groups` of the
real code.  They hold for every cutoff, every recorded cut map `cuts` (the min-cut oracle is a
parameter) and every partition `N` of the proteins that kept a peptide (the subset grouping of the
filtered peptides, property C03, is a parameter).  `old` is the first-pass grouping with its peptide infos.
-/
namespace PgFdr.C04

variable {ι : Type}

/-- "the PEP equivalent of the worst-scoring group accepted at the FDR threshold": the score whose
    `10^(−score)` is the cutoff is the smallest score among the first-pass rows with a q-value strictly
    below the threshold; when no row is accepted ("thresholds no group reaches") it is the smallest
    score of all rows. -/
theorem rescue_score_spec (rows : List (Rat × Rat)) (thr s : Rat) (h : rescueScore rows thr = some s) :
    (∃ r ∈ rows, r.2 < thr) ∧ (∃ r ∈ rows, r.2 < thr ∧ r.1 = s) ∧ (∀ r ∈ rows, r.2 < thr → s ≤ r.1) ∨
    (∀ r ∈ rows, ¬ r.2 < thr) ∧ (∃ r ∈ rows, r.1 = s) ∧ (∀ r ∈ rows, s ≤ r.1) := by
  unfold rescueScore at h
  simp only at h
  by_cases hacc : ((rows.filter (fun r => decide (r.2 < thr))).map (·.1)).isEmpty = true
  · right
    simp only [hacc, if_true] at h
    obtain ⟨hm, hle⟩ := minRat_spec _ s h
    have hnone : ∀ r ∈ rows, ¬ r.2 < thr := by
      simpa [List.isEmpty_iff, List.filter_eq_nil_iff] using hacc
    refine ⟨hnone, ?_, ?_⟩
    · obtain ⟨r, hr, rfl⟩ := List.mem_map.mp hm
      exact ⟨r, hr, rfl⟩
    · intro r hr; exact hle r.1 (List.mem_map.mpr ⟨r, hr, rfl⟩)
  · left
    simp only [hacc] at h
    obtain ⟨hm, hle⟩ := minRat_spec _ s h
    obtain ⟨r, hr, rfl⟩ := List.mem_map.mp hm
    have hr' := List.mem_filter.mp hr
    have hlt : r.2 < thr := by simpa using hr'.2
    refine ⟨⟨r, hr'.1, hlt⟩, ⟨r, hr'.1, hlt, rfl⟩, ?_⟩
    intro r' hr'm hr'lt
    exact hle r'.1 (List.mem_map.mpr ⟨r', List.mem_filter.mpr ⟨hr'm, by simpa using hr'lt⟩, rfl⟩)

/-- "regroups with only the peptides whose PEP is better than [the cutoff]": strictly better -/
theorem filtered_exact (N : Groups) (old : List (List String × ι)) (pil : List PepInfo) (cutoff : Rat)
    (cuts : CutMap) (out : RescueOut ι) (hrun : rescueGroupsN N old pil cutoff cuts = .ok out) (x : PepInfo) :
    x ∈ out.filtered ↔ x ∈ pil ∧ x.pep < cutoff := by
  obtain ⟨_, _, _, hf, _⟩ := run_spec N old pil cutoff cuts out hrun
  rw [hf]
  simp [filterByCutoff, List.mem_filter]

/-- the rescued groups (before the remnants are added) are a partition of exactly the proteins of `N`,
    i.e. of the proteins that kept a peptide below the cutoff -/
theorem rescued_perm (N : Groups) (old : List (List String × ι)) (pil : List PepInfo) (cutoff : Rat)
    (cuts : CutMap) (out : RescueOut ι) (hrun : rescueGroupsN N old pil cutoff cuts = .ok out)
    (hN : N.flatten.Nodup) : out.rescued.flatten.Perm N.flatten := by
  obtain ⟨lvs, hl, hr, _⟩ := run_spec N old pil cutoff cuts out hrun
  rw [hr, dropEmpty_flatten]
  exact (applyLeaves_perm N _ hN lvs (leaves_spec N _ cuts lvs hl).1).2

/-- "The result is again a partition of exactly the first-pass proteins" (and no group is empty) -/
theorem rescue_partition (N : Groups) (old : List (List String × ι)) (pil : List PepInfo) (cutoff : Rat)
    (cuts : CutMap) (out : RescueOut ι) (hrun : rescueGroupsN N old pil cutoff cuts = .ok out)
    (hN : N.flatten.Nodup) (hold : (old.map (·.1)).flatten.Nodup)
    (hsub : ∀ p ∈ N.flatten, p ∈ (old.map (·.1)).flatten) :
    out.groups.flatten.Perm (old.map (·.1)).flatten ∧ ∀ g ∈ out.groups, g ≠ [] := by
  have hperm := rescued_perm N old pil cutoff cuts out hrun hN
  obtain ⟨lvs, _, hr, _, hg, _⟩ := run_spec N old pil cutoff cuts out hrun
  rw [hg]
  constructor
  · exact merged_perm _ _ (hperm.nodup_iff.mpr hN) hold (fun p hp => hsub p (hperm.subset hp))
  · apply merged_nonempty
    intro g hgm
    rw [hr] at hgm
    exact ((mem_dropEmpty _ g).mp hgm).2

/-- "all other proteins stay together with exactly those former group-mates that also kept no such
    peptide": a group of the result is a rescued group, or it is what is left of one first-pass group
    after removing the proteins that kept a peptide (the proteins of `N`) -/
theorem remnants_exact (N : Groups) (old : List (List String × ι)) (pil : List PepInfo) (cutoff : Rat)
    (cuts : CutMap) (out : RescueOut ι) (hrun : rescueGroupsN N old pil cutoff cuts = .ok out)
    (hN : N.flatten.Nodup) (g : List String) :
    g ∈ out.groups ↔ g ∈ out.rescued ∨
      (g ≠ [] ∧ ∃ g0 ∈ old.map (·.1), g = g0.filter (fun p => decide (p ∉ N.flatten))) := by
  have hperm := rescued_perm N old pil cutoff cuts out hrun hN
  obtain ⟨lvs, _, _, _, hg, _⟩ := run_spec N old pil cutoff cuts out hrun
  rw [hg, merged_mem]
  have hrem : ∀ g0 : List String, remnant out.rescued.flatten g0 = g0.filter (fun p => decide (p ∉ N.flatten)) := by
    intro g0
    unfold remnant
    apply List.filter_congr
    intro p _
    simp only [hperm.mem_iff]
  simp only [hrem]

/-- "completely absorbed first-pass groups remain in the ranking only as placeholders": the
    placeholders are exactly the first-pass groups all of whose members kept a peptide, renamed -/
theorem placeholders_exact (N : Groups) (old : List (List String × ι)) (pil : List PepInfo) (cutoff : Rat)
    (cuts : CutMap) (out : RescueOut ι) (hrun : rescueGroupsN N old pil cutoff cuts = .ok out)
    (hN : N.flatten.Nodup) (g : List String) :
    g ∈ out.obsolete ↔ ∃ g0 ∈ old.map (·.1), (∀ p ∈ g0, p ∈ N.flatten) ∧ g = g0.map obsoleteName := by
  have hperm := rescued_perm N old pil cutoff cuts out hrun hN
  obtain ⟨lvs, _, _, _, _, ho, _⟩ := run_spec N old pil cutoff cuts out hrun
  rw [ho]
  simp only [List.mem_map, absorbed_mem]
  constructor
  · rintro ⟨⟨g0, i⟩, ⟨hmem, hall⟩, rfl⟩
    exact ⟨g0, ⟨(g0, i), hmem, rfl⟩, fun p hp => hperm.subset (hall p hp), rfl⟩
  · rintro ⟨g0, ⟨⟨g1, i⟩, hmem, rfl⟩, hall, rfl⟩
    exact ⟨(g1, i), ⟨hmem, fun p hp => hperm.symm.subset (hall p hp)⟩, rfl⟩

/-- "… and are never reported": a placeholder group is skipped when the result rows are built, so
    the reportable groups of the second competition are those of the merged grouping alone -/
theorem placeholders_never_reported (N : Groups) (old : List (List String × ι)) (pil : List PepInfo)
    (cutoff : Rat) (cuts : CutMap) (out : RescueOut ι) (hrun : rescueGroupsN N old pil cutoff cuts = .ok out) :
    (∀ g ∈ out.obsolete, g ∉ reported (secondPassGroups out)) ∧
      reported (secondPassGroups out) = reported out.groups := by
  obtain ⟨lvs, _, _, _, _, ho, _⟩ := run_spec N old pil cutoff cuts out hrun
  have hobs : ∀ g ∈ out.obsolete, isObsolete g = true := by
    intro g hg
    rw [ho] at hg
    obtain ⟨g0, _, rfl⟩ := List.mem_map.mp hg
    exact isObsolete_placeholder _
  constructor
  · intro g hg hrep
    have := (List.mem_filter.mp hrep).2
    simp [hobs g hg] at this
  · unfold reported secondPassGroups
    rw [List.filter_append]
    have : out.obsolete.filter (fun g => !isObsolete g) = [] := by
      rw [List.filter_eq_nil_iff]
      intro g hg; simp [hobs g hg]
    rw [this, List.append_nil]

/-- "and so no protein is reported in two groups" -/
theorem rescue_no_protein_twice (N : Groups) (old : List (List String × ι)) (pil : List PepInfo)
    (cutoff : Rat) (cuts : CutMap) (out : RescueOut ι) (hrun : rescueGroupsN N old pil cutoff cuts = .ok out)
    (hN : N.flatten.Nodup) (hold : (old.map (·.1)).flatten.Nodup)
    (hsub : ∀ p ∈ N.flatten, p ∈ (old.map (·.1)).flatten) :
    (reported (secondPassGroups out)).flatten.Nodup := by
  rw [(placeholders_never_reported N old pil cutoff cuts out hrun).2]
  have hp := (rescue_partition N old pil cutoff cuts out hrun hN hold hsub).1
  have hnd : out.groups.flatten.Nodup := hp.nodup_iff.mpr hold
  have hsl : (reported out.groups).Sublist out.groups := List.filter_sublist
  exact (sublist_flatten hsl).nodup hnd

/-- The same for `rescueGroups`, the function a pipeline model calls: there the subset grouping of the
    filtered peptides is computed by the model of `Model/C03.lean`, and its partition theorem
    (`C03.subset_partition`) discharges the hypotheses on `N`.  The only remaining hypotheses are on the
    input: peptide names are unique (a dict), the first pass is a partition, and it covers the proteins of
    the peptides below the cutoff. "The result is again a partition of exactly the first-pass proteins …
    and so no protein is reported in two groups." -/
theorem rescue_partition_subset (old : List (List String × ι)) (pil : List PepInfo) (cutoff : Rat)
    (cuts : CutMap) (out : RescueOut ι) (hrun : rescueGroups old pil cutoff cuts = .ok out)
    (hkeys : (pil.map (·.peptide)).Nodup) (hold : (old.map (·.1)).flatten.Nodup)
    (hsub : ∀ x ∈ pil, x.pep < cutoff → ∀ p ∈ x.proteins, p ∈ (old.map (·.1)).flatten) :
    out.groups.flatten.Perm (old.map (·.1)).flatten ∧ (∀ g ∈ out.groups, g ≠ []) ∧
      (reported (secondPassGroups out)).flatten.Nodup := by
  have hk : (((filterByCutoff pil cutoff).map (fun x => (x.peptide, x.proteins))).map (·.1)).Nodup := by
    rw [List.map_map]
    have : ((filterByCutoff pil cutoff).map ((fun x : String × List String => x.1) ∘ fun x => (x.peptide, x.proteins))).Sublist
        (pil.map (·.peptide)) := by
      unfold filterByCutoff
      exact List.Sublist.map _ List.filter_sublist
    exact this.nodup hkeys
  obtain ⟨_, hnd, hmem⟩ := C03.subset_partition _ hk
  have hsubN : ∀ p ∈ (subsetOf (filterByCutoff pil cutoff)).flatten, p ∈ (old.map (·.1)).flatten := by
    intro p hp
    obtain ⟨e, he, hpe⟩ := (hmem p).mp hp
    obtain ⟨x, hx, rfl⟩ := List.mem_map.mp he
    have hx' := List.mem_filter.mp hx
    exact hsub x hx'.1 (by simpa using hx'.2) p hpe
  have h1 := rescue_partition (subsetOf (filterByCutoff pil cutoff)) old pil cutoff cuts out hrun hnd hold hsubN
  exact ⟨h1.1, h1.2,
    rescue_no_protein_twice (subsetOf (filterByCutoff pil cutoff)) old pil cutoff cuts out hrun hnd hold hsubN⟩

/-- "never involving a group that has its own unique peptide": such a group of the subset grouping is
    not a node of the graph and comes out of the rescue unchanged -/
theorem never_merges_identified (N : Groups) (old : List (List String × ι)) (pil : List PepInfo)
    (cutoff : Rat) (cuts : CutMap) (out : RescueOut ι) (hrun : rescueGroupsN N old pil cutoff cuts = .ok out)
    (hN : N.flatten.Nodup) (g : List String) (hg : g ∈ N) (hown : HasOwnPeptide (filterByCutoff pil cutoff) g) :
    g ∈ out.rescued ∧ ∀ h, g.head? = some h → h ∉ protNodes N (filterByCutoff pil cutoff) := by
  obtain ⟨lvs, hl, hr, _⟩ := run_spec N old pil cutoff cuts out hrun
  obtain ⟨x, hx, hne, hall⟩ := hown
  obtain ⟨k, hk, rfl⟩ := List.mem_iff_getElem.mp hg
  have hk' : N[k]? = some N[k] := List.getElem?_eq_getElem hk
  have hid : k ∈ identifiedIdxs N (filterByCutoff pil cutoff) :=
    (mem_identifiedIdxs N _ k).mpr ⟨x, hx, uniqueIdx_of_all_in N hN k N[k] x hk' hne hall⟩
  have hgne : N[k] ≠ [] := by
    intro h0
    cases hp : x.proteins with
    | nil => exact hne hp
    | cons p ps => have := hall p (by rw [hp]; simp); rw [h0] at this; simp at this
  constructor
  · rw [hr, mem_dropEmpty]
    refine ⟨?_, hgne⟩
    rw [mem_iff_getD _ _ hgne]
    refine ⟨k, ?_⟩
    rw [applyLeaves_untouched N _ hN lvs (leaves_spec N _ cuts lvs hl).1 k hid]
    exact getD_of_getElem? N k _ [] hk'
  · intro h hh hnode
    obtain ⟨i, hi, _, hhead, hnid⟩ := protNode_spec N _ hN h hnode
    have hmem : h ∈ N[k] := by
      cases hgk : N[k] with
      | nil => exact absurd hgk hgne
      | cons a t => rw [hgk] at hh; simp only [List.head?_cons, Option.some.injEq] at hh; subst hh; simp
    have : idxOf N h = some k := idxOf_eq_of_nodup N hN k N[k] h hk' hmem
    rw [this] at hi
    simp only [Option.some.injEq] at hi
    subst hi
    exact hnid hid

/-- "proteins keeping such a peptide form a valid subset grouping … in which groups … are additionally
    merged": every group of the subset grouping `N` lies inside one rescued group (so the rescued groups,
    a partition of the same proteins by `rescued_perm`, are unions of groups of `N`) -/
theorem rescue_refines_subset (N : Groups) (old : List (List String × ι)) (pil : List PepInfo)
    (cutoff : Rat) (cuts : CutMap) (out : RescueOut ι) (hrun : rescueGroupsN N old pil cutoff cuts = .ok out)
    (hN : N.flatten.Nodup) (n : List String) (hn : n ∈ N) (hne : n ≠ []) :
    ∃ g ∈ out.rescued, ∀ p ∈ n, p ∈ g := by
  obtain ⟨lvs, hl, hr, _⟩ := run_spec N old pil cutoff cuts out hrun
  obtain ⟨m, hm⟩ := applyLeaves_block N _ hN lvs (leaves_spec N _ cuts lvs hl).1 n hn
  refine ⟨(applyLeaves (idxOf N) N lvs).getD m [], ?_, hm⟩
  have hgne : (applyLeaves (idxOf N) N lvs).getD m [] ≠ [] := by
    cases n with
    | nil => exact absurd rfl hne
    | cons a t => exact List.ne_nil_of_mem (hm a List.mem_cons_self)
  rw [hr, mem_dropEmpty]
  exact ⟨(mem_iff_getD _ _ hgne).mpr ⟨m, rfl⟩, hgne⟩

/-- "never across unconnected groups": two proteins in one rescued group belong to groups of the
    subset grouping whose leaders are connected in the bipartite graph of group leaders and shared
    peptides (`Conn` = reflexive-transitive closure of the incidence `edges`; the same group when the
    leaders coincide).  `edge_iff` and `conn_iff_component` say what an edge is and that `Conn` is
    what the model's component function computes. -/
theorem merged_only_connected (N : Groups) (old : List (List String × ι)) (pil : List PepInfo)
    (cutoff : Rat) (cuts : CutMap) (out : RescueOut ι) (hrun : rescueGroupsN N old pil cutoff cuts = .ok out)
    (hN : N.flatten.Nodup) (g : List String) (hg : g ∈ out.rescued) (p q : String) (hp : p ∈ g) (hq : q ∈ g) :
    ∃ lp lq, leaderOf N p = some lp ∧ leaderOf N q = some lq ∧
      Conn (edges N (filterByCutoff pil cutoff)) lp lq := by
  obtain ⟨lvs, hl, hr, _⟩ := run_spec N old pil cutoff cuts out hrun
  obtain ⟨hgood, hconn⟩ := leaves_spec N _ cuts lvs hl
  rw [hr, mem_dropEmpty] at hg
  obtain ⟨m, rfl⟩ := (mem_iff_getD _ _ hg.2).mp hg.1
  obtain ⟨lp, h1, hlp, hh1, hc1⟩ := applyLeaves_conn N _ hN lvs hgood hconn m p hp
  obtain ⟨lq, h2, hlq, hh2, hc2⟩ := applyLeaves_conn N _ hN lvs hgood hconn m q hq
  rw [hh1] at hh2
  simp only [Option.some.injEq] at hh2; subst hh2
  exact ⟨lp, lq, hlp, hlq, conn_trans _ lp h1 lq hc1 (conn_symm _ lq h1 hc2)⟩

/-- an edge of the graph joins the leader of a group without a peptide of its own to the
    pseudo-peptide node of one of the leader's filtered peptides -/
theorem edge_iff (N : Groups) (f : List PepInfo) (l n : String) :
    (l, n) ∈ edges N f ↔ l ∈ protNodes N f ∧ ∃ x ∈ f, l ∈ x.proteins ∧ n = pepNodeName N x := by
  unfold edges
  simp only [List.mem_flatMap, List.mem_map, List.mem_filter, decide_eq_true_eq, Prod.mk.injEq]
  constructor
  · rintro ⟨a, ha, x, ⟨hx, hax⟩, rfl, rfl⟩
    exact ⟨ha, x, hx, hax, rfl⟩
  · rintro ⟨hl, x, hx, hlx, rfl⟩
    exact ⟨l, hl, x, ⟨hx, hlx⟩, rfl, rfl⟩

/-- `Conn` is what the model's component function computes: for a node `s` of the graph, the
    component of `s` holds exactly the nodes connected to `s` -/
theorem conn_iff_component (N : Groups) (f : List PepInfo) (s x : String) (hs : s ∈ allNodes N f) :
    x ∈ component (edges N f) (allNodes N f) s ↔ Conn (edges N f) s x := by
  rw [mem_component _ _ s hs]
  constructor
  · intro h; exact (rtg_adjIn_sub _ _ s x h).1
  · intro h; exact (rtg_adjIn_of_conn N f s x hs h).1

/-- "When no peptide is shared between proteins the rescue pass reports exactly the groups … that
    plain subset grouping reports" — the part about the groups: if every filtered peptide maps to a
    single protein and every group of the subset grouping `N` holds a protein with such a peptide,
    nothing is merged, the rescued groups are exactly `N`.
    Full statement (not formalised here: scores and q-values are computed by the second competition,
    outside this model): the rescue pass's reported (group, score, q-value) rows equal those of plain
    subset grouping, as a multiset in general and as a list when scores are pairwise distinct.
    Missing case: equality of scores and q-values. -/
theorem rescue_trivial_when_unshared_partial (N : Groups) (old : List (List String × ι)) (pil : List PepInfo)
    (cutoff : Rat) (cuts : CutMap) (hN : N.flatten.Nodup)
    (hsingle : ∀ x ∈ filterByCutoff pil cutoff, ∃ p, x.proteins = [p])
    (hkept : ∀ g ∈ N, ∃ p ∈ g, ∃ x ∈ filterByCutoff pil cutoff, p ∈ x.proteins) :
    ∃ out, rescueGroupsN N old pil cutoff cuts = .ok out ∧ out.rescued = N ∧
      out.groups = merged N (old.map (·.1)) := by
  have hnodes : protNodes N (filterByCutoff pil cutoff) = [] := by
    rw [List.eq_nil_iff_forall_not_mem]
    intro h hmem
    obtain ⟨j, g, hj, _, hnid⟩ := (mem_protNodes N _ h).mp hmem
    obtain ⟨p, hp, x, hx, hpx⟩ := hkept g (List.mem_of_getElem? hj)
    obtain ⟨p', hp'⟩ := hsingle x hx
    rw [hp'] at hpx
    simp only [List.mem_singleton] at hpx; subst hpx
    apply hnid
    rw [mem_identifiedIdxs]
    exact ⟨x, hx, uniqueIdx_of_all_in N hN j g x hj (by rw [hp']; simp)
      (by intro q hq; rw [hp'] at hq; simp only [List.mem_singleton] at hq; subst hq; exact hp)⟩
  have hne : ∀ g ∈ N, g ≠ [] := by
    intro g hg
    obtain ⟨p, hp, _⟩ := hkept g hg
    exact List.ne_nil_of_mem hp
  have hleaves : leaves N (filterByCutoff pil cutoff) cuts = .ok [] := by
    unfold leaves
    have he : edges N (filterByCutoff pil cutoff) = [] := by unfold edges; rw [hnodes]; rfl
    have ha : allNodes N (filterByCutoff pil cutoff) = [] := by unfold allNodes; rw [hnodes, he]; rfl
    simp only [ha]
    rfl
  have hdrop : dropEmpty N = N := by
    unfold dropEmpty
    rw [List.filter_eq_self]
    intro g hg
    cases g with
    | nil => exact absurd rfl (hne [] hg)
    | cons a t => rfl
  unfold rescueGroupsN mergeWithRescued rescuedGroups
  rw [hleaves]
  simp only [applyLeaves, List.foldl_nil, hdrop]
  exact ⟨_, rfl, rfl, rfl⟩

/-- "always when the connected set cannot be separated, by removing shared peptides, into parts that
    each still hold a second group or a remaining shared peptide": if a connected component `c` of the
    graph is not `SeparableSet` — no non-empty set of its pseudo-peptide nodes can be removed such that
    two remaining nodes are disconnected while every remaining node is still connected to another one —
    then all groups led by the protein nodes of `c` end, complete, in one rescued group.
    This holds for **every** cut map: no assumption on what `minimum_st_node_cut` returns is needed
    (an accepted cut that does not separate leaves a single part, and the union of the cuts accepted
    so far would separate `c` as soon as two parts appeared).  `separable_of_separableSet` gives the
    executable reading of the hypothesis through the model's component function. -/
theorem inseparable_is_merged (N : Groups) (old : List (List String × ι)) (pil : List PepInfo)
    (cutoff : Rat) (cuts : CutMap) (out : RescueOut ι) (hrun : rescueGroupsN N old pil cutoff cuts = .ok out)
    (hN : N.flatten.Nodup)
    (c : List String) (hc : c ∈ comps (edges N (filterByCutoff pil cutoff)) (allNodes N (filterByCutoff pil cutoff)))
    (hins : ¬ SeparableSet (edges N (filterByCutoff pil cutoff))
      (fun x => decide (x ∈ protNodes N (filterByCutoff pil cutoff))) c)
    (l : String) (hl : l ∈ c) (hlp : l ∈ protNodes N (filterByCutoff pil cutoff)) :
    ∃ g ∈ out.rescued, ∀ l' ∈ c, l' ∈ protNodes N (filterByCutoff pil cutoff) →
      ∀ q, leaderOf N q = some l' → q ∈ g := by
  obtain ⟨lvs, hlv, hr, _⟩ := run_spec N old pil cutoff cuts out hrun
  obtain ⟨hgood, _⟩ := leaves_spec N _ cuts lvs hlv
  have hdisj := leaves_disj N _ cuts lvs hlv
  obtain ⟨leaf, hleaf, hmemL⟩ := leaves_inseparable N _ cuts lvs hlv c hc hins
  cases hLeq : leaf with
  | nil => have := (hmemL l).mpr ⟨hl, hlp⟩; rw [hLeq] at this; simp at this
  | cons l0 rest =>
    rw [hLeq] at hleaf
    have hl0n : l0 ∈ protNodes N (filterByCutoff pil cutoff) := (hgood _ hleaf).2 l0 List.mem_cons_self
    obtain ⟨i0, hi0, _, _, _⟩ := protNode_spec N _ hN l0 hl0n
    have hgather := applyLeaves_gather N _ hN lvs hgood hdisj l0 rest hleaf i0 hi0
    refine ⟨(applyLeaves (idxOf N) N lvs).getD i0 [], ?_, ?_⟩
    · have hne : (applyLeaves (idxOf N) N lvs).getD i0 [] ≠ [] :=
        List.ne_nil_of_mem (hgather l0 List.mem_cons_self i0 hi0 l0 (idxOf_mem N l0 i0 hi0))
      rw [hr, mem_dropEmpty]
      exact ⟨(mem_iff_getD _ _ hne).mpr ⟨i0, rfl⟩, hne⟩
    · intro l' hl' hl'p q hq
      have hl'L : l' ∈ l0 :: rest := hLeq ▸ (hmemL l').mpr ⟨hl', hl'p⟩
      obtain ⟨i', hi', _, _, _⟩ := protNode_spec N _ hN l' hl'p
      -- the group of `q` is the group led by `l'`
      unfold leaderOf at hq
      cases hiq : idxOf N q with
      | none => simp [hiq] at hq
      | some i =>
        simp only [hiq] at hq
        have hilt := idxOf_lt N q i hiq
        have hget := getElem?_of_lt_getD N i hilt
        have hl'mem : l' ∈ N.getD i [] := by
          cases hgi : N.getD i [] with
          | nil => rw [hgi] at hq; simp at hq
          | cons a t => rw [hgi] at hq; simp only [List.head?_cons, Option.some.injEq] at hq; subst hq; simp
        have := idxOf_eq_of_nodup N hN i _ l' hget hl'mem
        rw [hi'] at this
        simp only [Option.some.injEq] at this; subst this
        exact hgather l' hl'L i' hi' q (idxOf_mem N q i' hiq)

/-- termination of the decoupling (DESIGN.md §5 C04 "the proof obligation is stated, not assumed
    silently"): the model never runs out of fuel — every accepted cut is non-empty and inside the
    sub-graph, so each re-queued sub-graph is strictly smaller.  The only ways the model rejects an input
    are a recorded cut map without the requested entry and an empty recorded cut (on which the
    implementation would re-queue the same graph forever). -/
theorem rescue_only_oracle_errors (N : Groups) (old : List (List String × ι)) (pil : List PepInfo)
    (cutoff : Rat) (cuts : CutMap) (e : String) (h : rescueGroupsN N old pil cutoff cuts = .error e) :
    e = "cut_lookup_miss" ∨ e = "empty_cut" := by
  unfold rescueGroupsN mergeWithRescued rescuedGroups at h
  cases hl : leaves N (filterByCutoff pil cutoff) cuts with
  | ok lvs => simp [hl] at h
  | error e' =>
    simp only [hl, Except.error.injEq] at h
    subst h
    unfold leaves at hl
    obtain ⟨c, _, hce⟩ := collect_error _ _ _ hl
    exact decouple_error _ _ _ _ c e' (by omega) hce

/-! ### Non-vacuity

The triangle of shared-only peptides (`observed_peptides.py` docstring): `A`, `B`, `C` pairwise share a
strong peptide, `A` also has a weak peptide of its own that the cutoff 1/20 removes, `D` keeps a
peptide of its own, `E` (in the first pass grouped with `D`'s neighbour `F`) keeps nothing.
The three recorded cuts are the ones networkx returned for this graph (all three are rejected: each
would leave a single protein node alone). -/

private def exPil : List PepInfo :=
  [⟨"PEPA", 1/1000, ["A", "B"]⟩, ⟨"PEPB", 1/1000, ["B", "C"]⟩, ⟨"PEPC", 1/1000, ["A", "C"]⟩,
   ⟨"PEPD", 1/10000, ["D"]⟩, ⟨"PEPE", 1/2, ["A"]⟩, ⟨"PEPF", 1/5, ["E", "F"]⟩]
private def exN : Groups := [["A"], ["B"], ["C"], ["D"]]
private def exOld : List (List String × Unit) := [(["A"], ()), (["B"], ()), (["C"], ()), (["D"], ()), (["E", "F"], ())]
private def exNodes : List String := ["A", "B", "C", "peptide:A;B", "peptide:A;C", "peptide:B;C"]
private def exCuts : CutMap :=
  [((exNodes, "A", "B"), ["peptide:A;B", "peptide:B;C"]),
   ((exNodes, "A", "C"), ["peptide:A;C", "peptide:B;C"]),
   ((exNodes, "B", "C"), ["peptide:A;C", "peptide:B;C"])]

/-- the run succeeds, merges the triangle, keeps `D`, keeps `E;F` as a remnant and turns the four
    absorbed first-pass groups into placeholders -/
example : (rescueGroupsN exN exOld exPil (1/20) exCuts).toOption.map
    (fun o => (o.rescued, o.groups, o.obsolete)) =
    some ([["A", "B", "C"], ["D"]], [["A", "B", "C"], ["D"], ["E", "F"]],
      [["OBSOLETE__A"], ["OBSOLETE__B"], ["OBSOLETE__C"], ["OBSOLETE__D"]]) := by decide +kernel

/-- hypotheses of `rescue_partition`, `rescue_no_protein_twice`, `remnants_exact`, … -/
example : exN.flatten.Nodup ∧ (exOld.map (·.1)).flatten.Nodup ∧
    ∀ p ∈ exN.flatten, p ∈ (exOld.map (·.1)).flatten := by decide +kernel

/-- hypothesis of `never_merges_identified`: `D` has a peptide of its own below the cutoff -/
example : HasOwnPeptide (filterByCutoff exPil (1/20)) ["D"] :=
  ⟨⟨"PEPD", 1/10000, ["D"]⟩, by decide +kernel, by decide, by decide⟩

/-- hypotheses of `rescue_trivial_when_unshared_partial` on a list without shared peptides -/
example : (∀ x ∈ filterByCutoff [⟨"P1", 1/1000, ["A"]⟩, ⟨"P2", 1/100, ["B"]⟩, ⟨"P3", 1/2, ["A", "B"]⟩] (1/20),
      ∃ p, x.proteins = [p]) ∧
    (∀ g ∈ [["A"], ["B"]], ∃ p ∈ g, ∃ x ∈ filterByCutoff
      [⟨"P1", 1/1000, ["A"]⟩, ⟨"P2", 1/100, ["B"]⟩, ⟨"P3", 1/2, ["A", "B"]⟩] (1/20), p ∈ x.proteins) := by
  have hf : filterByCutoff [⟨"P1", 1/1000, ["A"]⟩, ⟨"P2", 1/100, ["B"]⟩, ⟨"P3", 1/2, ["A", "B"]⟩] (1/20) =
      [⟨"P1", 1/1000, ["A"]⟩, ⟨"P2", 1/100, ["B"]⟩] := by decide +kernel
  rw [hf]
  constructor
  · intro x hx
    simp only [List.mem_cons, List.not_mem_nil, or_false] at hx
    rcases hx with rfl | rfl
    · exact ⟨"A", rfl⟩
    · exact ⟨"B", rfl⟩
  · intro g hg
    simp only [List.mem_cons, List.not_mem_nil, or_false] at hg
    rcases hg with rfl | rfl
    · exact ⟨"A", by simp, ⟨"P1", 1/1000, ["A"]⟩, by simp, by simp⟩
    · exact ⟨"B", by simp, ⟨"P2", 1/100, ["B"]⟩, by simp, by simp⟩

private def exEdges : List (String × String) :=
  [("A", "peptide:A;B"), ("A", "peptide:A;C"), ("B", "peptide:A;B"), ("B", "peptide:B;C"),
   ("C", "peptide:B;C"), ("C", "peptide:A;C")]
private def exComp : List String := ["A", "peptide:A;B", "peptide:A;C", "B", "C", "peptide:B;C"]

private theorem exEdges_eq : edges exN (filterByCutoff exPil (1/20)) = exEdges := by decide +kernel
private theorem exProt_eq : protNodes exN (filterByCutoff exPil (1/20)) = ["A", "B", "C"] := by decide +kernel
/-- the graph of the example has one connected component -/
private theorem exComps_eq :
    comps (edges exN (filterByCutoff exPil (1/20))) (allNodes exN (filterByCutoff exPil (1/20))) = [exComp] := by
  decide +kernel

/-- the triangle is inseparable: whichever pseudo-peptide nodes are removed, a part of one node
    remains or the rest stays connected -/
example : ¬ SeparableSet (edges exN (filterByCutoff exPil (1/20)))
    (fun x => decide (x ∈ protNodes exN (filterByCutoff exPil (1/20)))) exComp := by
  intro hsem
  have hsep := separable_of_separableSet _ _ _ hsem
  revert hsep
  rw [exEdges_eq, exProt_eq]
  rintro ⟨cut, _, hcut, h2, hparts⟩
  have hA : "A" ∉ cut := fun h => by have := (hcut _ h).2; revert this; decide
  have hB : "B" ∉ cut := fun h => by have := (hcut _ h).2; revert this; decide
  have hC : "C" ∉ cut := fun h => by have := (hcut _ h).2; revert this; decide
  by_cases h1 : "peptide:A;B" ∈ cut <;> by_cases h2' : "peptide:A;C" ∈ cut <;> by_cases h3 : "peptide:B;C" ∈ cut
  all_goals
    simp only [exComp, List.filter, hA, hB, hC, h1, h2', h3, not_true_eq_false, not_false_eq_true,
      decide_true, decide_false] at h2 hparts
  all_goals first
    | (revert h2; decide +kernel)
    | (revert hparts; decide +kernel)

/-- hypotheses `hc`, `hl`, `hlp` of `inseparable_is_merged` -/
example : exComp ∈ comps (edges exN (filterByCutoff exPil (1/20))) (allNodes exN (filterByCutoff exPil (1/20))) ∧
    "A" ∈ exComp ∧ "A" ∈ protNodes exN (filterByCutoff exPil (1/20)) := by
  rw [exComps_eq, exProt_eq]; decide

/-- `rescue_score_spec` on rows where one q-value equals the threshold (not accepted) -/
example : rescueScore [(4, 1/100), (3, 1/50), (2, 1/20), (1, 1/2)] (1/20) = some 3 := by decide +kernel
example : rescueScore [(4, 1/100), (3, 1/50)] (1/1000) = some 3 := by decide +kernel

/-! ## The last sentence on the composed model of `get_protein_group_results`

"When no peptide is shared between proteins the rescue pass reports exactly the groups, scores and
q-values that plain subset grouping reports."

`Pipeline.run cfg inp` (Model/Pipeline.lean) is the composed model the driver op `pipeline` executes and
`harness/pipeline.py` compares with the real function field by field.  The theorems below compare TWO runs
on the same peptide list: `cfg` with `grouping = rescuedSubset` (two passes: four recorded shuffles, a
recorded cut map, a recorded float cutoff, two recorded score vectors) and the same configuration with
`grouping = subset` (one pass: two recorded shuffles, one score vector).  Everything recorded is quantified
independently for the two runs (`inp`, `inpS` share only `pil` and the razor keys).

Hypotheses and why they are there
* `hun : Unshared inp.pil` — "no peptide is shared between proteins": no peptide lists two different
  proteins (a protein may be listed repeatedly).
* `hkeys` — the peptide list is a `dict` (unique keys); needed by the subset-grouping theorems of C03.
* `hsc2`, `hscS` — the recorded float scores are a function `sc` of a group's evidence list, the same in
  both runs (`calculate_score` is; the harness checks `score = −log10(min PEP + tiny)` on every case).
* `hdist` — "pairwise distinct scores": among the groups of the plain run that have evidence.  With tied
  scores the two runs draw the tie order from different shuffles; with a picked strategy a tie between a
  target and its decoy then even changes WHICH of the two survives, so only `…_ties_partial` holds.
* `hnoobs` (picked-group strategies only) — no input identifier contains the reserved marker `OBSOLETE__`.
  The second competition of a picked-group method also ranks one placeholder `OBSOLETE__p` per first-pass
  group that kept a peptide (`add_unseen_protein_groups` creates one even for a group that is re-created
  identically); it ties with `p` and is sorted behind it only because `p` itself is not a placeholder. -/

open Pipeline in
/-- "… the rescue pass reports exactly the groups, scores and q-values that plain subset grouping
    reports" — for the ranking handed to the report: when the scores of the groups with evidence are
    pairwise distinct, the ranking of the rescue pass (groups, their evidence, scores — as a LIST, so also
    the order), the FDR estimates and the q-values are those of the plain subset-grouping run, whatever
    shuffles, cuts and cutoff the two runs recorded.  In particular every placeholder is removed by the
    second competition. -/
theorem rescue_trivial_when_unshared (cfg : Config) (inp inpS : Input) (r rS : Result) (p2 : PassOut)
    (sc : List Evidence → Rat)
    (hcfg : cfg.grouping = .rescuedSubset)
    (hrun : run cfg inp = .ok r) (hrunS : run { cfg with grouping := .subset } inpS = .ok rS)
    (hp2 : r.pass2 = some p2)
    (hpil : inpS.pil = inp.pil) (hrzk : inpS.razorKeys = inp.razorKeys)
    (hkeys : (inp.pil.map (·.peptide)).Nodup) (hun : Unshared inp.pil)
    (hnoobs : isPickedGroup cfg.mode = true →
      ∀ x ∈ inp.pil, ∀ p ∈ x.proteins, strContains p "OBSOLETE__" = false)
    (hsc2 : inp.scores2 = p2.compInfos.map sc) (hscS : inpS.scores1 = rS.pass1.compInfos.map sc)
    (hdist : (((zipItems rS.pass1.compGroups rS.pass1.compInfos inpS.scores1).filter
      (·.hasEvidence)).map (·.score)).Nodup) :
    p2.ranking = rS.pass1.ranking ∧ p2.fdrs = rS.pass1.fdrs ∧ p2.qvals = rS.pass1.qvals := by
  obtain ⟨G1, G2, X, h⟩ := unsharedRuns cfg inp inpS r rS p2 sc hcfg hrun hrunS hp2 hpil hrzk hkeys hun hsc2 hscS
  exact unshared_ranking_eq cfg inp inpS p2 rS.pass1 sc G1 G2 X h hnoobs hdist

open Pipeline in
/-- "… reports …": the rows.  The rescue pass counts peptides up to its PEP cutoff, the plain run up to
    `inf`; this changes the peptide-count column and — unless `keep_all_proteins` is set — drops the rows
    none of whose proteins has a peptide within the cutoff.  So, under the hypotheses above: the rows of the
    rescue run, with the count-derived columns left out (`rowCore`: proteins, best peptide, number of
    proteins, q-value, score, decoy and contaminant flags), are a SUB-LIST of the rows of the plain run (no
    row is added, changed or reordered), and they are the same list when `keep_all_proteins` is set. -/
theorem rescue_trivial_when_unshared_rows (cfg : Config) (inp inpS : Input) (r rS : Result) (p2 : PassOut)
    (sc : List Evidence → Rat)
    (hcfg : cfg.grouping = .rescuedSubset)
    (hrun : run cfg inp = .ok r) (hrunS : run { cfg with grouping := .subset } inpS = .ok rS)
    (hp2 : r.pass2 = some p2)
    (hpil : inpS.pil = inp.pil) (hrzk : inpS.razorKeys = inp.razorKeys) (hka : inpS.keepAll = inp.keepAll)
    (hkeys : (inp.pil.map (·.peptide)).Nodup) (hun : Unshared inp.pil)
    (hnoobs : isPickedGroup cfg.mode = true →
      ∀ x ∈ inp.pil, ∀ p ∈ x.proteins, strContains p "OBSOLETE__" = false)
    (hsc2 : inp.scores2 = p2.compInfos.map sc) (hscS : inpS.scores1 = rS.pass1.compInfos.map sc)
    (hdist : (((zipItems rS.pass1.compGroups rS.pass1.compInfos inpS.scores1).filter
      (·.hasEvidence)).map (·.score)).Nodup) :
    (r.rows.map rowCore).Sublist (rS.rows.map rowCore) ∧
      (inp.keepAll = true → r.rows.map rowCore = rS.rows.map rowCore) := by
  obtain ⟨G1, G2, X, h⟩ := unsharedRuns cfg inp inpS r rS p2 sc hcfg hrun hrunS hp2 hpil hrzk hkeys hun hsc2 hscS
  obtain ⟨-, -, hrowsS⟩ := runFacts_plain { cfg with grouping := .subset } inpS rS (by simp) hrunS
  obtain ⟨-, p2', -, -, hp2', -, -, -, -, hrows⟩ := runFacts_rescue cfg inp r hcfg hrun
  rw [hp2] at hp2'
  cases hp2'
  rw [hrows, hrowsS]
  exact unshared_rows cfg inp inpS p2 rS.pass1 sc G1 G2 X h hnoobs hdist hka

open Pipeline in
/-- Tied scores, run by run, as far as it is true of the code: with the classic strategy the two rankings hold
    the same (group, evidence, score) triples — equal as multisets; the order inside a tie (and with it the
    estimates of the tied groups) is drawn from different shuffles.
    Missing case (hence `_partial`): picked and picked-group strategies with tied scores.  There the
    run-by-run statement is false: if a target group and its decoy twin tie, the shuffle decides which of the
    two survives, and the two runs consume different shuffles; what holds is `rescue_trivial_when_unshared_ties`. -/
theorem rescue_trivial_when_unshared_ties_partial (cfg : Config) (inp inpS : Input) (r rS : Result) (p2 : PassOut)
    (sc : List Evidence → Rat)
    (hcfg : cfg.grouping = .rescuedSubset) (hmode : cfg.mode = .classic)
    (hrun : run cfg inp = .ok r) (hrunS : run { cfg with grouping := .subset } inpS = .ok rS)
    (hp2 : r.pass2 = some p2)
    (hpil : inpS.pil = inp.pil) (hrzk : inpS.razorKeys = inp.razorKeys)
    (hkeys : (inp.pil.map (·.peptide)).Nodup) (hun : Unshared inp.pil)
    (hsc2 : inp.scores2 = p2.compInfos.map sc) (hscS : inpS.scores1 = rS.pass1.compInfos.map sc) :
    p2.ranking.Perm rS.pass1.ranking := by
  obtain ⟨G1, G2, X, h⟩ := unsharedRuns cfg inp inpS r rS p2 sc hcfg hrun hrunS hp2 hpil hrzk hkeys hun hsc2 hscS
  exact unshared_classic_perm cfg inp inpS p2 rS.pass1 sc G1 G2 X h hmode

open Pipeline in
/-- The same sentence with TIED scores allowed, every strategy: whatever the rescue run's shuffles were, the
    ranking of its second pass is a ranking the plain run's competition produces — there are shuffles
    `π₁' π₂'` of the plain run's own competition input for which `do_competition` returns exactly that list
    (and the estimates and q-values are the function `calculate_protein_fdrs` of the ranking in both runs).
    "Equal up to the tie order, which the shuffles draw."  The converse inclusion (every outcome of the plain
    run is an outcome of the rescue run) is not proved. -/
theorem rescue_trivial_when_unshared_ties (cfg : Config) (inp inpS : Input) (r rS : Result) (p2 : PassOut)
    (sc : List Evidence → Rat)
    (hcfg : cfg.grouping = .rescuedSubset)
    (hrun : run cfg inp = .ok r) (hrunS : run { cfg with grouping := .subset } inpS = .ok rS)
    (hp2 : r.pass2 = some p2)
    (hpil : inpS.pil = inp.pil) (hrzk : inpS.razorKeys = inp.razorKeys)
    (hkeys : (inp.pil.map (·.peptide)).Nodup) (hun : Unshared inp.pil)
    (hnoobs : isPickedGroup cfg.mode = true →
      ∀ x ∈ inp.pil, ∀ p ∈ x.proteins, strContains p "OBSOLETE__" = false)
    (hsc2 : inp.scores2 = p2.compInfos.map sc) (hscS : inpS.scores1 = rS.pass1.compInfos.map sc) :
    (∃ π₁' π₂', C02.ShufflesOK cfg.mode (zipItems rS.pass1.compGroups rS.pass1.compInfos inpS.scores1) π₁' π₂' ∧
      C02.doCompetition cfg.mode (zipItems rS.pass1.compGroups rS.pass1.compInfos inpS.scores1) π₁' π₂' =
        p2.ranking) ∧
    C01.calcProteinFdrs (p2.ranking.map (·.group)) (p2.ranking.map (·.score)) = .ok (p2.fdrs, p2.qvals) ∧
    C01.calcProteinFdrs (rS.pass1.ranking.map (·.group)) (rS.pass1.ranking.map (·.score)) =
      .ok (rS.pass1.fdrs, rS.pass1.qvals) := by
  obtain ⟨G1, G2, X, h⟩ := unsharedRuns cfg inp inpS r rS p2 sc hcfg hrun hrunS hp2 hpil hrzk hkeys hun hsc2 hscS
  exact ⟨unshared_ties cfg inp inpS p2 rS.pass1 sc G1 G2 X h hnoobs, h.facts2.fdrs, h.factsS.fdrs⟩

/-! ### Non-vacuity of the end-to-end theorems

A picked-group run on three proteins without shared peptides: `A` (PEP 1/1000), `B` (1/10) and the decoy
`REV__A` (1/100).  First pass: `REV__A` loses against `A`; q-values 1/3, 1/3; threshold 1/2 accepts both, the
rescue score is −1/10.  The recorded cutoff 1/20 keeps `PEPA` and `PEPR`: the rescue stage re-creates `[A]` and
`[REV__A]`, `[B]` is a remnant, and TWO placeholders `OBSOLETE__A`, `OBSOLETE__REV__A` enter the second
competition (five groups, shuffle `[0,3,1,4,2]`), which removes both.  The recorded shuffles put the lists in
sorted order (`mergeSort` does not reduce in the kernel; `keptFrom_sorted`, `competeFrom_sorted`,
`cutoff_sorted`).  Scores are the executable best-PEP key `−min PEP`.  The data (`demoPil`, `demoCfg`, `demoInp`,
`demoInpS`) and the evaluation of the two runs (`demo_run`, `demo_runS`) are in `Proofs/C04Unshared.lean`. -/

section EndToEndExample
open Pipeline

/-- every hypothesis of `rescue_trivial_when_unshared` holds on the two runs (both succeed: `demo_run`,
    `demo_runS`; scores distinct; no identifier contains `OBSOLETE__`) -/
example : demoPass2.ranking = demoResS.pass1.ranking ∧ demoPass2.fdrs = demoResS.pass1.fdrs ∧ demoPass2.qvals = demoResS.pass1.qvals :=
  rescue_trivial_when_unshared demoCfg demoInp demoInpS demoRes demoResS demoPass2 C05.bestPepKey rfl demo_run demo_runS rfl rfl rfl
    (by decide) (by unfold Unshared; decide) (fun _ => by decide +kernel) (by decide +kernel) (by decide +kernel)
    (by decide +kernel)


/-- … and the rows (`keep_all_proteins` off): here no row is dropped, `B`'s PEP is within the cutoff 1/10 -/
example : (demoRes.rows.map rowCore).Sublist (demoResS.rows.map rowCore) ∧
    (demoInp.keepAll = true → demoRes.rows.map rowCore = demoResS.rows.map rowCore) :=
  rescue_trivial_when_unshared_rows demoCfg demoInp demoInpS demoRes demoResS demoPass2 C05.bestPepKey rfl demo_run demo_runS rfl rfl rfl rfl
    (by decide) (by unfold Unshared; decide) (fun _ => by decide +kernel) (by decide +kernel) (by decide +kernel)
    (by decide +kernel)

/-- `rescue_trivial_when_unshared_ties` on the same two runs -/
example : ∃ π₁' π₂', C02.ShufflesOK demoCfg.mode (zipItems demoResS.pass1.compGroups demoResS.pass1.compInfos demoInpS.scores1) π₁' π₂' ∧
    C02.doCompetition demoCfg.mode (zipItems demoResS.pass1.compGroups demoResS.pass1.compInfos demoInpS.scores1) π₁' π₂' = demoPass2.ranking :=
  (rescue_trivial_when_unshared_ties demoCfg demoInp demoInpS demoRes demoResS demoPass2 C05.bestPepKey rfl demo_run demo_runS rfl rfl rfl
    (by decide) (by unfold Unshared; decide) (fun _ => by decide +kernel) (by decide +kernel) (by decide +kernel)).1

/-! A classic run on two proteins with TIED scores (`A`, `B`, both PEP 1/100): the rescue run's second
competition draws the shuffle `[1,0]`, the plain run `[0,1]`. -/

private def tPil : List PepInfo := [⟨"PEPA", 1/100, ["A"]⟩, ⟨"PEPB", 1/100, ["B"]⟩]
private def tCfg : Config := ⟨.rescuedSubset, false, .classic⟩
private def tInp : Input where
  pil := tPil
  thr := 1/2
  psm := 1/100
  keepAll := false
  shuffles := [[0,1],[0,1],[1,0],[0,1]]
  cuts := []
  razorKeys := []
  scores1 := [-1/100, -1/100]
  scores2 := [-1/100, -1/100]
  rescueCutoff := some (1/50)
private def tInpS : Input where
  pil := tPil
  thr := 1/100
  psm := 1/100
  keepAll := false
  shuffles := [[0,1],[0,1]]
  cuts := []
  razorKeys := []
  scores1 := [-1/100, -1/100]
  scores2 := []
  rescueCutoff := none

private def fA : List Evidence := [⟨1/100, "PEPA", ["A"]⟩]
private def fB : List Evidence := [⟨1/100, "PEPB", ["B"]⟩]
private def jA : C02.Item := ⟨["A"], fA, -1/100⟩
private def jB : C02.Item := ⟨["B"], fB, -1/100⟩
private def rowA (q : Rat) : C06.RowData := ⟨["A"], ["A"], [1], "PEPA", 1, q, -1/100, false, false⟩
private def rowB (q : Rat) : C06.RowData := ⟨["B"], ["B"], [1], "PEPB", 1, q, -1/100, false, false⟩

/-- one pass of the tie example: first shuffle `π`, ranking `rk` (`[A, B]` or `[B, A]`) -/
private def tPass (rk : List C02.Item) (rows : List C06.RowData) : PassOut where
  groups := [["A"], ["B"]]
  infos := [fA, fB]
  pepList := [1/100, 1/100]
  pepCutoff := 1
  compGroups := [["A"], ["B"]] ++ ([] : List (List String × List Evidence)).map (·.1)
  compInfos := [fA, fB] ++ ([] : List (List String × List Evidence)).map (·.2)
  minPeps := ([fA, fB] ++ ([] : List (List String × List Evidence)).map (·.2)).map C05.minPep
  ranking := rk
  fdrs := [1/2, 1/3]
  qvals := [1/3, 1/3]
  rows := rows

private theorem tie_pass (cfg : Config) (inp : Input) (rs : Bool) (π : List Nat) (rk : List C02.Item)
    (rows : List C06.RowData)
    (hm : cfg.mode = .classic) (hr : cfg.razor = false)
    (hp : inp.pil = tPil) (hpsm : inp.psm = 1/100) (hka : inp.keepAll = false)
    (hπ : (π = [0,1] ∧ rk = [jA, jB] ∧ rows = [rowA (1/3), rowB (1/3)]) ∨
          (π = [1,0] ∧ rk = [jB, jA] ∧ rows = [rowB (1/3), rowA (1/3)])) :
    runPassFrom cfg inp [] [["A"], ["B"]] [] rs [-1/100, -1/100] π [0,1] = .ok (tPass rk rows, []) := by
  have hfilt : (zipItems ([["A"], ["B"]] ++ ([] : List (List String × List Evidence)).map (·.1))
      ([fA, fB] ++ ([] : List (List String × List Evidence)).map (·.2)) [-1/100, -1/100]).filter (·.hasEvidence) =
      [jA, jB] := by decide +kernel
  have hsh : C02.shuffle [jA, jB] π = rk := by
    rcases hπ with ⟨rfl, rfl, _⟩ | ⟨rfl, rfl, _⟩ <;> decide +kernel
  have hrk : rk = [jA, jB] ∨ rk = [jB, jA] := by
    rcases hπ with ⟨_, h, _⟩ | ⟨_, h, _⟩
    · exact Or.inl h
    · exact Or.inr h
  have h1 : (C02.shuffle ((zipItems ([["A"], ["B"]] ++ ([] : List (List String × List Evidence)).map (·.1))
      ([fA, fB] ++ ([] : List (List String × List Evidence)).map (·.2)) [-1/100, -1/100]).filter (·.hasEvidence)) π).Pairwise
      (fun a b => C02.le1 a b = true) := by
    rw [hfilt, hsh]; rcases hrk with rfl | rfl <;> decide +kernel
  have hpass : C02.pass (C02.strategy .classic) C02.contam [] rk = rk := by
    rcases hrk with rfl | rfl <;> decide +kernel
  have hsh2 : C02.shuffle rk [0,1] = rk := by
    rcases hrk with rfl | rfl <;> decide +kernel
  refine runPassFrom_eval cfg inp [] _ [] rs _ _ _ [fA, fB] [1/100, 1/100] 1 rk [] [1/2, 1/3] [1/3, 1/3]
    rows ?_ ?_ ?_ ?_ ?_ ?_ ?_ ?_ ?_
  · rw [hp]; simp only [razorOf, hr, Bool.false_eq_true, if_false]; cases rs <;> decide +kernel
  · rw [hpsm, cutoff_sorted _ _ (by decide +kernel)]; decide +kernel
  · decide +kernel
  · decide +kernel
  · unfold C02.shufflesFit
    simp only [hm]
    rw [keptFrom_sorted _ _ _ _ h1, hfilt, hsh, hpass]
    rcases hπ with ⟨rfl, rfl, _⟩ | ⟨rfl, rfl, _⟩ <;> decide +kernel
  · rw [hm, competeFrom_sorted _ _ _ _ _ h1 (by rw [hfilt, hsh, hpass, hsh2]; rcases hrk with rfl | rfl <;> decide +kernel),
      hfilt, hsh, hpass, hsh2]
    rcases hrk with rfl | rfl <;> decide +kernel
  · rcases hrk with rfl | rfl <;> rfl
  · rcases hrk with rfl | rfl <;> decide +kernel
  · rw [hka]
    rcases hπ with ⟨_, rfl, rfl⟩ | ⟨_, rfl, rfl⟩ <;> cases rs <;> decide +kernel


private def tOut : RescueOut (List Evidence) where
  filtered := tPil
  rescued := [["A"], ["B"]]
  groups := [["A"], ["B"]]
  obsolete := [["OBSOLETE__A"], ["OBSOLETE__B"]]
  obsoleteInfos := [fA, fB]

private theorem tie_rescue : rescueGroups ([["A"], ["B"]].zip [fA, fB]) tPil (1/50) [] = .ok tOut := by
  have ha : (rescueGroups ([["A"], ["B"]].zip [fA, fB]) tPil (1/50) []).toOption.map
      (fun o => (o.filtered, o.rescued, o.groups)) = some (tOut.filtered, tOut.rescued, tOut.groups) := by
    decide +kernel
  have hb : (rescueGroups ([["A"], ["B"]].zip [fA, fB]) tPil (1/50) []).toOption.map
      (fun o => (o.obsolete, o.obsoleteInfos)) = some (tOut.obsolete, tOut.obsoleteInfos) := by
    decide +kernel
  cases hr : rescueGroups ([["A"], ["B"]].zip [fA, fB]) tPil (1/50) [] with
  | error e => rw [hr] at ha; cases ha
  | ok out =>
    rw [hr] at ha hb
    simp only [Except.toOption, Option.map_some, Option.some.injEq, Prod.mk.injEq] at ha hb
    obtain ⟨h1, h2, h3⟩ := ha
    obtain ⟨h4, h5⟩ := hb
    cases out
    simp only at h1 h2 h3 h4 h5
    subst h1 h2 h3 h4 h5
    rfl

private def tP1 : PassOut := tPass [jA, jB] [rowA (1/3), rowB (1/3)]
private def tP2 : PassOut := tPass [jB, jA] [rowB (1/3), rowA (1/3)]

private def tR : Result where
  pass1 := tP1
  rescueScore := some (-1/100)
  rescue := some tOut
  pass2 := some tP2
  rows := [rowB (1/3), rowA (1/3)]

private def tRS : Result where
  pass1 := tP1
  rescueScore := none
  rescue := none
  pass2 := none
  rows := [rowA (1/3), rowB (1/3)]

private theorem tie_run : run tCfg tInp = .ok tR := by
  have hG : firstGrouping tCfg tInp.pil = [["A"], ["B"]] := by decide +kernel
  have h1 : runPassFrom tCfg tInp [] (firstGrouping tCfg tInp.pil) [] false tInp.scores1 (shuffleAt tInp 0)
      (shuffleAt tInp 1) = .ok (tP1, []) := by
    rw [hG]; exact tie_pass tCfg tInp false [0,1] _ _ rfl rfl rfl rfl rfl (Or.inl ⟨rfl, rfl, rfl⟩)
  have hs : rescueScore (tP1.rows.map (fun r => (r.score, r.qValue))) tInp.thr = some (-1/100) := by decide +kernel
  have hc : tInp.rescueCutoff = some (1/50) := rfl
  have hgr : tCfg.grouping = .rescuedSubset := rfl
  have hr : rescueGroups (tP1.groups.zip tP1.infos) tInp.pil (1/50) tInp.cuts = .ok tOut := tie_rescue
  have hpk : isPickedGroup tCfg.mode = false := rfl
  have h2 : runPassFrom tCfg tInp [] tOut.groups [] true tInp.scores2
      (shuffleAt tInp 2) (shuffleAt tInp 3) = .ok (tP2, []) :=
    tie_pass tCfg tInp true [1,0] _ _ rfl rfl rfl rfl rfl (Or.inr ⟨rfl, rfl, rfl⟩)
  unfold run runFrom
  simp only [h1, hgr, hs, hc, hr, hpk, h2, ne_eq, not_true_eq_false, if_false, Bool.false_eq_true]
  rfl

private theorem tie_runS : run { tCfg with grouping := .subset } tInpS = .ok tRS := by
  have hG : firstGrouping { tCfg with grouping := .subset } tInpS.pil = [["A"], ["B"]] := by decide +kernel
  have h1 : runPassFrom { tCfg with grouping := .subset } tInpS [] (firstGrouping { tCfg with grouping := .subset } tInpS.pil)
      [] false tInpS.scores1 (shuffleAt tInpS 0) (shuffleAt tInpS 1) = .ok (tP1, []) := by
    rw [hG]; exact tie_pass _ tInpS false [0,1] _ _ rfl rfl rfl rfl rfl (Or.inl ⟨rfl, rfl, rfl⟩)
  unfold run runFrom
  simp only [h1, ne_eq, reduceCtorEq, not_false_eq_true, if_true]
  rfl

/-- the two rankings are rearrangements of each other (`rescue_trivial_when_unshared_ties_partial`) but NOT
    equal: the hypothesis `hdist` of `rescue_trivial_when_unshared` cannot be dropped -/
example : tP2.ranking.Perm tRS.pass1.ranking ∧ tP2.ranking ≠ tRS.pass1.ranking :=
  ⟨rescue_trivial_when_unshared_ties_partial tCfg tInp tInpS tR tRS tP2 C05.bestPepKey rfl rfl tie_run tie_runS rfl rfl rfl
    (by decide) (by unfold Unshared; decide) (by decide +kernel) (by decide +kernel), by decide +kernel⟩


end EndToEndExample

end PgFdr.C04
