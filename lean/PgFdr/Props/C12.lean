import PgFdr.Proofs.C12
import PgFdr.Proofs.C12Design
import PgFdr.Proofs.C12Columns
import PgFdr.Proofs.C17
import PgFdr.Proofs.CliQuant
import PgFdr.Proofs.CliQuantDemo
import PgFdr.Proofs.CliQuantHeaders
import Mathlib.Data.Finset.Card
import Mathlib.Data.List.Dedup
import Mathlib.Data.Finset.Dedup

/-!
# C12 — intensity, iBAQ, count, ID-type columns equal recomputation from precursors

Property text (properties.jsonl): "Each quantified evidence row is attached to exactly the one
reported protein group containing all of its proteins (rows mapping to several groups or to none
are left out), and a precursor is used only if some PSM of the same peptide and charge in that
group passes the PSM-level PEP cutoff (match-between-runs rows ride along with identified
precursors). Per group and experiment the summed intensity, iBAQ (intensity divided by the leading
protein's theoretical peptide number, at least 1), unique-peptide counts, identification type and
evidence IDs equal a direct recomputation from those precursors, the total intensity is the sum
over experiments, and over all groups no evidence row is counted twice."

Only property theorems live here.  The executable model (`quantify`, `quantifyWith` and the loop
functions they are composed of) is `PgFdr/Model/C12.lean`; it is what the driver op `quant` runs and
what `harness/props/C12.py` compares with `quant/maxquant.py:add_precursor_quants`,
`writers/base.py:append_quant_columns` and the column classes.  Helper lemmas and the auxiliary
predicates `counted`, `chan`, `hit`, `identifiedIn`, `entersGroup`, `rowCounted` are in
`PgFdr/Proofs/C12.lean`; `CliQuant.covers` / `coveredFraction` (closed form of the sequence coverage) in
`Proofs/CliQuant.lean`; `CliQuant.cellUnder` (the cell under a header string) and `CliQuant.outputTable` in
`Model/CliQuant.lean`.
The remapping of evidence rows through `helpers.remove_modifications` + the digest map (`evidenceRows`, `remapRow`,
`quantifyFiles`) and the column pipeline of `append_quant_columns` (`writerSegments`, `c12Cells`, `runSt`) are
`PgFdr/Model/C12Columns.lean` (last two sections of this file; helper lemmas in `Proofs/C12Columns.lean`).
Uniform-layout hypotheses: the channel numbers of a run are those of the FIRST parsed row while every row carries the
SILAC / reporter values of its own file, and several `--mq_evidence` files with different headers are a legal input.
The theorems that need "no row has more SILAC values than the first" (`conservation`, `intensity_recompute`,
`intensity_by_name`, `conservation_design`, `cells_under_named_headers`, `design_cells_under_named_headers`,
`cli_quant_columns_recompute`) or "every row has the first row's reporter columns" (`tmt_recompute`,
`cli_quant_columns_recompute`) say so in their doc comments; what the model — like the code — does without them is
`mixed_layout_refusals`, `intensity_slot_mixed`, `uniform_layout_accepted`.  `c` is the PEP cutoff (`cutoffOf` = `C17.cutoff` of the PEP list in the
composed run); the per-column theorems hold for every `c`.
-/
namespace PgFdr.C12
open PgFdr.C17 (PepVal)

/-! ## the composed run is made of the functions the theorems below are about -/

/-- the run succeeds exactly when `get_silac_channels` accepts the number of SILAC columns of the first parsed row
    and no column loop raises on rows of a different SILAC / reporter layout (`layoutError`, see
    `mixed_layout_refusals`); then it is `quantifyWith` for that number of channels -/
theorem quantify_ok (rows : List Row) (groups : List (List String)) (level : Rat)
    (ibaq : List (String × Nat)) (o : Output) :
    quantify rows groups level ibaq = .ok o ↔
      ∃ S, silacChannels (nSilac rows) = .ok S ∧
        layoutError S (quantifyWith S rows groups level ibaq) = none ∧
        o = quantifyWith S rows groups level ibaq := by
  unfold quantify
  cases silacChannels (nSilac rows) with
  | error e => simp
  | ok S =>
    simp only [Except.ok.injEq, exists_eq_left', checked_ok]

/-- the reported rows after quantification are the groups with at least one attached precursor, in
    the reported order; the precursor list of each is the identified-precursor filter of its attached
    rows, and every column is the corresponding loop function applied to that list with the run's
    experiment list and PEP cutoff -/
theorem output_groups (S : Nat) (rows : List Row) (groups : List (List String)) (level : Rat)
    (ibaq : List (String × Nat)) :
    (quantifyWith S rows groups level ibaq).groups =
      ((List.range groups.length).filter (fun g => !(attached rows groups g).isEmpty)).map (fun g =>
        let c := cutoffOf rows groups level
        let exps := experiments rows
        let quants := retain c (attached rows groups g)
        { ids := groups.getD g []
          quants := quants
          counts := peptideCounts exps c quants
          idType := idTypes exps c quants
          total := totalOf S (intensities exps S c quants)
          intens := intensities exps S c quants
          nPeps := (groups.getD g []).map (nPepsOf ibaq)
          ibaqTotal := totalOf S (intensities exps S c quants) / (leadingN ibaq (groups.getD g []) : Nat)
          ibaq := (intensities exps S c quants).map (· / (leadingN ibaq (groups.getD g []) : Nat))
          tmt := if nTmt rows > 0 then tmtSums exps (nTmt rows).toNat c quants else []
          evidenceIds := evidenceIds c quants }) := rfl

/-! ## attachment -/

/-- "Each quantified evidence row is attached to exactly the one reported protein group containing
    all of its proteins (rows mapping to several groups or to none are left out)":
    a row is among the precursors of reported group `g` iff the parser yields it and the set of
    group positions of its proteins is exactly `{g}` — i.e. it has a protein and every protein is
    listed by group `g` in the index -/
theorem attach_unique (rows : List Row) (groups : List (List String)) (g : Nat) (r : Row) :
    r ∈ attached rows groups g ↔
      r ∈ rows ∧ prots r ≠ [] ∧ ∀ p ∈ prots r, idxOf groups p = some g := by
  rw [mem_attached, mem_parsed, idxSet_eq_singleton]
  tauto

/-- … "the one reported protein group containing all of its proteins": when no protein is listed
    by two reported groups, the index lookup is membership, so a row is attached to `g` iff all of
    its proteins are members of the `g`-th reported group -/
theorem attach_contains_all (rows : List Row) (groups : List (List String)) (g : Nat) (r : Row)
    (hdisj : ∀ (i j : Nat) (gi gj : List String) (p : String), groups[i]? = some gi → groups[j]? = some gj → p ∈ gi → p ∈ gj → i = j) :
    r ∈ attached rows groups g ↔
      r ∈ rows ∧ prots r ≠ [] ∧ ∃ grp, groups[g]? = some grp ∧ ∀ p ∈ prots r, p ∈ grp := by
  rw [attach_unique]
  constructor
  · rintro ⟨h1, h2, h3⟩
    refine ⟨h1, h2, ?_⟩
    obtain ⟨p0, hp0⟩ := List.exists_mem_of_ne_nil _ h2
    obtain ⟨grp, hg, _⟩ := lastIdx_some _ groups g (h3 p0 hp0)
    refine ⟨grp, hg, ?_⟩
    intro p hp
    obtain ⟨grp', hg', hc⟩ := lastIdx_some _ groups g (h3 p hp)
    rw [hg] at hg'
    cases hg'
    simpa using hc
  · rintro ⟨h1, h2, grp, hg, h3⟩
    refine ⟨h1, h2, ?_⟩
    intro p hp
    apply lastIdx_of_unique _ groups g grp hg (by simpa using h3 p hp)
    intro j b hb hc
    exact hdisj j g b grp p hb hg (by simpa using hc) (h3 p hp)

/-- "over all groups no evidence row is counted twice": a row is attached to at most one group,
    and within a group the attached rows are a sub-list of the evidence rows (in file order, each
    occurrence at most once) -/
theorem no_row_twice (rows : List Row) (groups : List (List String)) :
    (∀ g g' r, r ∈ attached rows groups g → r ∈ attached rows groups g' → g = g') ∧
    (∀ g, (attached rows groups g).Sublist rows) := by
  constructor
  · intro g g' r h h'
    have h1 := ((mem_attached rows groups g r).mp h).2
    have h2 := ((mem_attached rows groups g' r).mp h').2
    rw [h1] at h2
    simpa using h2
  · intro g
    exact (List.filter_sublist).trans List.filter_sublist

/-! ## identified precursors -/

/-- "a precursor is used only if some PSM of the same peptide and charge in that group passes the
    PSM-level PEP cutoff (match-between-runs rows ride along with identified precursors)":
    a precursor survives the filter iff a row of the same group with the same peptide and charge has
    a PEP `<=` the cutoff (so the PSM at which the running mean crosses the level is itself inside);
    whether the surviving row is itself a match-between-runs row plays no role -/
theorem identified_filter (c : Rat) (quants : List Row) (q : Row) :
    q ∈ retain c quants ↔
      q ∈ quants ∧ ∃ q' ∈ quants, q'.peptide = q.peptide ∧ q'.charge = q.charge ∧ leCut q'.pep c = true :=
  mem_retain c quants q

/-- the filter keeps file order and multiplicity -/
theorem identified_filter_sublist (c : Rat) (quants : List Row) : (retain c quants).Sublist quants :=
  List.filter_sublist

/-! ## summed intensity, total, iBAQ -/

/-- "Per group and experiment the summed intensity … equal[s] a direct recomputation from those
    precursors": slot `e*(1+S)+k` of the flat intensity list (experiment position `e`, `k = 0` the
    experiment's `Intensity`, `k = j+1` its SILAC channel `j`) is the sum of that channel over the
    precursors of experiment `e` that carry an intensity (not NaN) and are match-between-runs rows or
    within the cutoff.
    UNIFORM-LAYOUT HYPOTHESIS `hs`: no precursor of the list carries more SILAC values than `S` (the number of the
    FIRST parsed row of the run).  It is necessary — evidence files with different `Intensity L/M/H` columns are read
    into one run, and a precursor with more values than `S` adds them to the slots of the FOLLOWING experiments;
    what every slot holds without the hypothesis is `intensity_slot_mixed`. -/
theorem intensity_recompute (exps : List String) (S : Nat) (c : Rat) (quants : List Row) (e k : Nat)
    (he : e < exps.length) (hk : k ≤ S) (hs : ∀ q ∈ quants, q.silac.length ≤ S) :
    (intensities exps S c quants).getD (e * (1 + S) + k) 0 =
      ((quants.filter (fun q => q.intensity.isSome && (isMbr q.pep || leCut q.pep c) &&
          (expIdx exps q.experiment == some e))).map
        (fun q => match k with
          | 0 => q.intensity.getD 0
          | j + 1 => q.silac.getD j 0)).sum := by
  rw [intensities_slot exps S c quants e k he hk hs]
  congr 1
  cases k <;> rfl

/-- "the total intensity is the sum over experiments" (of the experiments' `Intensity` slots, not of
    the SILAC channel slots) -/
theorem total_is_sum_of_experiments (exps : List String) (S : Nat) (c : Rat) (quants : List Row) :
    totalOf S (intensities exps S c quants) =
      ((List.range exps.length).map (fun e => (intensities exps S c quants).getD (e * (1 + S)) 0)).sum := by
  unfold totalOf
  rw [stride_eq S exps.length _ (by rw [length_intensities, Nat.add_comm])]
  simp only [Nat.add_comm S 1]

/-- "iBAQ (intensity divided by the leading protein's theoretical peptide number, at least 1)":
    in every reported row the iBAQ columns are the intensity columns divided by
    `max 1 n(first protein of the group)`, and the peptide numbers are looked up per member -/
theorem ibaq_def (S : Nat) (rows : List Row) (groups : List (List String)) (level : Rat)
    (ibaq : List (String × Nat)) :
    ∀ o ∈ (quantifyWith S rows groups level ibaq).groups,
      o.nPeps = o.ids.map (nPepsOf ibaq) ∧
      o.ibaqTotal = o.total / ((max 1 (o.nPeps.headD 0) : Nat) : Rat) ∧
      o.ibaq = o.intens.map (fun x => x / ((max 1 (o.nPeps.headD 0) : Nat) : Rat)) := by
  intro o ho
  rw [output_groups] at ho
  obtain ⟨g, _, rfl⟩ := List.mem_map.mp ho
  exact ⟨rfl, rfl, rfl⟩

/-! ## counts, identification type, evidence ids -/

/-- "unique-peptide counts … equal a direct recomputation": the combined count is the number of
    distinct (modified) peptides among the used precursors; the count of experiment position `e` is the
    number of distinct peptides among the used precursors of that experiment — peptides, not
    precursors: two charge states or two runs of one peptide count once -/
theorem counts_recompute (exps : List String) (c : Rat) (quants : List Row) :
    (peptideCounts exps c quants).getD 0 0 =
      ((quants.filter (used c)).map (·.peptide)).toFinset.card ∧
    ∀ e, e < exps.length →
      (peptideCounts exps c quants).getD (e + 1) 0 =
        ((quants.filter (fun q => used c q && (expIdx exps q.experiment == some e))).map
          (·.peptide)).toFinset.card := by
  have key : ∀ j, j < exps.length + 1 →
      (peptideCounts exps c quants).getD j 0 =
        ((quants.filter (hit exps c j)).map (·.peptide)).toFinset.card := by
    intro j hj
    obtain ⟨s, hs, hnd, hmem⟩ := peptideSets_slot exps c quants j hj
    unfold peptideCounts
    rw [List.getD_eq_getElem?_getD, List.getElem?_map, hs]
    simp only [Option.map_some, Option.getD_some]
    rw [← List.toFinset_card_of_nodup hnd]
    congr 1
    ext y
    simp only [List.mem_toFinset, hmem, List.mem_map]
  constructor
  · have h0 : hit exps c 0 = used c := funext fun _ => rfl
    rw [← h0]
    exact key 0 (by omega)
  · intro e he
    exact key (e + 1) (by omega)

/-- "identification type … equal[s] a direct recomputation": for experiment position `e` the type
    is "By MS/MS" if some precursor of that experiment is within the cutoff, otherwise "By matching"
    if one is a match-between-runs row, otherwise empty -/
theorem idtype_recompute (exps : List String) (c : Rat) (quants : List Row) (e : Nat)
    (he : e < exps.length) :
    (idTypes exps c quants).getD e "" =
      if quants.any (fun q => (expIdx exps q.experiment == some e) && leCut q.pep c) then "By MS/MS"
      else if quants.any (fun q => (expIdx exps q.experiment == some e) && isMbr q.pep) then "By matching"
      else "" := by
  unfold idTypes
  rw [foldl_idStep exps c e quants _ (by simpa using he)]
  have h0 : (List.replicate exps.length "").getD e "" = "" := by
    rw [List.getD_eq_getElem?_getD, List.getElem?_replicate]
    split <;> rfl
  rw [h0]
  simp only [idSem]
  have : ("" == byMsms) = false := by decide
  simp only [this, Bool.false_eq_true, if_false]
  rfl

/-- "evidence IDs equal a direct recomputation": the reported ids are exactly (with multiplicity)
    the ids of the used precursors, in ascending order -/
theorem evidence_ids_sorted_exact (c : Rat) (quants : List Row) :
    (evidenceIds c quants).Pairwise (· ≤ ·) ∧
    (evidenceIds c quants).Perm ((quants.filter (fun q => isMbr q.pep || leCut q.pep c)).map (·.id)) :=
  ⟨sortInts_sorted _, sortInts_perm _⟩

/-! ## TMT reporter sums, experiment list, PEP cutoff -/

/-- (TMT channels) slot `e*(3T)+k` of the reporter columns — experiment position `e`, `k`-th of the
    `3T` reporter columns of the evidence file — is the sum of that column over the used precursors of
    the experiment (NaN `Intensity` plays no role here).
    UNIFORM-LAYOUT HYPOTHESIS `ht`: every precursor of the list carries exactly `3*T` reporter values (`T` is fixed
    by the FIRST parsed row of the run).  Necessary: a precursor from a file with ONE reporter column is broadcast by
    numpy into all `3*T` cells (`vecAdd`, example `tmtBroadcast` below); every other length makes the real run fail
    (`mixed_layout_refusals`). -/
theorem tmt_recompute (exps : List String) (T : Nat) (c : Rat) (quants : List Row) (e k : Nat)
    (he : e < exps.length) (hk : k < 3 * T) (ht : ∀ q ∈ quants, q.tmt.length = 3 * T) :
    (tmtSums exps T c quants).getD (e * (3 * T) + k) 0 =
      ((quants.filter (fun q => (isMbr q.pep || leCut q.pep c) && (expIdx exps q.experiment == some e))).map
        (fun q => q.tmt.getD k 0)).sum := by
  unfold tmtSums
  have hinit : ∀ v ∈ List.replicate exps.length (List.replicate (3 * T) (0 : Rat)), v.length = 3 * T := by
    intro v hv
    rw [(List.mem_replicate.mp hv).2]; simp
  obtain ⟨h1, h2, h3⟩ := foldl_tmtStep exps c (3 * T) e k quants _ hinit ht (by simpa using he)
  rw [getD_flatten (3 * T) _ e k h2 (by rw [h1]; simpa using he) hk, h3, ← sum_map_ite]
  have h0 : ((List.replicate exps.length (List.replicate (3 * T) (0 : Rat))).getD e []).getD k 0 = 0 := by
    have hrow : (List.replicate exps.length (List.replicate (3 * T) (0 : Rat))).getD e [] =
        List.replicate (3 * T) 0 := by
      rw [List.getD_eq_getElem?_getD, List.getElem?_replicate]
      simp only [he, if_true, Option.getD_some]
    rw [hrow, List.getD_eq_getElem?_getD, List.getElem?_replicate]
    split <;> rfl
  rw [h0, zero_add]
  rfl

/-- the experiment list (`experiment list order`): the experiments of the rows the parser yields —
    also of rows that are then left out as missing or shared —, strictly increasing in code point
    order, hence without duplicates -/
theorem experiments_exact (rows : List Row) :
    (experiments rows).Pairwise (· < ·) ∧
    ∀ e, e ∈ experiments rows ↔ ∃ r ∈ rows, prots r ≠ [] ∧ r.experiment = e := by
  constructor
  · exact sortedSet_sorted _
  · intro e
    unfold experiments
    rw [mem_sortedSet, List.mem_map]
    constructor
    · rintro ⟨r, hr, rfl⟩
      exact ⟨r, ((mem_parsed rows r).mp hr).1, ((mem_parsed rows r).mp hr).2, rfl⟩
    · rintro ⟨r, hr, hp, rfl⟩
      exact ⟨r, (mem_parsed rows r).mpr ⟨hr, hp⟩, rfl⟩

/-- the PEP cutoff of the run is the C17 cutoff (`PgFdr.C17.cutoff`, all C17 theorems apply) of the
    PEPs of the attached rows whose protein list is not a decoy list; match-between-runs rows (NaN)
    have no influence on it -/
theorem cutoff_is_c17 (rows : List Row) (groups : List (List String)) (level : Rat) :
    cutoffOf rows groups level = C17.cutoff (pepList rows groups) level := by
  unfold cutoffOf C17.cutoff
  rw [finites_filter_not_mbr]

/-! ## conservation over the whole table -/

/-- "the total intensity is the sum over experiments, and over all groups no evidence row is
    counted twice": the sum of the `Intensity` column over all reported rows (equivalently, by
    `total_is_sum_of_experiments`, Σ_g Σ_e intensity g e) is the sum of the intensities of the evidence
    rows that enter some group (`rowCounted`: attached to a group, identified there, carrying an
    intensity, MBR or within the cutoff), each taken once — nothing is lost and nothing is counted
    twice.
    UNIFORM-LAYOUT HYPOTHESIS `huniform`: no row the parser yields carries more SILAC values than the FIRST one
    (whose number fixes the slot width, quant/maxquant.py:68) — true with equality when all evidence files have the
    same `Intensity L/M/H` columns.  It is NOT implied by the success of the run and it is necessary: several
    `--mq_evidence` files with different headers are read into one run; a label-free file followed by a SILAC file
    gives `S = 0` and rows with two SILAC values, whose `L` value is added to the NEXT experiment's `Intensity`
    slot (see `intensity_slot_mixed` and the example `spillRows` below: total 120, Σ intensity 110), unless the row
    sits in the last experiments, where the run is refused (`mixed_layout_refusals`). -/
theorem conservation (rows : List Row) (groups : List (List String)) (level : Rat)
    (ibaq : List (String × Nat)) (o : Output)
    (hrun : quantify rows groups level ibaq = .ok o)
    (huniform : ∀ r ∈ parsed rows, (r.silac.length : Int) ≤ nSilac rows) :
    (o.groups.map (·.total)).sum =
      (((parsed rows).filter (rowCounted rows groups (cutoffOf rows groups level))).map
        (fun r => r.intensity.getD 0)).sum := by
  obtain ⟨S, hS, -, rfl⟩ := (quantify_ok rows groups level ibaq o).mp hrun
  have hlen : ∀ r ∈ parsed rows, r.silac.length ≤ S := by
    intro r hr
    have h1 := huniform r hr
    unfold silacChannels at hS
    split at hS
    · rename_i h3
      have : nSilac rows = 3 := by simpa using h3
      cases hS; omega
    · split at hS
      · rename_i h2
        have : nSilac rows = 2 := by simpa using h2
        cases hS; omega
      · split at hS
        · cases hS
        · cases hS; omega
  rw [quantifyWith_totals]
  generalize hc : cutoffOf rows groups level = c
  have hzero : ∀ g, (!(attached rows groups g).isEmpty) = false →
      totalOf S (intensities (experiments rows) S c (retain c (attached rows groups g))) = 0 := by
    intro g hg
    have hnil : attached rows groups g = [] := by simpa using hg
    rw [group_total S rows groups c g hlen]
    have : (parsed rows).filter (entersGroup rows groups c g) = [] := by
      rw [List.filter_eq_nil_iff]
      intro r hr henters
      have hmem : r ∈ attached rows groups g := by
        unfold attached
        rw [List.mem_filter]
        simp only [entersGroup, Bool.and_eq_true] at henters
        exact ⟨hr, henters.1.1⟩
      rw [hnil] at hmem
      cases hmem
    rw [this]; rfl
  unfold keptIdx
  rw [sum_filter_of_zero _ _ _ hzero]
  have hgt : (List.range groups.length).map (fun g =>
        totalOf S (intensities (experiments rows) S c (retain c (attached rows groups g)))) =
      (List.range groups.length).map (fun g =>
        (((parsed rows).filter (entersGroup rows groups c g)).map (chan 0)).sum) := by
    apply List.map_congr_left
    intro g _
    exact group_total S rows groups c g hlen
  rw [hgt, sum_partition (fun g r => entersGroup rows groups c g r)
    (fun r i j => entersGroup_unique rows groups c r i j)]
  rfl

/-! ## evidence files with different SILAC / reporter columns

`num_silac_channels` / `num_tmt_channels` come from the FIRST row the parser yields (quant/maxquant.py:62-69); the rows
of a later `--mq_evidence` file carry the columns of THEIR header.  The model follows the code in every such
situation: where a column loop raises the run is refused (`layoutError`), otherwise the slots are filled exactly as
the loops fill them. -/

/-- exactly when the run is refused after `get_silac_channels` accepted `S`:
    * `silac_index_out_of_range` (Python: `IndexError` in `_get_intensities`, columns/sum_and_ibaq.py:137-142) iff some
      written group has an identified precursor that is added (intensity not NaN, MBR or within the cutoff), carries
      SILAC values, and whose last SILAC slot `e*(1+S) + len` is not below the `E*(1+S)` slots of the list — e.g.
      label-free file first (`S = 0`), then a SILAC row in the last experiment;
    * `tmt_shape_mismatch` (Python: `ValueError` "operands could not be broadcast" / `TypeError` for `None` in
      `_get_tmt_intensities`, columns/tmt.py:71-73) iff there is no such precursor, the run has reporter channels
      (`nTmt > 0`) and some added precursor's reporter vector has neither `3*nTmt` values nor exactly one -/
theorem mixed_layout_refusals (S : Nat) (o : Output) :
    (layoutError S o = some "silac_index_out_of_range" ↔
      ∃ g ∈ o.groups, ∃ q ∈ g.quants, q.intensity.isSome = true ∧ used o.cutoff q = true ∧ q.silac ≠ [] ∧
        ∃ e, expIdx o.experiments q.experiment = some e ∧
          o.experiments.length * (1 + S) ≤ e * (1 + S) + q.silac.length) ∧
    (layoutError S o = some "tmt_shape_mismatch" ↔
      (¬ ∃ g ∈ o.groups, ∃ q ∈ g.quants, silacRaises o.experiments S o.cutoff q = true) ∧ o.nTmt > 0 ∧
        ∃ g ∈ o.groups, ∃ q ∈ g.quants, used o.cutoff q = true ∧ (expIdx o.experiments q.experiment).isSome = true ∧
          q.tmt.length ≠ 3 * o.nTmt.toNat ∧ q.tmt.length ≠ 1) ∧
    (layoutError S o = none ∨ layoutError S o = some "silac_index_out_of_range" ∨
      layoutError S o = some "tmt_shape_mismatch") := by
  have hsil : (o.groups.any (fun g => g.quants.any (silacRaises o.experiments S o.cutoff)) = true) ↔
      ∃ g ∈ o.groups, ∃ q ∈ g.quants, silacRaises o.experiments S o.cutoff q = true := by
    simp only [List.any_eq_true]
  have hone : ∀ q, silacRaises o.experiments S o.cutoff q = true ↔
      (q.intensity.isSome = true ∧ used o.cutoff q = true ∧ q.silac ≠ [] ∧
        ∃ e, expIdx o.experiments q.experiment = some e ∧
          o.experiments.length * (1 + S) ≤ e * (1 + S) + q.silac.length) := by
    intro q
    unfold silacRaises
    cases expIdx o.experiments q.experiment with
    | none => simp
    | some e => simp [and_assoc]
  have htm : (o.groups.any (fun g => g.quants.any (tmtRaises o.experiments o.nTmt.toNat o.cutoff)) = true) ↔
      ∃ g ∈ o.groups, ∃ q ∈ g.quants, used o.cutoff q = true ∧ (expIdx o.experiments q.experiment).isSome = true ∧
          q.tmt.length ≠ 3 * o.nTmt.toNat ∧ q.tmt.length ≠ 1 := by
    simp only [List.any_eq_true, tmtRaises, Bool.and_eq_true, bne_iff_ne, ne_eq, and_assoc]
  unfold layoutError
  by_cases h1 : o.groups.any (fun g => g.quants.any (silacRaises o.experiments S o.cutoff)) = true
  · rw [if_pos h1]
    refine ⟨⟨fun _ => ?_, fun _ => rfl⟩, ⟨fun h => by simp at h, fun h => absurd (hsil.mp h1) h.1⟩, Or.inr (Or.inl rfl)⟩
    obtain ⟨g, hg, q, hq, hr⟩ := hsil.mp h1
    exact ⟨g, hg, q, hq, (hone q).mp hr⟩
  · rw [if_neg h1]
    have hno : ¬ ∃ g ∈ o.groups, ∃ q ∈ g.quants, silacRaises o.experiments S o.cutoff q = true := fun h => h1 (hsil.mpr h)
    by_cases h2 : (decide (o.nTmt > 0) &&
        o.groups.any (fun g => g.quants.any (tmtRaises o.experiments o.nTmt.toNat o.cutoff))) = true
    · rw [if_pos h2]
      simp only [Bool.and_eq_true, decide_eq_true_eq] at h2
      refine ⟨⟨fun h => by simp at h, ?_⟩, ⟨fun _ => ⟨hno, h2.1, htm.mp h2.2⟩, fun _ => rfl⟩, Or.inr (Or.inr rfl)⟩
      rintro ⟨g, hg, q, hq, hr⟩
      exact absurd ⟨g, hg, q, hq, (hone q).mpr hr⟩ hno
    · rw [if_neg h2]
      refine ⟨⟨fun h => by simp at h, ?_⟩, ⟨fun h => by simp at h, ?_⟩, Or.inl rfl⟩
      · rintro ⟨g, hg, q, hq, hr⟩
        exact absurd ⟨g, hg, q, hq, (hone q).mpr hr⟩ hno
      · rintro ⟨-, hT, hex⟩
        exact absurd (by simp only [Bool.and_eq_true, decide_eq_true_eq]; exact ⟨hT, htm.mpr hex⟩) h2

/-- under the two uniform-layout hypotheses no run is refused for its layout: every identified precursor of a written
    group is a row the parser yielded, so none has more SILAC values than `S` or another number of reporter values
    than `3 * nTmt` (`exps` arbitrary: the run without and with a design) -/
theorem uniform_layout_accepted (exps : List String) (S : Nat) (rows : List Row) (groups : List (List String))
    (level : Rat) (ibaq : List (String × Nat))
    (huniform : ∀ r ∈ parsed rows, r.silac.length ≤ S)
    (huniformTmt : ∀ r ∈ parsed rows, (r.tmt.length : Int) = 3 * nTmt rows) :
    layoutError S (quantifyWithExps exps S rows groups level ibaq) = none := by
  have hsub : ∀ g ∈ (quantifyWithExps exps S rows groups level ibaq).groups, ∀ q ∈ g.quants, q ∈ parsed rows := by
    intro g hg q hq
    have hg' : g ∈ (keptIdx rows groups).map (fun i => groupOut exps S (nTmt rows) (cutoffOf rows groups level) ibaq
        (groups.getD i []) (retain (cutoffOf rows groups level) (attached rows groups i))) := hg
    obtain ⟨i, -, rfl⟩ := List.mem_map.mp hg'
    exact ((mem_attached rows groups i q).mp ((mem_retain _ _ q).mp hq).1).1
  apply layoutError_eq_none
  · intro g hg q hq
    exact huniform q (hsub g hg q hq)
  · intro hT g hg q hq
    have h1 := huniformTmt q (hsub g hg q hq)
    have h2 : (quantifyWithExps exps S rows groups level ibaq).nTmt = nTmt rows := rfl
    rw [h2] at hT ⊢
    omega

/-- every slot of the flat intensity list WITHOUT a layout hypothesis (the slot arithmetic of `_get_intensities` on
    rows of any SILAC width): slot `j` is the sum, over the precursors that are added (intensity not NaN, MBR or
    within the cutoff, experiment position `e'`), of the precursor's `Intensity` if `j = e'*(1+S)` plus its
    `(j - e'*(1+S) - 1)`-th SILAC value if `j > e'*(1+S)` — so a precursor with more than `S` SILAC values
    contributes to the slots of the experiments after its own (first to their `Intensity` slot) -/
theorem intensity_slot_mixed (exps : List String) (S : Nat) (c : Rat) (quants : List Row) (j : Nat)
    (hj : j < exps.length * (1 + S)) :
    (intensities exps S c quants).getD j 0 =
      ((quants.filter (fun q => q.intensity.isSome && (isMbr q.pep || leCut q.pep c))).map (fun q =>
        match expIdx exps q.experiment with
        | some e' => (if e' * (1 + S) = j then q.intensity.getD 0 else 0) +
            (if e' * (1 + S) + 1 ≤ j then q.silac.getD (j - (e' * (1 + S) + 1)) 0 else 0)
        | none => 0)).sum := by
  rw [intensities_slot_general, ← sum_map_ite]
  congr 1
  apply List.map_congr_left
  intro q _
  unfold contrib
  cases hq : q.intensity with
  | none => simp
  | some x =>
    have hu : used c q = (isMbr q.pep || leCut q.pep c) := rfl
    by_cases hb : (isMbr q.pep || leCut q.pep c) = true
    · simp only [hu, hb, if_true, Option.isSome_some, Bool.and_self, Option.getD_some]
      cases expIdx exps q.experiment with
      | none => rfl
      | some e' => simp only [hj, and_true]
    · simp [hu, hb]

/-! ## the command line: `python -m picked_group_fdr --do_quant --skip_lfq` on MaxQuant evidence

`PgFdr.CliQuant.quantRun` (Model/CliQuant.lean, driver op `cli_quant`, compared cell by cell with the table the real
`main(argv)` writes — harness/cli_model.py) composes the command-line model `PgFdr.Cli` (annotations, methods, digest
maps, ingestion, inference: `t.base`), the iBAQ digest of C09, `quantify` above and the MaxQuant writer of C13.  The two
theorems below carry the per-column theorems of this file over to the rows of the written table. -/

/-- the SILAC lists of a run with uniform SILAC columns are not longer than the accepted channel number -/
private theorem silac_le_of_uniform (rows : List Row) (S : Nat) (hS : silacChannels (nSilac rows) = .ok S)
    (huniform : ∀ r ∈ parsed rows, (r.silac.length : Int) ≤ nSilac rows) :
    ∀ r ∈ parsed rows, r.silac.length ≤ S := by
  intro r hr
  have h1 := huniform r hr
  unfold silacChannels at hS
  split at hS
  · rename_i h3
    have : nSilac rows = 3 := by simpa using h3
    cases hS; omega
  · split at hS
    · rename_i h2
      have : nSilac rows = 2 := by simpa using h2
      cases hS; omega
    · split at hS
      · cases hS
      · cases hS; omega

/-- "Per group and experiment the summed intensity, iBAQ …, unique-peptide counts, identification type and evidence
    IDs equal a direct recomputation from those precursors, the total intensity is the sum over experiments" — for
    the table the COMMAND LINE writes: for every completed run with `--do_quant --skip_lfq` and every written
    quantification table `t`,
    * `t.base` is the table's method run in the command-line model (`Cli.runMethod` for a position of `--methods`,
      in the environment `Cli.setup` computed), the quantified groups are the rows that run reported, the evidence rows
      are the rows of the method's evidence files remapped through the digest map of their file's position, the iBAQ
      numbers are the iBAQ digest of the FASTA files under all digestion parameter sets of the command line;
    * the quantification is `quantifyWith S` at `--psm_fdr_cutoff`, its PEP cutoff is the C17 cutoff of the PEPs of
      the attached target rows (`cutoff_is_c17`), the written rows are exactly the reported rows with an attached
      precursor, in the reported order (`output_groups`);
    * the records handed to `csv.writer` are the header list of the MaxQuant writer followed by the nine base cells,
      three annotation cells and the quantification cells of every line;
    * the columns covered, for every written row, as the recomputation from the row's identified precursors:
      unique-peptide counts (combined and per experiment), identification type, `Intensity` per experiment and SILAC
      channel, the total `Intensity`, `Number of theoretical peptides iBAQ`, `iBAQ` and `iBAQ` per experiment / channel,
      `Evidence IDs`, the reporter (TMT) cells — the right-hand sides of `counts_recompute`, `idtype_recompute`,
      `intensity_recompute`, `total_is_sum_of_experiments`, `ibaq_def`, `evidence_ids_sorted_exact`, `tmt_recompute`
      (`CliQuant.ColumnsRecomputed`) — and the sequence-coverage cells (`CliQuant.coverageCols_eq`: the three total
      cells are the fraction of the positions of the leading protein's sequence marked by a stripped peptide of a used
      precursor, the per-experiment cell the fraction marked by that experiment's peptides, 0 without one; values
      before `* 100` and `'%.1f'`).  NOT covered by a recomputation clause: the nine base cells and the three
      annotation cells (they are `Cli.cliRow`, C06 / C19);
    * `conservation`: the `Intensity` column summed over the written rows is the sum of the intensities of the
      evidence rows that enter a group, each once.
    UNIFORM-LAYOUT HYPOTHESES (the run reads all `--mq_evidence` files of the method into one row list; their headers
    may differ): `huniform` — no row the parser yields carries more SILAC values than the first one (needed for the
    intensity / iBAQ clauses and conservation, see `conservation`); `huniformTmt` — every such row carries `3 * nTmt`
    reporter values, `nTmt` being fixed by the first row (needed for the reporter clause).  Neither follows from the
    success of the run; both hold when all files have the same `Intensity L/M/H` and `Reporter intensity …` columns. -/
theorem cli_quant_columns_recompute (q : CliQuant.QuantInput) (ts : List CliQuant.QTable)
    (hrun : CliQuant.quantRun q = .ok ts) (t : CliQuant.QTable) (ht : t ∈ ts)
    (p : CliQuant.QuantPart) (hp : t.quant = some p)
    (huniform : ∀ r ∈ parsed p.rows, (r.silac.length : Int) ≤ nSilac p.rows)
    (huniformTmt : ∀ r ∈ parsed p.rows, (r.tmt.length : Int) = 3 * nTmt p.rows) :
    ∃ (env : Cli.Env) (cfgs : List C18.Cfg) (i : Nat) (name : String) (cfg : C18.Cfg) (S : Nat) (hs : List String),
      Cli.setup q.cli = .ok (env, cfgs) ∧ q.cli.methods[i]? = some name ∧ cfgs[i]? = some cfg ∧
      Cli.runMethod q.cli env (decide (cfgs.length > 1)) name cfg (q.cli.recs.getD i default) = .ok (some t.base) ∧
      p.groups = t.base.rows.map CliQuant.groupOf ∧
      p.rows = CliQuant.evidenceRows q env.maps cfg ∧
      CliQuant.ibaqNumbers (CliQuant.ibaqParse q env.usePseudo) q.cli = .ok p.ibaq ∧
      silacChannels (nSilac p.rows) = .ok S ∧
      p.out = quantifyWith S p.rows p.groups q.cli.psm p.ibaq ∧
      p.out.experiments = experiments p.rows ∧
      p.out.cutoff = C17.cutoff (pepList p.rows p.groups) q.cli.psm ∧
      p.lines.map (·.g) = (List.range p.groups.length).filter (fun g => !(attached p.rows p.groups g).isEmpty) ∧
      CliQuant.quantHeaders (CliQuant.ctxOf p.out) = .ok hs ∧
      t.records = hs :: p.lines.map (fun l =>
        (CliQuant.lineRow env.ann p.seqs p.out.experiments p.out.cutoff l).toList) ∧
      (∀ l ∈ p.lines, t.base.rows[l.g]? = some l.base ∧ p.groups[l.g]? = some l.out.ids ∧
        CliQuant.ColumnsRecomputed (experiments p.rows) S (nTmt p.rows) p.out.cutoff p.ibaq l.out.ids
          (retain p.out.cutoff (attached p.rows p.groups l.g)) l.out ∧
        CliQuant.coverageCols p.seqs p.out.experiments p.out.cutoff l.out.ids l.out.quants =
          (let seq := (C09.lookupSeq p.seqs (l.out.ids.headD "").toList).getD []
           let peps := CliQuant.coveragePeps p.out.experiments p.out.cutoff l.out.quants
           let tot := CliQuant.coveredFraction seq ((List.range p.out.experiments.length).flatMap peps)
           [tot, tot, tot] ++ (List.range p.out.experiments.length).map (fun e =>
             if (peps e).isEmpty then 0 else CliQuant.coveredFraction seq (peps e)))) ∧
      (p.lines.map (·.out.total)).sum =
        (((parsed p.rows).filter (rowCounted p.rows p.groups p.out.cutoff)).map (fun r => r.intensity.getD 0)).sum := by
  obtain ⟨env, cfgs, i, name, cfg, hsetup, hname, hcfg, hrunq⟩ := CliQuant.quantRun_table q ts hrun t ht
  obtain ⟨hbase, hq⟩ := CliQuant.runMethodQ_spec q env _ name cfg _ t hrunq
  rcases hq with ⟨p', hp', -, -, hpart⟩ | ⟨hnone, -⟩
  swap
  · rw [hnone] at hp; cases hp
  rw [hp] at hp'
  cases hp'
  obtain ⟨-, -, hrows, hgroups, -, hibaq, hquant, hlines, hrender⟩ := CliQuant.quantPart_spec q env cfg _ p _ hpart
  obtain ⟨S, hS, -, hout⟩ := (quantify_ok p.rows p.groups q.cli.psm p.ibaq p.out).mp hquant
  obtain ⟨hs, hhs, hrecs, -⟩ := CliQuant.renderQuant_eq _ _ _ hrender
  have hlen := silac_le_of_uniform p.rows S hS huniform
  have hcut : p.out.cutoff = cutoffOf p.rows p.groups q.cli.psm := by rw [hout]; rfl
  have hexps : p.out.experiments = experiments p.rows := by rw [hout]; rfl
  have hl : p.lines = (keptIdx p.rows p.groups).map (fun g =>
      ({ g := g, base := t.base.rows.getD g default,
         out := groupOut (experiments p.rows) S (nTmt p.rows) (cutoffOf p.rows p.groups q.cli.psm) p.ibaq
           (p.groups.getD g []) (retain (cutoffOf p.rows p.groups q.cli.psm) (attached p.rows p.groups g)) } :
        CliQuant.QLine)) := by
    rw [hlines, hout]
    exact CliQuant.quantLines_eq S _ p.rows p.groups q.cli.psm p.ibaq
  have hglen : p.groups.length = t.base.rows.length := by rw [hgroups, List.length_map]
  refine ⟨env, cfgs, i, name, cfg, S, hs, hsetup, hname, hcfg, hbase, hgroups, hrows, hibaq, hS, hout, hexps, ?_, ?_,
    hhs, ?_, ?_, ?_⟩
  · rw [hcut]; exact cutoff_is_c17 _ _ _
  · rw [hl, List.map_map]
    simp only [Function.comp_def, List.map_id']
    rfl
  · rw [hrecs, List.map_map]
    rfl
  · intro l hlmem
    rw [hl] at hlmem
    obtain ⟨g, hg, rfl⟩ := List.mem_map.mp hlmem
    obtain ⟨hglt, -⟩ := CliQuant.keptIdx_lt p.rows p.groups g hg
    rw [hcut]
    refine ⟨?_, ?_, ?_, CliQuant.coverageCols_eq _ _ _ _ _⟩
    · show t.base.rows[g]? = some (t.base.rows.getD g default)
      have : g < t.base.rows.length := hglen ▸ hglt
      simp [List.getD_eq_getElem?_getD, List.getElem?_eq_getElem this]
    · show p.groups[g]? = some (p.groups.getD g [])
      simp [List.getD_eq_getElem?_getD, List.getElem?_eq_getElem hglt]
    · have hsub : ∀ x ∈ retain (cutoffOf p.rows p.groups q.cli.psm) (attached p.rows p.groups g), x.silac.length ≤ S := by
        intro x hx
        exact hlen x ((mem_attached p.rows p.groups g x).mp ((mem_retain _ _ x).mp hx).1).1
      obtain ⟨hc0, hce⟩ := counts_recompute (experiments p.rows) (cutoffOf p.rows p.groups q.cli.psm)
        (retain (cutoffOf p.rows p.groups q.cli.psm) (attached p.rows p.groups g))
      obtain ⟨he1, he2⟩ := evidence_ids_sorted_exact (cutoffOf p.rows p.groups q.cli.psm)
        (retain (cutoffOf p.rows p.groups q.cli.psm) (attached p.rows p.groups g))
      have htsub : ∀ x ∈ retain (cutoffOf p.rows p.groups q.cli.psm) (attached p.rows p.groups g),
          (x.tmt.length : Int) = 3 * nTmt p.rows := by
        intro x hx
        exact huniformTmt x ((mem_attached p.rows p.groups g x).mp ((mem_retain _ _ x).mp hx).1).1
      refine ⟨rfl, rfl, hc0, hce,
        fun e he => idtype_recompute _ _ _ e he,
        fun e k he hk => intensities_slot _ S _ _ e k he hk hsub,
        total_is_sum_of_experiments _ S _ _, rfl, rfl, rfl, he1, he2, ?_, ?_⟩
      · intro hT
        show (if nTmt p.rows > 0 then _ else []) = []
        rw [if_neg (by omega)]
      · intro e k he hk
        by_cases hT : nTmt p.rows > 0
        · show (if nTmt p.rows > 0 then tmtSums _ (nTmt p.rows).toNat _ _ else []).getD _ 0 = _
          rw [if_pos hT]
          exact tmt_recompute _ _ _ _ e k he hk (fun x hx => by have := htsub x hx; omega)
        · have : (nTmt p.rows).toNat = 0 := by omega
          rw [this] at hk
          omega
  · have hcons := conservation p.rows p.groups q.cli.psm p.ibaq p.out hquant huniform
    rw [hcut, ← hcons]
    congr 1
    rw [hl, hout, output_groups, List.map_map, List.map_map]
    rfl

/-- "over all groups no evidence row is counted twice" — for the table the command line writes: the written rows
    stem from strictly increasing positions of the reported rows (no reported row is written twice), the precursors of
    every written row are a sub-list of the evidence rows (file order, each occurrence at most once), and an evidence
    row among the precursors of two written rows makes them the same row -/
theorem cli_quant_no_row_twice (q : CliQuant.QuantInput) (ts : List CliQuant.QTable)
    (hrun : CliQuant.quantRun q = .ok ts) (t : CliQuant.QTable) (ht : t ∈ ts)
    (p : CliQuant.QuantPart) (hp : t.quant = some p) :
    (p.lines.map (·.g)).Pairwise (· < ·) ∧
    (∀ l ∈ p.lines, l.out.quants.Sublist p.rows) ∧
    (∀ l ∈ p.lines, ∀ l' ∈ p.lines, ∀ r, r ∈ l.out.quants → r ∈ l'.out.quants → l = l') := by
  obtain ⟨env, cfgs, i, name, cfg, -, -, -, hrunq⟩ := CliQuant.quantRun_table q ts hrun t ht
  obtain ⟨-, hq⟩ := CliQuant.runMethodQ_spec q env _ name cfg _ t hrunq
  rcases hq with ⟨p', hp', -, -, hpart⟩ | ⟨hnone, -⟩
  swap
  · rw [hnone] at hp; cases hp
  rw [hp] at hp'
  cases hp'
  obtain ⟨-, -, -, -, -, -, hquant, hlines, -⟩ := CliQuant.quantPart_spec q env cfg _ p _ hpart
  obtain ⟨S, -, -, hout⟩ := (quantify_ok p.rows p.groups q.cli.psm p.ibaq p.out).mp hquant
  have hl := CliQuant.quantLines_eq S t.base.rows p.rows p.groups q.cli.psm p.ibaq
  rw [← hout, ← hlines] at hl
  obtain ⟨huniq, hsub⟩ := no_row_twice p.rows p.groups
  refine ⟨?_, ?_, ?_⟩
  · rw [hl, List.map_map]
    simp only [Function.comp_def, List.map_id']
    exact CliQuant.keptIdx_sorted p.rows p.groups
  · intro l hlmem
    rw [hl] at hlmem
    obtain ⟨g, -, rfl⟩ := List.mem_map.mp hlmem
    exact (identified_filter_sublist _ _).trans (hsub g)
  · intro l hlmem l' hlmem' r hr hr'
    rw [hl] at hlmem hlmem'
    obtain ⟨g, -, rfl⟩ := List.mem_map.mp hlmem
    obtain ⟨g', -, rfl⟩ := List.mem_map.mp hlmem'
    have h1 : r ∈ attached p.rows p.groups g := (identified_filter_sublist _ _).subset hr
    have h2 : r ∈ attached p.rows p.groups g' := (identified_filter_sublist _ _).subset hr'
    rw [huniq g g' r h1 h2]

/-- the rows a quantification table is built on are the rows the same command line reports without the
    quantification flags: a completed quantification run is, table for table, an extension of the completed plain run
    (`Cli.cliRun`), so `cli_tables_satisfy_guarantees`, `cli_tables_sorted_disjoint`, `cli_methods_independent` of
    `Props/C18.lean` apply to `t.base` -/
theorem cli_quant_rows_are_cli_rows (q : CliQuant.QuantInput) (ts : List CliQuant.QTable)
    (hrun : CliQuant.quantRun q = .ok ts) :
    Cli.cliRun q.cli = .ok (ts.map (·.base)) :=
  CliQuant.quantRun_base q ts hrun

/-! non-vacuity of the three command-line theorems: the completed run `CliQuant.demo_quant_run`
(`Proofs/CliQuantDemo.lean`: `--methods picked_protein_group_mq_input_no_remap --do_quant --skip_lfq` on a two-protein
database and a five-row evidence file; the inference is `Pipeline.demo_run2`) meets every hypothesis, and its table is
not trivial (a match-between-runs row counted, an unidentified charge state dropped, a decoy row written) -/
example : ∃ ts t p, CliQuant.quantRun CliQuant.demoQ = .ok ts ∧ t ∈ ts ∧ t.quant = some p ∧
    (∀ r ∈ parsed p.rows, (r.silac.length : Int) ≤ nSilac p.rows) ∧
    (∀ r ∈ parsed p.rows, (r.tmt.length : Int) = 3 * nTmt p.rows) ∧
    p.lines.map (·.g) = [0, 1] ∧ p.lines.map (·.out.intens) = [[111, 50], [7, 0]] ∧
    p.lines.map (·.out.total) = [161, 7] ∧ p.lines.map (·.out.evidenceIds) = [[0, 1, 3], [2]] ∧
    p.rows.map (·.id) = [0, 1, 2, 3, 4] := by
  obtain ⟨t, hrun, hq, -, -⟩ := CliQuant.demo_quant_run
  obtain ⟨h1, h2, h3, -, -, h4, -⟩ := CliQuant.demo_values
  exact ⟨[t], t, CliQuant.demoPart, hrun, by simp, hq, CliQuant.demo_uniform, CliQuant.demo_uniform_tmt, h1, h2, h3, h4,
    by decide +kernel⟩

/-! ## non-vacuity: a concrete SILAC run meeting every hypothesis above

Two reported groups; `r1` (identified, E1), `r2` (match-between-runs sibling of `r1` in E2; the decoy
protein listed with the target is dropped), `r3` shared between the groups (left out), `r5` for the
second group — it is the PSM at which the running PEP mean crosses the level 1/100, so the cutoff is
its PEP 1/4 and it is itself inside —, `r4` another charge state of `r1`'s peptide with a PEP above
the cutoff (dropped by the identified-precursor filter). -/

private def r1 : Row :=
  { id := 4, peptide := "AAK", charge := 2, experiment := "E1", fraction := "-1",
    leading := ["P1"], intensity := some 100, pep := .fin (1/1000), silac := [60, 40], tmt := [] }
private def r2 : Row :=
  { id := 1, peptide := "AAK", charge := 2, experiment := "E2", fraction := "-1",
    leading := ["P2", "REV__P9"], intensity := some 50, pep := .nan, silac := [30, 20], tmt := [] }
private def r3 : Row :=
  { id := 2, peptide := "CCK", charge := 2, experiment := "E2", fraction := "-1",
    leading := ["P1", "P3"], intensity := some 7, pep := .fin (1/1000), silac := [3, 4], tmt := [] }
private def r4 : Row :=
  { id := 3, peptide := "AAK", charge := 3, experiment := "E1", fraction := "-1",
    leading := ["P1", "P2"], intensity := some 9, pep := .fin (1/2), silac := [5, 4], tmt := [] }
private def r5 : Row :=
  { id := 0, peptide := "DDK", charge := 2, experiment := "E1", fraction := "-1",
    leading := ["P3"], intensity := some 11, pep := .fin (1/4), silac := [11, 0], tmt := [] }
private def exRows : List Row := [r1, r2, r3, r5, r4]
private def exGroups : List (List String) := [["P1", "P2"], ["P3"]]
private def exIbaq : List (String × Nat) := [("P1", 3)]

example : ∀ (i j : Nat) (gi gj : List String) (p : String),
    exGroups[i]? = some gi → exGroups[j]? = some gj → p ∈ gi → p ∈ gj → i = j := by
  intro i j gi gj p hi hj
  match i, j with
  | 0, 0 => intros; rfl
  | 1, 1 => intros; rfl
  | 0, 1 =>
    simp only [exGroups, List.getElem?_cons_zero, List.getElem?_cons_succ, Option.some.injEq] at hi hj
    subst hi hj; intro h1 h2; simp at h1 h2; rcases h1 with rfl | rfl <;> simp at h2
  | 1, 0 =>
    simp only [exGroups, List.getElem?_cons_zero, List.getElem?_cons_succ, Option.some.injEq] at hi hj
    subst hi hj; intro h1 h2; simp at h1 h2; subst h1; simp at h2
  | i + 2, _ => simp [exGroups] at hi
  | _, j + 2 => simp [exGroups] at hj

/-- the PEP cutoff of the example run (the `mergeSort` inside `C17.cutoff` does not reduce in the
    kernel, hence the detour through `sortAsc_of_sorted`) -/
private theorem ex_cutoff : cutoffOf exRows exGroups (1/100) = 1/4 := by
  have h : C17.finites ((pepList exRows exGroups).filter (fun p => !isMbr p)) = [1/1000, 1/4, 1/2] := by
    decide +kernel
  unfold cutoffOf C17.cutoff
  rw [h, C17.sortAsc_of_sorted _ (by decide +kernel)]
  decide +kernel

private theorem ex_groups : (quantifyWith 2 exRows exGroups (1/100) exIbaq).groups =
    [0, 1].map (fun g => groupOut ["E1", "E2"] 2 0 (1/4) exIbaq (exGroups.getD g [])
      (retain (1/4) (attached exRows exGroups g))) := by
  show (keptIdx exRows exGroups).map (fun g => groupOut (experiments exRows) 2 (nTmt exRows)
    (cutoffOf exRows exGroups (1/100)) exIbaq (exGroups.getD g [])
    (retain (cutoffOf exRows exGroups (1/100)) (attached exRows exGroups g))) = _
  rw [ex_cutoff]
  have h1 : keptIdx exRows exGroups = [0, 1] := by decide +kernel
  have h2 : experiments exRows = ["E1", "E2"] := by decide +kernel
  have h3 : nTmt exRows = 0 := by decide +kernel
  rw [h1, h2, h3]

example : (List.range 2).map (fun g => (attached exRows exGroups g).map (·.id)) = [[4, 1, 3], [0]] := by
  decide +kernel
example : ((quantifyWith 2 exRows exGroups (1/100) exIbaq).groups.map (·.quants)).map (·.map (·.id)) =
    [[4, 1], [0]] := by rw [ex_groups]; decide +kernel
example : (quantifyWith 2 exRows exGroups (1/100) exIbaq).groups.map (·.intens) =
    [[100, 60, 40, 50, 30, 20], [11, 11, 0, 0, 0, 0]] := by rw [ex_groups]; decide +kernel
example : (quantifyWith 2 exRows exGroups (1/100) exIbaq).groups.map (·.ibaqTotal) = [50, 11] := by
  rw [ex_groups]; decide +kernel
example : (quantifyWith 2 exRows exGroups (1/100) exIbaq).groups.map (·.idType) =
    [["By MS/MS", "By matching"], ["By MS/MS", ""]] := by rw [ex_groups]; decide +kernel
example : (quantifyWith 2 exRows exGroups (1/100) exIbaq).groups.map (·.evidenceIds) = [[1, 4], [0]] := by
  rw [ex_groups]; decide +kernel
example : (quantifyWith 2 exRows exGroups (1/100) exIbaq).groups.map (·.counts) = [[1, 1, 1], [1, 1, 0]] := by
  rw [ex_groups]; decide +kernel
private theorem ex_uniform_tmt : ∀ r ∈ parsed exRows, (r.tmt.length : Int) = 3 * nTmt exRows := by decide +kernel
example : ∃ o, quantify exRows exGroups (1/100) exIbaq = .ok o :=
  ⟨_, (quantify_ok _ _ _ _ _).mpr ⟨2, by decide +kernel,
    uniform_layout_accepted _ 2 exRows exGroups _ _ (by decide +kernel) ex_uniform_tmt, rfl⟩⟩
example : ∀ r ∈ parsed exRows, (r.silac.length : Int) ≤ nSilac exRows := by decide +kernel
example : ∀ q ∈ exRows, q.silac.length ≤ 2 := by decide +kernel
example : (experiments exRows).length = 2 := by decide +kernel
example : ((parsed exRows).filter (rowCounted exRows exGroups (cutoffOf exRows exGroups (1/100)))).map (·.id) =
    [4, 1, 0] := by rw [ex_cutoff]; decide +kernel


/-! non-vacuity of the mixed-layout theorems.  `la` comes from a label-free evidence file read first (`S = 0`), `sb`
    from a later file with `Intensity L` / `Intensity H` columns (intensity 10 = 6 + 4); one reported group. -/
private def la (e : String) (x : Rat) (i : Int) : Row :=
  { id := i, peptide := "AAK", charge := 2, experiment := e, fraction := "-1",
    leading := ["P1"], intensity := some x, pep := .fin (1/1000), silac := [], tmt := [] }
private def sb (e : String) : Row :=
  { id := 9, peptide := "CCK", charge := 2, experiment := e, fraction := "-1",
    leading := ["P1"], intensity := some 10, pep := .fin (1/1000), silac := [6, 4], tmt := [] }
/-- three experiments, the SILAC row in the FIRST: nothing raises, its L value lands in `Intensity E2`, its H value in
    `Intensity E3`; the total is 120 while the intensities of the three rows sum to 110 (the hypothesis of
    `conservation` / `intensity_recompute` fails: 2 SILAC values > S = 0) -/
private def spillRows : List Row := [la "E2" 100 0, sb "E1", la "E3" 0 1]
example : spillRows.all (fun q => !silacRaises ["E1", "E2", "E3"] 0 1 q) = true := by decide +kernel
example : intensities ["E1", "E2", "E3"] 0 1 spillRows = [10, 106, 4] := by decide +kernel
example : totalOf 0 (intensities ["E1", "E2", "E3"] 0 1 spillRows) = 120 ∧
    (spillRows.map (fun r => r.intensity.getD 0)).sum = 110 := by decide +kernel
/-- the SILAC row in one of the last two experiments: `IndexError` in the code, refusal in the model -/
example : silacRaises ["E1", "E2", "E3"] 0 1 (sb "E2") = true ∧ silacRaises ["E1", "E2", "E3"] 0 1 (sb "E3") = true := by
  decide +kernel
/-- a whole run that is refused: label-free row first, SILAC row second, one experiment -/
private def refusedRows : List Row := [la "E1" 100 0, sb "E1"]
private theorem refused_cutoff : cutoffOf refusedRows [["P1"]] (1/100) = 1 := by
  have h : C17.finites ((pepList refusedRows [["P1"]]).filter (fun p => !isMbr p)) = [1/1000, 1/1000] := by
    decide +kernel
  unfold cutoffOf C17.cutoff
  rw [h, C17.sortAsc_of_sorted _ (by decide +kernel)]
  decide +kernel
example : quantify refusedRows [["P1"]] (1/100) [] = .error "silac_index_out_of_range" := by
  have hS : silacChannels (nSilac refusedRows) = .ok 0 := by decide +kernel
  unfold quantify
  rw [hS]
  show checked 0 (quantifyWith 0 refusedRows [["P1"]] (1/100) []) = _
  unfold quantifyWith
  simp only [refused_cutoff]
  decide +kernel
example : ¬ ∀ r ∈ parsed refusedRows, (r.silac.length : Int) ≤ nSilac refusedRows := by decide +kernel

/-- a TMT precursor list meeting the hypotheses of `tmt_recompute` (one channel, three reporter columns) -/
private def t1 : Row :=
  { id := 0, peptide := "AAK", charge := 2, experiment := "E1", fraction := "-1",
    leading := ["P1"], intensity := none, pep := .fin (1/1000), silac := [], tmt := [7, 5, 1] }
private def t2 : Row :=
  { id := 1, peptide := "AAK", charge := 2, experiment := "E1", fraction := "-1",
    leading := ["P1"], intensity := some 3, pep := .nan, silac := [], tmt := [2, 1, 1] }
example : ∀ q ∈ [t1, t2], q.tmt.length = 3 * 1 := by decide +kernel
example : tmtSums ["E1"] 1 (1/100) [t1, t2] = [9, 6, 2] := by decide +kernel
/-- a precursor from a file with ONE reporter column: numpy broadcasts its value into all three cells (no exception);
    two reporter values raise in the code and are refused by the model -/
private def tmtBroadcast : Row := { t2 with tmt := [5] }
example : tmtSums ["E1"] 1 (1/100) [t1, tmtBroadcast] = [12, 10, 6] := by decide +kernel
example : tmtRaises ["E1"] 1 (1/100) tmtBroadcast = false ∧ tmtRaises ["E1"] 1 (1/100) { t2 with tmt := [5, 5] } = true ∧
    tmtRaises ["E1"] 1 (1/100) { t2 with tmt := [] } = true := by decide +kernel

/-! ## `--experimental_design_file` / `--file_list_file`: the experiment list in design order

With a design `quant/maxquant.py:add_precursor_quants` stores `experimental_design["Experiment"].unique()`
as the experiment list (design order, not sorted) and replaces experiment and fraction of every parsed row by
the entry of its raw file.  `quantifyDesign` is that run (driver op `quant` with a `design`); it is
`quantifyWithExps` — `quantifyWith` with the experiment list as a parameter — on the overridden rows.  The
per-column theorems above (`intensity_recompute`, `total_is_sum_of_experiments`, `counts_recompute`,
`idtype_recompute`, `tmt_recompute`, `evidence_ids_sorted_exact`, `identified_filter`, `attach_unique`,
`no_row_twice`) hold for every experiment list `exps`, so they apply unchanged; the theorems below state the
part that depends on the list: which list it is, that an experiment's columns sit at the experiment's position
in THAT list (the list the header generators iterate over), and conservation. -/

/-- the run without a design is the instance `exps = experiments rows` (sorted experiments of the parsed rows) -/
theorem quantifyWith_is_exps (S : Nat) (rows : List Row) (groups : List (List String)) (level : Rat)
    (ibaq : List (String × Nat)) :
    quantifyWith S rows groups level ibaq = quantifyWithExps (experiments rows) S rows groups level ibaq := rfl

/-- `output_groups` with the experiment list as a parameter: the reported experiment list is `exps` and every
    column of every reported row is the loop function applied with `exps` -/
theorem output_groups_exps (exps : List String) (S : Nat) (rows : List Row) (groups : List (List String))
    (level : Rat) (ibaq : List (String × Nat)) :
    (quantifyWithExps exps S rows groups level ibaq).experiments = exps ∧
    (quantifyWithExps exps S rows groups level ibaq).groups =
      ((List.range groups.length).filter (fun g => !(attached rows groups g).isEmpty)).map (fun g =>
        let c := cutoffOf rows groups level
        let quants := retain c (attached rows groups g)
        { ids := groups.getD g []
          quants := quants
          counts := peptideCounts exps c quants
          idType := idTypes exps c quants
          total := totalOf S (intensities exps S c quants)
          intens := intensities exps S c quants
          nPeps := (groups.getD g []).map (nPepsOf ibaq)
          ibaqTotal := totalOf S (intensities exps S c quants) / (leadingN ibaq (groups.getD g []) : Nat)
          ibaq := (intensities exps S c quants).map (· / (leadingN ibaq (groups.getD g []) : Nat))
          tmt := if nTmt rows > 0 then tmtSums exps (nTmt rows).toNat c quants else []
          evidenceIds := evidenceIds c quants }) := ⟨rfl, rfl⟩

/-- the run with a design: a design without lines is the run without a design; otherwise the names must be
    pairwise different, every parsed row's raw file must have a line, `get_silac_channels` must accept the
    column count, no column loop may raise on rows of a different SILAC / reporter layout (`layoutError`), and the
    result is `quantifyWithExps` with the design's experiment list on the overridden rows -/
theorem quantify_design_ok (design : List DesignLine) (rows : List (String × Row)) (groups : List (List String))
    (level : Rat) (ibaq : List (String × Nat)) (o : Output) :
    quantifyDesign design rows groups level ibaq = .ok o ↔
      (design = [] ∧ quantify (rows.map (·.2)) groups level ibaq = .ok o) ∨
      (design ≠ [] ∧ allDistinct (design.map (·.name)) = true ∧
        ∃ rows' S, overrideRows design rows = .ok rows' ∧ silacChannels (nSilac rows') = .ok S ∧
          layoutError S (quantifyWithExps (designExperiments design) S rows' groups level ibaq) = none ∧
          o = quantifyWithExps (designExperiments design) S rows' groups level ibaq) := by
  unfold quantifyDesign
  by_cases hd : design = []
  · subst hd
    simp
  · have he : design.isEmpty = false := by simpa using hd
    rw [he]
    simp only [Bool.false_eq_true, if_false, hd, false_and, false_or, ne_eq, not_false_eq_true, true_and]
    by_cases hu : allDistinct (design.map (·.name)) = true
    · simp only [hu, Bool.not_true, Bool.false_eq_true, if_false, true_and]
      cases hr : overrideRows design rows with
      | error e => simp
      | ok rows' =>
        cases hS : silacChannels (nSilac rows') with
        | error e => simp [hS]
        | ok S =>
          simp only [Except.ok.injEq, exists_and_left, exists_eq_left', hS, checked_ok]
    · have hu' : allDistinct (design.map (·.name)) = false := by simpa using hu
      simp [hu']

/-- the experiment list of a design (`experimental_design["Experiment"].unique().tolist()`): no duplicates,
    exactly the experiments of the design lines — also those no evidence row belongs to —, in the order of
    their FIRST line: the head line's experiment comes first, the rest is the list of the remaining lines
    without it.  Nothing is sorted. -/
theorem design_experiments_exact (d : List DesignLine) :
    (designExperiments d).Nodup ∧
    (∀ e, e ∈ designExperiments d ↔ ∃ l ∈ d, l.experiment = e) ∧
    designExperiments [] = [] ∧
    (∀ l t, designExperiments (l :: t) =
      l.experiment :: (designExperiments t).filter (fun y => y != l.experiment)) :=
  ⟨designExperiments_nodup d, mem_designExperiments d, rfl, designExperiments_cons⟩

/-- the override: a successful run has replaced, row by row and in file order, experiment and fraction of
    every row the parser yields by those of the (first) design line named like the row's raw file; rows
    without proteins are untouched; no other field changes -/
theorem design_override (d : List DesignLine) (rows : List (String × Row)) (rows' : List Row)
    (h : overrideRows d rows = .ok rows') :
    List.Forall₂ (fun x r' =>
      ((prots x.2 = [] ∧ r' = x.2) ∨
       (prots x.2 ≠ [] ∧ ∃ l ∈ d, l.name = x.1 ∧ d.find? (fun l => l.name == x.1) = some l ∧
          r' = { x.2 with experiment := l.experiment, fraction := l.fraction })) ∧
      r'.id = x.2.id ∧ r'.peptide = x.2.peptide ∧ r'.charge = x.2.charge ∧ r'.leading = x.2.leading ∧
      r'.intensity = x.2.intensity ∧ r'.pep = x.2.pep ∧ r'.silac = x.2.silac ∧ r'.tmt = x.2.tmt) rows rows' :=
  List.Forall₂.imp (fun x r' hx => ⟨overrideRow_ok d x r' hx, overrideRow_same d x r' hx⟩) (overrideRows_ok d rows rows' h)

/-- "Per group and experiment the summed intensity …": with a duplicate-free experiment list (`experiments
    rows` and `designExperiments d` are), the slots `i*(1+S)+k` — the columns written under the headers of the
    `i`-th name of the list (`cells_under_named_headers` ties the slots to the header STRINGS) — hold the sum over the
    used precursors WHOSE EXPERIMENT IS THAT NAME, whatever the order of the list.
    UNIFORM-LAYOUT HYPOTHESIS `hs`: as in `intensity_recompute` (no precursor with more SILAC values than `S`). -/
theorem intensity_by_name (exps : List String) (hn : exps.Nodup) (S : Nat) (c : Rat) (quants : List Row)
    (i k : Nat) (name : String) (hi : exps[i]? = some name) (hk : k ≤ S)
    (hs : ∀ q ∈ quants, q.silac.length ≤ S) :
    (intensities exps S c quants).getD (i * (1 + S) + k) 0 =
      ((quants.filter (fun q => q.intensity.isSome && (isMbr q.pep || leCut q.pep c) &&
          (q.experiment == name))).map
        (fun q => match k with
          | 0 => q.intensity.getD 0
          | j + 1 => q.silac.getD j 0)).sum := by
  have hil : i < exps.length := by
    by_contra hcon
    rw [List.getElem?_eq_none (by omega)] at hi
    cases hi
  rw [intensity_recompute exps S c quants i k hil hk hs]
  have key := expIdx_beq_of_nodup exps hn i name hi
  simp only [key]

/-- … unique-peptide counts and identification type by experiment NAME, for a duplicate-free list -/
theorem counts_idtype_by_name (exps : List String) (hn : exps.Nodup) (c : Rat) (quants : List Row)
    (i : Nat) (name : String) (hi : exps[i]? = some name) :
    (peptideCounts exps c quants).getD (i + 1) 0 =
        ((quants.filter (fun q => used c q && (q.experiment == name))).map (·.peptide)).toFinset.card ∧
    (idTypes exps c quants).getD i "" =
      (if quants.any (fun q => (q.experiment == name) && leCut q.pep c) then "By MS/MS"
       else if quants.any (fun q => (q.experiment == name) && isMbr q.pep) then "By matching"
       else "") := by
  have hil : i < exps.length := by
    by_contra hcon
    rw [List.getElem?_eq_none (by omega)] at hi
    cases hi
  have key := expIdx_beq_of_nodup exps hn i name hi
  constructor
  · rw [(counts_recompute exps c quants).2 i hil]
    simp only [key]
  · rw [idtype_recompute exps c quants i hil]
    simp only [key]

/-- conservation with a design: Σ of the `Intensity` column over the reported rows = Σ of the intensities of
    the (overridden) evidence rows that enter a group, each once — no intensity is lost to an experiment
    missing from the list, because every parsed row carries an experiment of the design.
    UNIFORM-LAYOUT HYPOTHESIS (the antecedent of the last conjunct): no parsed row carries more SILAC values than
    the first one; as in `conservation` it does not follow from the success of the run and it is necessary. -/
theorem conservation_design (design : List DesignLine) (rows : List (String × Row)) (groups : List (List String))
    (level : Rat) (ibaq : List (String × Nat)) (o : Output) (hd : design ≠ [])
    (hrun : quantifyDesign design rows groups level ibaq = .ok o) :
    ∃ rows', overrideRows design rows = .ok rows' ∧ o.experiments = designExperiments design ∧
      ((∀ r ∈ parsed rows', (r.silac.length : Int) ≤ nSilac rows') →
        (o.groups.map (·.total)).sum =
          (((parsed rows').filter (rowCounted rows' groups (cutoffOf rows' groups level))).map
            (fun r => r.intensity.getD 0)).sum) := by
  rcases (quantify_design_ok design rows groups level ibaq o).mp hrun with ⟨h0, -⟩ | ⟨-, -, rows', S, hr, hS, -, rfl⟩
  · exact absurd h0 hd
  · refine ⟨rows', hr, rfl, ?_⟩
    intro huniform
    exact conservation_exps _ S rows' groups level ibaq (silac_le_of_uniform rows' S hS huniform)
      (overrideRows_experiment_mem design rows rows' hr)

/-! ## header STRINGS: the cells under `Intensity <name>`, `iBAQ <name>`, `Unique peptides <name>`, …

The by-name theorems above speak of slot positions.  The header strings are those of the C13 header functions of the
MaxQuant writer's generators (`C13.Gen.hdrs`: `"Unique peptides " ++ e`, `"Identification type " ++ e`,
`"Intensity " ++ e`, `"Intensity " ++ channel ++ " " ++ e`, `"iBAQ " ++ e`, …), assembled by `CliQuant.quantHeaders`
exactly as for the command-line table; the cells of a row are `CliQuant.quantCells` (the writer's order);
`CliQuant.cellUnder hs row h` is the cell of `row` in the column whose header is `h`.  A swap between header order and
value order, or a header list built from another experiment order than the value lists, falsifies these statements. -/

/-- "Per group and experiment the summed intensity, iBAQ …, unique-peptide counts, identification type … equal a
    direct recomputation from those precursors" — read BY HEADER NAME: in a written row (`pre`: nine base cells and
    three annotation cells, then the quantification cells) under the header list the writer's generators build for the
    experiment list `exps` (duplicate-free) and the channel numbers `s`, `T`, and for every experiment `name` of the list:
    the cell under `Unique peptides <name>` is the number of distinct peptides of the used precursors whose experiment is
    `name`, the cell under `Identification type <name>` their type, the cell under `Intensity <name>` the sum of their
    intensities (exact rational, formatted `'%.0f'` by the writer), the cell under `iBAQ <name>` that sum divided by
    `max 1 n(leading protein)`, and the cells under `Intensity <channel> <name>` / `iBAQ <channel> <name>` the same for
    the `k`-th SILAC value.
    UNIFORM-LAYOUT HYPOTHESIS `hlay`: no precursor of the row carries more SILAC values than `S` (see
    `intensity_recompute`); it is used by the four intensity / iBAQ clauses only. -/
theorem cells_under_named_headers (exps : List String) (hn : exps.Nodup) (s T : Int) (S : Nat)
    (hS : silacChannels s = .ok S) (c : Rat) (ibaq : List (String × Nat)) (ids : List String)
    (quants : List Row) (seqs : C09.SeqMap) (pre : List String) (hpre : pre.length = 12) (hs : List String)
    (hhs : CliQuant.quantHeaders { experiments := exps, silac := s, tmt := T } = .ok hs)
    (hlay : ∀ q ∈ quants, q.silac.length ≤ S)
    (i : Nat) (name : String) (hi : exps[i]? = some name) :
    let row := pre ++ CliQuant.quantCells seqs exps c (groupOut exps S T c ibaq ids quants)
    let sumOf := fun (f : Row → Rat) => ((quants.filter (fun q =>
      q.intensity.isSome && (isMbr q.pep || leCut q.pep c) && (q.experiment == name))).map f).sum
    let lead : Rat := ((max 1 ((ids.map (nPepsOf ibaq)).headD 0) : Nat) : Rat)
    CliQuant.cellUnder hs row ("Unique peptides " ++ name) =
      some (toString ((quants.filter (fun q => used c q && (q.experiment == name))).map (·.peptide)).toFinset.card) ∧
    CliQuant.cellUnder hs row ("Identification type " ++ name) =
      some (if quants.any (fun q => (q.experiment == name) && leCut q.pep c) then "By MS/MS"
            else if quants.any (fun q => (q.experiment == name) && isMbr q.pep) then "By matching" else "") ∧
    CliQuant.cellUnder hs row ("Intensity " ++ name) = some (Cli.ratCell (sumOf (fun q => q.intensity.getD 0))) ∧
    CliQuant.cellUnder hs row ("iBAQ " ++ name) = some (Cli.ratCell (sumOf (fun q => q.intensity.getD 0) / lead)) ∧
    ∀ ch, C13.silacChannels s = .ok ch → ∀ k chName, ch[k]? = some chName →
      CliQuant.cellUnder hs row ("Intensity " ++ chName ++ " " ++ name) =
        some (Cli.ratCell (sumOf (fun q => q.silac.getD k 0))) ∧
      CliQuant.cellUnder hs row ("iBAQ " ++ chName ++ " " ++ name) =
        some (Cli.ratCell (sumOf (fun q => q.silac.getD k 0) / lead)) := by
  intro row sumOf lead
  obtain ⟨h1, h2, h3, h4, h5⟩ := CliQuant.cells_are_slots exps s T S hS c ibaq ids quants seqs pre hpre hs hhs i name hi
  obtain ⟨hc, ht⟩ := counts_idtype_by_name exps hn c quants i name hi
  have hI := intensity_by_name exps hn S c quants i 0 name hi (Nat.zero_le _) hlay
  refine ⟨by rw [h1, hc], by rw [h2, ht], ?_, ?_, ?_⟩
  · rw [h3]; exact congrArg (fun x => some (Cli.ratCell x)) hI
  · rw [h4]; exact congrArg (fun x => some (Cli.ratCell (x / lead))) hI
  · intro ch hch k chName hk
    have hkl : k < S := by
      have hl := CliQuant.silac_names_length s S ch hS hch
      by_contra hcon
      rw [List.getElem?_eq_none (by omega)] at hk
      cases hk
    obtain ⟨h6, h7⟩ := h5 ch hch k chName hk
    have hK := intensity_by_name exps hn S c quants i (k + 1) name hi (by omega) hlay
    exact ⟨by rw [h6]; exact congrArg (fun x => some (Cli.ratCell x)) hK,
      by rw [h7]; exact congrArg (fun x => some (Cli.ratCell (x / lead))) hK⟩

/-- the same for the table of a run WITH an experimental design / file list (`CliQuant.outputTable` of the result of
    `quantifyDesign`): the header list is built from the design's experiments in first-occurrence order, and in every
    record the cell under `Intensity <name>` (`iBAQ <name>`, `Unique peptides <name>`, `Identification type <name>`,
    `Intensity <channel> <name>`) is the recomputation over the identified precursors of the record's group whose
    experiment — as overridden through the raw-file mapping — is `name`, for every experiment `name` of the design (also
    one without rows: 0 / empty type).
    UNIFORM-LAYOUT HYPOTHESIS (antecedent of the last conjunct): no parsed row carries more SILAC values than the first. -/
theorem design_cells_under_named_headers (design : List DesignLine) (rows : List (String × Row))
    (groups : List (List String)) (level : Rat) (ibaq : List (String × Nat)) (o : Output) (hd : design ≠ [])
    (hrun : quantifyDesign design rows groups level ibaq = .ok o)
    (pre : GroupOut → List String) (hpre : ∀ g, (pre g).length = 12) (seqs : C09.SeqMap)
    (hs : List String) (records : List (List String))
    (htab : CliQuant.outputTable pre seqs o = .ok (hs, records)) :
    ∃ rows' S, overrideRows design rows = .ok rows' ∧ silacChannels (nSilac rows') = .ok S ∧
      o.experiments = designExperiments design ∧
      CliQuant.quantHeaders (CliQuant.ctxOf o) = .ok hs ∧
      records = o.groups.map (fun g => pre g ++ CliQuant.quantCells seqs o.experiments o.cutoff g) ∧
      ((∀ r ∈ parsed rows', (r.silac.length : Int) ≤ nSilac rows') →
        ∀ g ∈ o.groups, ∀ (i : Nat) (name : String), (designExperiments design)[i]? = some name →
          let row := pre g ++ CliQuant.quantCells seqs o.experiments o.cutoff g
          let sumOf := fun (f : Row → Rat) => ((g.quants.filter (fun q =>
            q.intensity.isSome && (isMbr q.pep || leCut q.pep o.cutoff) && (q.experiment == name))).map f).sum
          let lead : Rat := ((max 1 ((g.ids.map (nPepsOf ibaq)).headD 0) : Nat) : Rat)
          CliQuant.cellUnder hs row ("Unique peptides " ++ name) =
            some (toString ((g.quants.filter (fun q => used o.cutoff q && (q.experiment == name))).map
              (·.peptide)).toFinset.card) ∧
          CliQuant.cellUnder hs row ("Identification type " ++ name) =
            some (if g.quants.any (fun q => (q.experiment == name) && leCut q.pep o.cutoff) then "By MS/MS"
                  else if g.quants.any (fun q => (q.experiment == name) && isMbr q.pep) then "By matching" else "") ∧
          CliQuant.cellUnder hs row ("Intensity " ++ name) = some (Cli.ratCell (sumOf (fun q => q.intensity.getD 0))) ∧
          CliQuant.cellUnder hs row ("iBAQ " ++ name) =
            some (Cli.ratCell (sumOf (fun q => q.intensity.getD 0) / lead)) ∧
          ∀ ch, C13.silacChannels (nSilac rows') = .ok ch → ∀ k chName, ch[k]? = some chName →
            CliQuant.cellUnder hs row ("Intensity " ++ chName ++ " " ++ name) =
              some (Cli.ratCell (sumOf (fun q => q.silac.getD k 0))) ∧
            CliQuant.cellUnder hs row ("iBAQ " ++ chName ++ " " ++ name) =
              some (Cli.ratCell (sumOf (fun q => q.silac.getD k 0) / lead))) := by
  rcases (quantify_design_ok design rows groups level ibaq o).mp hrun with ⟨h0, -⟩ | ⟨-, -, rows', S, hr, hS, -, rfl⟩
  · exact absurd h0 hd
  unfold CliQuant.outputTable at htab
  cases hq : CliQuant.quantHeaders (CliQuant.ctxOf (quantifyWithExps (designExperiments design) S rows' groups level ibaq)) with
  | error e => rw [hq] at htab; simp at htab
  | ok hs' =>
    rw [hq] at htab
    simp only [Except.ok.injEq, Prod.mk.injEq] at htab
    obtain ⟨rfl, rfl⟩ := htab
    refine ⟨rows', S, hr, hS, rfl, rfl, rfl, ?_⟩
    intro huniform g hg i name hi
    have hg' : g ∈ (keptIdx rows' groups).map (fun j => groupOut (designExperiments design) S (nTmt rows')
        (cutoffOf rows' groups level) ibaq (groups.getD j []) (retain (cutoffOf rows' groups level) (attached rows' groups j))) := hg
    obtain ⟨j, -, rfl⟩ := List.mem_map.mp hg'
    have hlay : ∀ q ∈ retain (cutoffOf rows' groups level) (attached rows' groups j), q.silac.length ≤ S := by
      intro q hq'
      exact silac_le_of_uniform rows' S hS huniform q
        ((mem_attached rows' groups j q).mp ((mem_retain _ _ q).mp hq').1).1
    exact cells_under_named_headers (designExperiments design) (designExperiments_nodup design) (nSilac rows')
      (nTmt rows') S hS (cutoffOf rows' groups level) ibaq (groups.getD j []) _ seqs _ (hpre _) hs' hq hlay i name hi

/-! non-vacuity: the example rows above with raw files, and a design that lists the experiments in
    non-alphabetical order (`treated`, `control`, `alpha` — `alpha` without any row) -/

private def exDesign : List DesignLine :=
  [⟨"raw1", "treated", "1"⟩, ⟨"raw2", "treated", "2"⟩, ⟨"raw3", "control", "1.0"⟩, ⟨"raw4", "alpha", "1"⟩]
private def exRaw : List (String × Row) := [("raw1", r1), ("raw3", r2), ("raw3", r3), ("raw2", r5), ("raw2", r4)]

example : designExperiments exDesign = ["treated", "control", "alpha"] := by decide +kernel
example : exDesign ≠ [] ∧ allDistinct (exDesign.map (·.name)) = true := by decide +kernel
example : (match overrideRows exDesign exRaw with
    | .ok rs => rs.map (fun r => (r.id, r.experiment, r.fraction))
    | .error _ => []) =
    [(4, "treated", "1"), (1, "control", "1.0"), (2, "control", "1.0"), (0, "treated", "2"), (3, "treated", "2")] := by
  decide +kernel
private def exRows' : List Row :=
  match overrideRows exDesign exRaw with
  | .ok rs => rs
  | .error _ => []
example : ∃ o, quantifyDesign exDesign exRaw exGroups (1/100) exIbaq = .ok o ∧
    o.experiments = ["treated", "control", "alpha"] :=
  ⟨_, (quantify_design_ok _ _ _ _ _ _).mpr (Or.inr ⟨by decide +kernel, by decide +kernel, exRows', 2,
    by decide +kernel, by decide +kernel,
    uniform_layout_accepted _ 2 exRows' exGroups _ _ (by decide +kernel) (by decide +kernel), rfl⟩),
   by decide +kernel⟩
example : (["treated", "control", "alpha"] : List String).Nodup ∧
    (["treated", "control", "alpha"] : List String)[1]? = some "control" := by decide +kernel
example : overrideRows exDesign [("raw9", r1)] = .error "raw_file_not_in_design" := by decide +kernel
/-- the header list of the example design run exists (47 headers) and the named columns sit where the value lists
    put the design's second experiment: `Intensity control` at 23 = 12 + 4 + 3 + 1 + 1·3, its `H` channel at 25,
    `iBAQ alpha` (the experiment without rows) at 37; a design whose names collide with a channel header
    (`L E1` next to `E1` with SILAC) has no header list — the code raises on the duplicate header -/
example : (CliQuant.quantHeaders { experiments := ["treated", "control", "alpha"], silac := 2, tmt := 0 }).toOption.map
    (fun hs => (hs.length, hs.idxOf "Intensity control", hs.idxOf "Intensity H control", hs.idxOf "iBAQ alpha")) =
    some (47, 23, 25, 37) := by decide +kernel
example : (CliQuant.quantHeaders { experiments := ["E1", "L E1"], silac := 2, tmt := 0 }).toOption = none := by
  decide +kernel

/-! ## remapping: the protein list of an evidence row is the digest's list of its STRIPPED modified sequence

`python -m picked_group_fdr.quantification` with `--fasta` / `--peptide_protein_map` and the default methods of
`picked_group_fdr --do_quant` remap: `get_proteins` of `parsers/psm.py` looks the row's modified sequence up through
`helpers.remove_modifications`.  The stripping is `C10.removeMods` (model of C10, imported); what C10 proves about it —
every spelling of a bare peptide with `( … )` tokens (nested MaxQuant tokens `(Oxidation (M))` included), `[ … ]`
tokens and stray `)` strips to the bare peptide, a string without delimiters is left alone
(`C10.modification_spelling_irrelevant`, `C10.removeModsL_spells`) — is used here, not repeated.  The theorems below
put the stripping inside the C12 statements: a row whose stripped peptide were wrong would be dropped or attached to
another group, and every column of this file would change. -/

/-- without remapping the row stream is the concatenation of the files as they are, so every theorem of this file
    about `quantify rows …` is a theorem about `quantifyFiles false …`; with remapping ONLY the protein list of a
    row changes: it becomes the digest's list (of the map of the file's position) of the stripped modified sequence;
    id, modified sequence, charge, experiment, fraction, intensity, PEP, SILAC and reporter values are untouched;
    files and maps are paired as `C10.pairUp` pairs them -/
theorem remap_rows (maps : List C10.DMap) (files : List (List Row)) :
    evidenceRows false maps files = files.flatten ∧
    (∀ groups level ibaq, quantifyFiles false maps files groups level ibaq = quantify files.flatten groups level ibaq) ∧
    (∀ x, x ∈ evidenceRows true maps files ↔
      ∃ p ∈ pairFiles true maps files, ∃ r ∈ p.2, x = remapRow true p.1 r) ∧
    (∀ (m : C10.DMap) (r : Row),
      (remapRow true m r).leading = C10.digestLookup m (C10.removeMods r.peptide) ∧
      (remapRow true m r).id = r.id ∧ (remapRow true m r).peptide = r.peptide ∧
      (remapRow true m r).charge = r.charge ∧ (remapRow true m r).experiment = r.experiment ∧
      (remapRow true m r).fraction = r.fraction ∧ (remapRow true m r).intensity = r.intensity ∧
      (remapRow true m r).pep = r.pep ∧ (remapRow true m r).silac = r.silac ∧ (remapRow true m r).tmt = r.tmt) ∧
    (∀ (rawFiles : List (List C10.RawRow)), pairFiles true maps rawFiles = C10.pairUp true maps rawFiles) := by
  have h0 : evidenceRows false maps files = files.flatten := by
    unfold evidenceRows pairFiles
    simpa using evidenceRows_replicate [] files
  refine ⟨h0, ?_, fun x => mem_evidenceRows true maps files x, ?_, fun _ => rfl⟩
  · intro groups level ibaq
    unfold quantifyFiles
    rw [h0]
  · intro m r
    exact ⟨rfl, rfl, rfl, rfl, rfl, rfl, rfl, rfl, rfl, rfl⟩

/-- "Each quantified evidence row is attached to exactly the one reported protein group containing all of its
    proteins" when the run remaps: the proteins of a row are those the digest lists for the BARE peptide its modified
    sequence spells (`C10.Spells`: any number of `( … )` / `[ … ]` tokens, nested MaxQuant tokens), decoys purged
    from target lists; hence two spellings of one bare peptide — one modification, two or more, none — have the
    same protein list and are attached to the same group (or both left out), and a row whose bare peptide the digest
    does not know has no proteins and is dropped -/
theorem remap_spelling (m : C10.DMap) (r r' : Row) (b : List Char)
    (h : C10.Spells r.peptide.toList b) (h' : C10.Spells r'.peptide.toList b) :
    prots (remapRow true m r) = removeDecoyProteinsFromTargetPeptides (C10.digestLookup m (String.ofList b)) ∧
    prots (remapRow true m r) = prots (remapRow true m r') ∧
    (∀ groups, attachTo groups (remapRow true m r) = attachTo groups (remapRow true m r')) ∧
    (C10.digestLookup m (String.ofList b) = [] → ∀ rows, remapRow true m r ∉ parsed rows) := by
  have e : ∀ x : Row, C10.Spells x.peptide.toList b →
      prots (remapRow true m x) = removeDecoyProteinsFromTargetPeptides (C10.digestLookup m (String.ofList b)) := by
    intro x hx
    rw [prots_remap]
    unfold C10.removeMods
    rw [C10.removeModsL_spells hx]
  refine ⟨e r h, by rw [e r h, e r' h'], fun groups => attachTo_congr groups _ _ (by rw [e r h, e r' h']), ?_⟩
  intro hnil rows hmem
  have := ((mem_parsed rows _).mp hmem).2
  rw [e r h, hnil] at this
  exact this rfl

/-- an unmodified sequence (no `(`, `)`, `[`, `]`) is looked up under itself -/
theorem remap_unmodified (m : C10.DMap) (r : Row) (h : C10.Plain r.peptide.toList) :
    (remapRow true m r).leading = C10.digestLookup m r.peptide := by
  have h1 : C10.removeModsL r.peptide.toList = r.peptide.toList := by
    have := C10.removeModsL_plain_append r.peptide.toList [] h
    have h0 : C10.removeModsL [] = [] := rfl
    rw [h0] at this
    simpa using this
  show C10.digestLookup m (C10.removeMods r.peptide) = _
  unfold C10.removeMods
  rw [h1, String.ofList_toList]

/-- `attach_unique` for a remapping run: the precursors of reported group `g` are the remapped evidence rows (file
    order, each through the map of its file's position) that have a protein after the decoy purge and whose proteins
    are all listed by `g` -/
theorem remap_attach_unique (maps : List C10.DMap) (files : List (List Row)) (groups : List (List String)) (g : Nat)
    (x : Row) :
    x ∈ attached (evidenceRows true maps files) groups g ↔
      (∃ p ∈ pairFiles true maps files, ∃ r ∈ p.2, x = remapRow true p.1 r) ∧
        prots x ≠ [] ∧ ∀ q ∈ prots x, idxOf groups q = some g := by
  rw [attach_unique, mem_evidenceRows]

/-- a `[ … ]` token whose body holds a `( … )` token — `[Phospho (STY)]`, `[Oxidation (M)]`, `[Acetyl (Protein N-term)]`,
    outside the grammar `C10.Spells` (bracket bodies free of `(`) — is removed as a whole: the first regex pass takes the
    inner token, the second the bracket that is left -/
theorem strip_bracket_with_inner_paren (a b c rest : List Char)
    (ha : ∀ x ∈ a, x ≠ '(' ∧ x ≠ ']') (hb : ∀ x ∈ b, x ≠ ')') (hc : ∀ x ∈ c, x ≠ '(' ∧ x ≠ ']') :
    C10.removeModsL ('[' :: (a ++ '(' :: (b ++ ')' :: (c ++ ']' :: rest)))) = C10.removeModsL rest :=
  removeModsL_bracket_nested a b c rest ha hb hc

/-! non-vacuity: modified sequences with TWO OR MORE modifications in every notation the parsers accept -/
example : C10.removeModsL "AAAM(ox)PEPTM(ox)DEK".toList = "AAAMPEPTMDEK".toList := by decide
example : C10.removeModsL "(ac)MAAM(ox)PEPTM(ox)DEK".toList = "MAAMPEPTMDEK".toList := by decide
example : C10.removeModsL "M(Oxidation (M))AAM(Oxidation (M))K".toList = "MAAMK".toList := by decide
example : C10.removeModsL "S[Phospho (STY)]AAM[Oxidation (M)]K".toList = "SAAMK".toList := by decide
example : C10.removeModsL "(Acetyl (Protein N-term))M(Oxidation (M))S(Phospho (STY))K".toList = "MSK".toList := by decide
example : C10.Spells "AAM(ox)PM(ox)K".toList "AAMPMK".toList :=
  .residue 'A' (by decide) (.residue 'A' (by decide) (.residue 'M' (by decide) (.paren "ox".toList (by decide)
    (.residue 'P' (by decide) (.residue 'M' (by decide) (.paren "ox".toList (by decide)
      (.residue 'K' (by decide) .nil)))))))
example : C10.Plain "AAMPMK".toList := by unfold C10.Plain; decide

private def mapEx : C10.DMap := [("AAMPMK", ["P1"]), ("AAK", ["P3"]), ("DDK", ["P3", "REV__P1"])]
private def m1 : Row :=
  { id := 7, peptide := "AAM(ox)PM(ox)K", charge := 2, experiment := "E1", fraction := "-1",
    leading := ["ignored"], intensity := some 100, pep := .fin (1/1000), silac := [], tmt := [] }
private def m2 : Row := { m1 with id := 8, peptide := "AAM(Oxidation (M))PMK", experiment := "E2", pep := .nan }
private def m3 : Row := { m1 with id := 9, peptide := "AAMK", leading := ["P1"] }
private def m4 : Row := { m1 with id := 10, peptide := "[ac]DDK", intensity := none }
/-- both spellings reach group 0 through the digest of the bare peptide, the `Leading proteins` cell is ignored, the
    row whose stripped peptide the digest does not know is dropped, the decoy listed with a target is purged -/
example : (List.range 2).map (fun g => (attached (evidenceRows true [mapEx] [[m1, m2], [m3, m4]]) [["P1"], ["P3"]] g).map
    (fun x => (x.id, x.peptide, x.leading))) =
    [[(7, "AAM(ox)PM(ox)K", ["P1"]), (8, "AAM(Oxidation (M))PMK", ["P1"])], [(10, "[ac]DDK", ["P3", "REV__P1"])]] := by
  decide +kernel
example : evidenceRows false [mapEx] [[m1, m2], [m3, m4]] = [m1, m2, m3, m4] := by decide +kernel

/-! ## the column pipeline: the C12 columns are functions of the precursor list alone

`append_quant_columns` hands the SAME per-group list `pgr.precursorQuants` to every generator of
`writer.get_columns()`; with the default options the MaxLFQ generator runs between the summed-intensity generator
and the sequence-coverage / reporter / evidence-id generators.  In the model (`Model/C12Columns.lean`) the cells of
the five C12 generators are `c12Cells x quants g` — the loop functions every per-column theorem of this file is
about (`peptideCounts`, `idTypes`, `intensities` / `totalOf` / `leadingN`, `tmtSums`, `evidenceIds`), applied to the
list — and the cells of all other generators are an arbitrary parameter `foreign`. -/

/-- "Per group and experiment the summed intensity, iBAQ …, unique-peptide counts, identification type and evidence
    IDs equal a direct recomputation from those precursors" — whichever other columns are written, and in whichever
    order: for ANY two generator lists containing the C12 generator `g` (any order, any other generators between,
    before and after, e.g. with or without MaxLFQ) and ANY cells the other generators produce, the cells `g` writes
    are the same, namely the C12 function of the precursor list (`c12Cells`) when `g` is valid for the run
    (`C13.Gen.valid`: the reporter generator needs reporter channels) and none otherwise -/
theorem c12_columns_independent_of_other_columns (foreign foreign' : C13.Gen → List Row → List Cell) (x : ColCtx)
    (quants : List Row) (gens gens' : List C13.Gen) (g : C13.Gen) (hg : isC12Gen g = true)
    (h : g ∈ gens) (h' : g ∈ gens') :
    segmentOf (writerSegments foreign x quants gens) g = segmentOf (writerSegments foreign' x quants gens') g ∧
    segmentOf (writerSegments foreign x quants gens) g = (if g.valid x.hdr then c12Cells x quants g else none) := by
  have e : ∀ f gs, g ∈ gs →
      segmentOf (writerSegments f x quants gs) g = (if g.valid x.hdr then c12Cells x quants g else none) := by
    intro f gs hgs
    rw [segmentOf_writerSegments f x quants gs g hgs, genCells_c12 f x quants g hg]
  exact ⟨by rw [e foreign gens h, e foreign' gens' h'], e foreign gens h⟩

/-- column-order independence: reordering the generators reorders the segments and changes none (every generator is
    applied to the same immutable list) -/
theorem column_order_independent (foreign : C13.Gen → List Row → List Cell) (x : ColCtx) (quants : List Row)
    (gens gens' : List C13.Gen) (h : gens.Perm gens') :
    (writerSegments foreign x quants gens).Perm (writerSegments foreign x quants gens') :=
  (h.filter _).map _

/-- the MaxLFQ generator in particular: the row written with the default options (`(C13.Writer.maxquant false).columns`)
    is, after its MaxLFQ segment is taken out, the row written with `--skip_lfq`, segment by segment — whatever the
    MaxLFQ cells are -/
theorem lfq_column_irrelevant (foreign : C13.Gen → List Row → List Cell) (x : ColCtx) (quants : List Row) :
    (writerSegments foreign x quants (C13.Writer.maxquant false).columns).filter (fun s => s.1 != .lfq) =
      writerSegments foreign x quants (C13.Writer.maxquant true).columns := by
  rw [writerSegments_filter foreign x quants _ (fun g => g != .lfq)]
  rfl

/-- the cells of the C12 generators are the fields of `groupOut` — the record the driver op `quant` returns and
    `output_groups` / `output_groups_exps` tie to the run — so `counts_recompute`, `idtype_recompute`,
    `intensity_recompute`, `total_is_sum_of_experiments`, `ibaq_def`, `tmt_recompute`, `evidence_ids_sorted_exact`
    are statements about every row the pipeline writes -/
theorem pipeline_cells_are_groupOut (exps : List String) (S : Nat) (nS T : Int) (c : Rat) (ibaq : List (String × Nat))
    (ids : List String) (quants : List Row) :
    let o := groupOut exps S T c ibaq ids quants
    let x : ColCtx := { exps := exps, S := S, nSilac := nS, nTmt := T, c := c, ibaq := ibaq, ids := ids }
    c12Cells x quants .uniqueCounts = some (o.counts.map .nat) ∧
    c12Cells x quants .idType = some (o.idType.map .str) ∧
    c12Cells x quants .sumIbaq = some ([Cell.rat o.total] ++ o.intens.map .rat ++ [Cell.nats o.nPeps]
      ++ [Cell.rat o.ibaqTotal] ++ o.ibaq.map .rat) ∧
    (T > 0 → c12Cells x quants .tmt = some (o.tmt.map .rat)) ∧
    c12Cells x quants .evidenceIds = some [Cell.ints o.evidenceIds] := by
  refine ⟨rfl, rfl, ?_, ?_, rfl⟩
  · simp [c12Cells, groupOut, List.map_map, Function.comp]
  · intro hT
    simp [c12Cells, groupOut, hT]

/-- what the code must keep true for the pure pipeline to be its model: a generator MAY replace
    `pgr.precursorQuants` (`runSt`: each generator works on the list its predecessors left behind); if every
    generator hands the list on unchanged, the run is the pure pipeline and the list is still the identified
    precursors afterwards.  (The correspondence observes both sides on every case: the cells, and
    `pgr.precursorQuants` AFTER the writer ran.) -/
theorem stateful_pipeline_of_read_only (sts : List StGen) (quants : List Row)
    (h : ∀ s ∈ sts, ∀ q, (s.run q).2 = q) :
    runSt sts quants = (sts.map (fun s => (s.gen, (s.run quants).1)), quants) ∧
    ∀ (foreign : C13.Gen → List Row → List Cell) (x : ColCtx) (gens : List C13.Gen),
      runSt ((gens.filter (fun g => g.valid x.hdr)).map (readOnly foreign x)) quants =
        (writerSegments foreign x quants gens, quants) := by
  refine ⟨runSt_of_readOnly sts quants h, ?_⟩
  intro foreign x gens
  rw [runSt_of_readOnly _ quants (by
    intro s hs q
    obtain ⟨g, _, rfl⟩ := List.mem_map.mp hs
    rfl)]
  simp [writerSegments, readOnly, List.map_map, Function.comp]

/-! non-vacuity: a label-free run with two experiments (the MaxLFQ generator is valid); `q2` is an identified MS/MS row
without an MS1 intensity -/
private def q1 : Row :=
  { id := 5, peptide := "AAK", charge := 2, experiment := "E1", fraction := "-1",
    leading := ["P1"], intensity := some 100, pep := .fin (1/1000), silac := [], tmt := [] }
private def q2 : Row := { q1 with id := 3, peptide := "CCK", experiment := "E2", intensity := some 0 }
private def q3 : Row := { q1 with id := 4, experiment := "E2", intensity := none, pep := .nan }
private def xEx : ColCtx :=
  { exps := ["E1", "E2"], S := 0, nSilac := 0, nTmt := 0, c := 1/100, ibaq := [("P1", 2)], ids := ["P1"] }
private def lfqCells (_ : C13.Gen) (_ : List Row) : List Cell := [.foreign "lfq E1", .foreign "lfq E2"]
example : (writerSegments lfqCells xEx [q1, q2, q3] (C13.Writer.maxquant false).columns).map (·.1) =
    [.annotations, .uniqueCounts, .idType, .sumIbaq, .lfq, .coverage, .evidenceIds] := by decide +kernel
example : (writerSegments lfqCells xEx [q1, q2, q3] (C13.Writer.maxquant true).columns).map (·.1) =
    [.annotations, .uniqueCounts, .idType, .sumIbaq, .coverage, .evidenceIds] := by decide +kernel
example : segmentOf (writerSegments lfqCells xEx [q1, q2, q3] (C13.Writer.maxquant false).columns) .evidenceIds =
    some [.ints [3, 4, 5]] ∧
    segmentOf (writerSegments lfqCells xEx [q1, q2, q3] (C13.Writer.maxquant false).columns) .uniqueCounts =
    some [.nat 2, .nat 1, .nat 2] ∧
    segmentOf (writerSegments lfqCells xEx [q1, q2, q3] (C13.Writer.maxquant false).columns) .sumIbaq =
    some [.rat 100, .rat 100, .rat 0, .nats [2], .rat 50, .rat 50, .rat 0] := by decide +kernel
/-- the hypothesis of `stateful_pipeline_of_read_only` is needed: a MaxLFQ generator that keeps only the precursors with
    a positive intensity for itself AND for its successors makes the evidence-id generator lose the rows 3 and 4 that the
    count generator (which ran before) counted -/
private def greedyLfq : StGen :=
  { gen := .lfq, run := fun q => ([.foreign "lfq"], q.filter (fun p => match p.intensity with | some v => decide (v > 0) | none => false)) }
example : (runSt [readOnly lfqCells xEx .uniqueCounts, greedyLfq, readOnly lfqCells xEx .evidenceIds] [q1, q2, q3]) =
    ([(.uniqueCounts, [.nat 2, .nat 1, .nat 2]), (.lfq, [.foreign "lfq"]), (.evidenceIds, [.ints [5]])], [q1]) := by
  decide +kernel
example : (runSt [readOnly lfqCells xEx .uniqueCounts, readOnly lfqCells xEx .lfq, readOnly lfqCells xEx .evidenceIds]
    [q1, q2, q3]).1.lookup .evidenceIds = some [.ints [3, 4, 5]] := by decide +kernel

end PgFdr.C12
