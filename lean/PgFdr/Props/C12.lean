import PgFdr.Proofs.C12

namespace PgFdr.C12

/-- placeholder while the correspondence is brought up -/
theorem retain_sub (c : Rat) (quants : List Row) : ∀ q ∈ retain c quants, q ∈ quants := by
  intro q hq
  exact (List.mem_filter.mp hq).1

end PgFdr.C12
