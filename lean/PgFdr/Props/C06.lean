import PgFdr.Proofs.C06
import PgFdr.Proofs.C01
import PgFdr.Proofs.Pipeline

/-!
# C06 — every reported row is consistent with its group's evidence peptides

Property text (properties.jsonl): "For every reported group the listed proteins are the members with
at least one evidence peptide at or below the peptide-level PEP cutoff (all members when keep-all is
set), each paired with its number of distinct such peptides - a peptide counts once per protein even
if that protein is listed for it repeatedly; majority proteins are those with at least half the
maximal count, the best peptide is the evidence peptide with the lowest PEP, and the protein number
and the decoy and contaminant flags match the listed proteins. A group none of whose proteins has
such a peptide is omitted unless keep-all is set, rows are in non-increasing score order, and no
protein occurs in two rows."

Only property theorems live here.  The executable model is `PgFdr.C06.fromProteinGroups` /
`fromProteinGroup` (`Model/C06.lean`), tied to `ProteinGroupResults.from_protein_groups` /
`ProteinGroupResult.from_protein_group` by the correspondence of `harness/props/C06.py`.

Reading guide.  `report_alignment` says where every row comes from: row `k` is
`fromProteinGroup` of the `idx[k]`-th position of `zip(groups, infos, scores, qvals)`, `idx` strictly
increasing.  The `row_*` theorems characterise every such `fromProteinGroup … = ok (some row)`.
`distinctCount cutoff info p` (Model/C06.lean, specification side) is the number of distinct peptides
among the evidence entries at or below the cutoff whose protein list *mentions* `p` (membership — a
repeated listing cannot count twice).  `hc : Consistent info` says that evidence entries carrying the
same peptide mention the same proteins; it follows from `evidence_peptides_nodup` (inside the
pipeline a group's evidence never holds a peptide twice — it is built from a dict):
`consistent_of_nodup`.  The code only looks at a peptide's first occurrence in
`(PEP, peptide, proteins)` order, so without it the count is not a function of the set of
(peptide, protein) incidences.  `cutoff = none` is `float("inf")`.

"no protein occurs in two rows" needs the partition property of the grouping stage (C03/C04);
at the level of this stage it is proved relative to that: `rows_disjoint_partial`.  The full statement,
for the whole inference function, is `pipeline_rows_disjoint` at the end of this file (together with
`pipeline_rows_consistent`, which discharges `Consistent` for the pipeline).
-/
namespace PgFdr.C06

/-- "Reported rows carry exactly the score and q-value computed on that ranking, in the same
    relative order, even when other ranked groups are withheld" (C01) / where each row comes from:
    a strictly increasing list `idx` of positions of the four-way zip, one per row, such that row `k`
    is built by `fromProteinGroup` from the group, evidence, score and q-value at position `idx[k]`
    (which is not a placeholder) and carries exactly that score and q-value -/
theorem report_alignment (groups : List (List String)) (infos : List (List Evidence))
    (scores qvals : List Rat) (cutoff : Option Rat) (keepAll : Bool) (rows : List RowData)
    (h : fromProteinGroups groups infos scores qvals cutoff keepAll = .ok rows) :
    ∃ idx : List Nat, idx.Pairwise (· < ·) ∧ idx.length = rows.length ∧
      ∀ (k i : Nat), idx[k]? = some i →
        ∃ row g info s q, rows[k]? = some row ∧
          groups[i]? = some g ∧ infos[i]? = some info ∧ scores[i]? = some s ∧ qvals[i]? = some q ∧
          row.score = s ∧ row.qValue = q ∧ isObsolete g = false ∧
          fromProteinGroup g info q s cutoff keepAll = .ok (some row) :=
  report_alignment_aux groups infos scores qvals cutoff keepAll rows h

/-- `evidence_peptides_nodup`: a group's evidence that holds every peptide once is consistent -/
theorem consistent_of_nodup (info : List Evidence) (hnd : (info.map (·.peptide)).Nodup) :
    Consistent info :=
  consistent_of_nodup_aux info hnd

/-- "the listed proteins are the members with at least one evidence peptide at or below the
    peptide-level PEP cutoff (all members when keep-all is set)", in the group's order; a reported
    row lists at least one protein -/
theorem row_listed_proteins (g : List String) (info : List Evidence) (q s : Rat)
    (cutoff : Option Rat) (keepAll : Bool) (row : RowData)
    (h : fromProteinGroup g info q s cutoff keepAll = .ok (some row))
    (hc : Consistent info) :
    row.proteins = g.filter (fun p => keepAll || decide (0 < distinctCount cutoff info p)) ∧
    row.proteins ≠ [] := by
  obtain ⟨h1, -, -, -, -, -, -, -, -, h10, -⟩ := fromProteinGroup_some g info q s cutoff keepAll row h
  refine ⟨?_, h10⟩
  rw [h1]
  apply List.filter_congr
  intro p _
  rw [cnt_eq_of_consistent cutoff info hc p, Bool.or_comm]

/-- "each paired with its number of distinct such peptides - a peptide counts once per protein even
    if that protein is listed for it repeatedly": the counts are positionally the `distinctCount`s of
    the listed proteins, and `distinctCount` only asks whether the protein is *mentioned* in a
    peptide's protein list -/
theorem row_counts_distinct (g : List String) (info : List Evidence) (q s : Rat)
    (cutoff : Option Rat) (keepAll : Bool) (row : RowData)
    (h : fromProteinGroup g info q s cutoff keepAll = .ok (some row))
    (hc : Consistent info) :
    row.counts = row.proteins.map (distinctCount cutoff info) ∧
    ∀ p, distinctCount cutoff info p =
      ((info.filter (fun e => within cutoff e && decide (p ∈ e.proteins))).map (·.peptide)).eraseDups.length := by
  obtain ⟨-, h2, -⟩ := fromProteinGroup_some g info q s cutoff keepAll row h
  refine ⟨?_, fun p => rfl⟩
  rw [h2]
  apply List.map_congr_left
  intro p _
  exact cnt_eq_of_consistent cutoff info hc p

/-- "majority proteins are those with at least half the maximal count": `M` is the maximum of the
    row's counts (an upper bound that is attained) and the majority proteins are the listed proteins
    `p` with `M ≤ 2 · count p`, in order -/
theorem row_majority (g : List String) (info : List Evidence) (q s : Rat)
    (cutoff : Option Rat) (keepAll : Bool) (row : RowData)
    (h : fromProteinGroup g info q s cutoff keepAll = .ok (some row))
    (hc : Consistent info) :
    ∃ M, M ∈ row.counts ∧ (∀ c ∈ row.counts, c ≤ M) ∧
      row.majority = row.proteins.filter (fun p => decide (M ≤ 2 * distinctCount cutoff info p)) := by
  obtain ⟨-, h2, h3, -, -, -, -, -, -, h10, -⟩ := fromProteinGroup_some g info q s cutoff keepAll row h
  have hne : row.counts ≠ [] := by
    rw [h2]; intro hnil; exact h10 (List.map_eq_nil_iff.mp hnil)
  obtain ⟨hub, hmem⟩ := maxCount_spec row.counts hne
  refine ⟨maxCount row.counts, hmem, hub, ?_⟩
  rw [h3]
  apply List.filter_congr
  intro p _
  rw [cnt_eq_of_consistent cutoff info hc p]

/-- "the best peptide is the evidence peptide with the lowest PEP" (any evidence peptide, not only
    those within the cutoff; among equal PEPs the first peptide in code-point order) -/
theorem row_best_peptide (g : List String) (info : List Evidence) (q s : Rat)
    (cutoff : Option Rat) (keepAll : Bool) (row : RowData)
    (h : fromProteinGroup g info q s cutoff keepAll = .ok (some row)) :
    ∃ e ∈ info, e.peptide = row.bestPeptide ∧
      ∀ e' ∈ info, e.pep ≤ e'.pep ∧ (e'.pep = e.pep → e.peptide ≤ e'.peptide) := by
  obtain ⟨-, -, -, h4, -⟩ := fromProteinGroup_some g info q s cutoff keepAll row h
  unfold bestPeptide at h4
  cases hb : bestPair info with
  | none => simp [hb] at h4
  | some vs =>
    obtain ⟨v, s'⟩ := vs
    simp only [hb, Option.map_some, Option.some.injEq] at h4
    obtain ⟨⟨e, he, hv, hs⟩, hmin⟩ := bestPair_spec info v s' hb
    subst h4
    refine ⟨e, he, hs, ?_⟩
    intro e' he'
    rw [hv, hs]
    exact hmin e' he'

/-- "the protein number and the decoy and contaminant flags match the listed proteins", and the row
    carries the score and q-value it was given -/
theorem row_number_and_flags (g : List String) (info : List Evidence) (q s : Rat)
    (cutoff : Option Rat) (keepAll : Bool) (row : RowData)
    (h : fromProteinGroup g info q s cutoff keepAll = .ok (some row)) :
    row.numberOfProteins = row.proteins.length ∧
    row.reverse = isDecoy row.proteins ∧ row.contaminant = isContaminant row.proteins ∧
    row.score = s ∧ row.qValue = q := by
  obtain ⟨-, -, -, -, h5, h6, h7, h8, h9, -⟩ := fromProteinGroup_some g info q s cutoff keepAll row h
  exact ⟨h5, h8, h9, h7, h6⟩

/-- the flags in terms of the identifiers: "Reverse" is set iff one decoy marker (`REV__`, or `rev_`)
    occurs in every listed protein, "Potential contaminant" iff `CON__` occurs in every listed protein
    (Python `in`: anywhere in the identifier) -/
theorem row_flags_spec (g : List String) (info : List Evidence) (q s : Rat)
    (cutoff : Option Rat) (keepAll : Bool) (row : RowData)
    (h : fromProteinGroup g info q s cutoff keepAll = .ok (some row)) :
    (row.reverse = true ↔
      (∀ p ∈ row.proteins, ∃ a b, p.toList = a ++ "REV__".toList ++ b) ∨
      (∀ p ∈ row.proteins, ∃ a b, p.toList = a ++ "rev_".toList ++ b)) ∧
    (row.contaminant = true ↔ ∀ p ∈ row.proteins, ∃ a b, p.toList = a ++ "CON__".toList ++ b) := by
  obtain ⟨-, -, -, -, -, -, -, h8, h9, -⟩ := fromProteinGroup_some g info q s cutoff keepAll row h
  constructor
  · rw [h8]; exact C01.decoy_only_if_all_aux row.proteins
  · rw [h9]
    unfold isContaminant
    rw [C01.allContain_iff]
    simp only [strContains, C01.containsSub_iff]

/-- all of the above for every row of a report: each row comes from one position of the zip (in
    order, `report_alignment`) and every field is the stated function of that position's group and
    evidence -/
theorem reported_rows_consistent (groups : List (List String)) (infos : List (List Evidence))
    (scores qvals : List Rat) (cutoff : Option Rat) (keepAll : Bool) (rows : List RowData)
    (h : fromProteinGroups groups infos scores qvals cutoff keepAll = .ok rows)
    (hc : ∀ info ∈ infos, Consistent info) :
    ∀ row ∈ rows, ∃ (i : Nat) (g : List String) (info : List Evidence),
      groups[i]? = some g ∧ infos[i]? = some info ∧ isObsolete g = false ∧
      scores[i]? = some row.score ∧ qvals[i]? = some row.qValue ∧
      row.proteins = g.filter (fun p => keepAll || decide (0 < distinctCount cutoff info p)) ∧
      row.proteins ≠ [] ∧
      row.counts = row.proteins.map (distinctCount cutoff info) ∧
      (∃ M, M ∈ row.counts ∧ (∀ c ∈ row.counts, c ≤ M) ∧
        row.majority = row.proteins.filter (fun p => decide (M ≤ 2 * distinctCount cutoff info p))) ∧
      (∃ e ∈ info, e.peptide = row.bestPeptide ∧
        ∀ e' ∈ info, e.pep ≤ e'.pep ∧ (e'.pep = e.pep → e.peptide ≤ e'.peptide)) ∧
      row.numberOfProteins = row.proteins.length ∧
      row.reverse = isDecoy row.proteins ∧ row.contaminant = isContaminant row.proteins := by
  intro row hrow
  obtain ⟨idx, -, h2, h3⟩ := report_alignment groups infos scores qvals cutoff keepAll rows h
  obtain ⟨k, hk⟩ := List.getElem?_of_mem hrow
  have hkl : k < idx.length := by rw [h2]; exact (List.getElem?_eq_some_iff.mp hk).1
  obtain ⟨row', g, info, s, q, hr, hg, hi, hs, hq, hrs, hrq, ho, hf⟩ := h3 k idx[k] (List.getElem?_eq_getElem hkl)
  rw [hk] at hr
  obtain rfl := Option.some.inj hr
  have hci : Consistent info := hc info (List.mem_of_getElem? hi)
  obtain ⟨l1, l2⟩ := row_listed_proteins g info q s cutoff keepAll row hf hci
  obtain ⟨c1, -⟩ := row_counts_distinct g info q s cutoff keepAll row hf hci
  obtain ⟨n1, n2, n3, -, -⟩ := row_number_and_flags g info q s cutoff keepAll row hf
  exact ⟨idx[k], g, info, hg, hi, ho, hrs ▸ hs, hrq ▸ hq, l1, l2, c1,
    row_majority g info q s cutoff keepAll row hf hci,
    row_best_peptide g info q s cutoff keepAll row hf, n1, n2, n3⟩

/-- "A group none of whose proteins has such a peptide is omitted unless keep-all is set": a position
    of the zip is left out of the report exactly if its group is a placeholder (`OBSOLETE__` in every
    member, or no member) or keep-all is off and no member has a peptide within the cutoff -/
theorem row_omitted_iff (groups : List (List String)) (infos : List (List Evidence))
    (scores qvals : List Rat) (cutoff : Option Rat) (keepAll : Bool) (rows : List RowData)
    (h : fromProteinGroups groups infos scores qvals cutoff keepAll = .ok rows)
    (hc : ∀ info ∈ infos, Consistent info) :
    ∃ idx : List Nat, idx.Pairwise (· < ·) ∧ idx.length = rows.length ∧
      (∀ i ∈ idx, i < (slots groups infos scores qvals).length) ∧
      ∀ (i : Nat) g info, i < (slots groups infos scores qvals).length →
        groups[i]? = some g → infos[i]? = some info →
        (i ∉ idx ↔ isObsolete g = true ∨
          (keepAll = false ∧ ∀ p ∈ g, distinctCount cutoff info p = 0)) := by
  obtain ⟨idx, h1, h2, h3, h4⟩ := rowsOfSlots_aligned cutoff keepAll _ rows h
  refine ⟨idx, h1, h2, ?_, ?_⟩
  · intro i hi
    obtain ⟨k, hk⟩ := List.getElem?_of_mem hi
    obtain ⟨row, -, g, info, s, q, hsl, -⟩ := h3 k i hk
    exact (List.getElem?_eq_some_iff.mp hsl).1
  · intro i g info hi hg hinfo
    have hci : Consistent info := hc info (List.mem_of_getElem? hinfo)
    constructor
    · intro hni
      obtain ⟨g', info', s, q, hsl, hw⟩ := h4 i hi hni
      obtain ⟨e1, e2, -, -⟩ := (slots_getElem? groups infos scores qvals i g' info' s q).mp hsl
      rw [hg] at e1; rw [hinfo] at e2
      obtain rfl := Option.some.inj e1
      obtain rfl := Option.some.inj e2
      rcases hw with hw | hw
      · exact Or.inl hw
      · right
        obtain ⟨hk, hz⟩ := (fromProteinGroup_none_iff g info q s cutoff keepAll).mp hw
        refine ⟨hk, ?_⟩
        intro p hp
        rw [← cnt_eq_of_consistent cutoff info hci p]; exact hz p hp
    · intro hw hmem
      obtain ⟨k, hk⟩ := List.getElem?_of_mem hmem
      obtain ⟨row, -, g', info', s, q, hsl, ho, hf⟩ := h3 k i hk
      obtain ⟨e1, e2, -, -⟩ := (slots_getElem? groups infos scores qvals i g' info' s q).mp hsl
      rw [hg] at e1; rw [hinfo] at e2
      obtain rfl := Option.some.inj e1
      obtain rfl := Option.some.inj e2
      rcases hw with hw | ⟨hk', hz⟩
      · rw [hw] at ho; exact Bool.noConfusion ho
      · have : fromProteinGroup g info q s cutoff keepAll = .ok none := by
          rw [fromProteinGroup_none_iff]
          refine ⟨hk', ?_⟩
          intro p hp
          rw [cnt_eq_of_consistent cutoff info hci p]; exact hz p hp
        rw [this] at hf
        simp at hf

/-- "rows are in non-increasing score order" (given the ranking's scores are non-increasing, which
    is what the competition stage delivers) -/
theorem rows_sorted_by_score (groups : List (List String)) (infos : List (List Evidence))
    (scores qvals : List Rat) (cutoff : Option Rat) (keepAll : Bool) (rows : List RowData)
    (h : fromProteinGroups groups infos scores qvals cutoff keepAll = .ok rows)
    (hs : scores.Pairwise (· ≥ ·)) : (rows.map (·.score)).Pairwise (· ≥ ·) := by
  obtain ⟨idx, h1, h2, h3⟩ := report_alignment groups infos scores qvals cutoff keepAll rows h
  rw [List.pairwise_map, List.pairwise_iff_getElem]
  intro a b ha hb hab
  have hia : a < idx.length := by omega
  have hib : b < idx.length := by omega
  obtain ⟨ra, _, _, sa, _, hra, _, _, hsa, _, hsca, _⟩ := h3 a idx[a] (List.getElem?_eq_getElem hia)
  obtain ⟨rb, _, _, sb, _, hrb, _, _, hsb, _, hscb, _⟩ := h3 b idx[b] (List.getElem?_eq_getElem hib)
  rw [List.getElem?_eq_getElem ha] at hra
  rw [List.getElem?_eq_getElem hb] at hrb
  obtain rfl := Option.some.inj hra
  obtain rfl := Option.some.inj hrb
  rw [hsca, hscb]
  have hlt : idx[a] < idx[b] := List.pairwise_iff_getElem.mp h1 a b hia hib hab
  have hla : idx[a] < scores.length := (List.getElem?_eq_some_iff.mp hsa).1
  have hlb : idx[b] < scores.length := (List.getElem?_eq_some_iff.mp hsb).1
  have := List.pairwise_iff_getElem.mp hs idx[a] idx[b] hla hlb hlt
  rw [List.getElem?_eq_getElem hla] at hsa
  rw [List.getElem?_eq_getElem hlb] at hsb
  obtain rfl := Option.some.inj hsa
  obtain rfl := Option.some.inj hsb
  exact this

/-- "no protein occurs in two rows".
    Full statement (not provable from this stage alone): for every peptide list and shipped method,
    the rows of `get_protein_group_results` are pairwise disjoint.  Missing case: that the groups
    handed to `from_protein_groups` are pairwise disjoint, which is the partition property of the
    grouping / rescue stage (C03, C04) carried through the competition (C02: survivors are input
    groups).  Proved part: if no protein occurs in two of the input groups, none occurs in two rows
    (each row lists a sub-list of its own group, distinct rows come from distinct positions) -/
theorem rows_disjoint_partial (groups : List (List String)) (infos : List (List Evidence))
    (scores qvals : List Rat) (cutoff : Option Rat) (keepAll : Bool) (rows : List RowData)
    (h : fromProteinGroups groups infos scores qvals cutoff keepAll = .ok rows)
    (hd : groups.Pairwise (fun a b => ∀ p, p ∈ a → p ∉ b)) :
    rows.Pairwise (fun a b => ∀ p, p ∈ a.proteins → p ∉ b.proteins) := by
  obtain ⟨idx, h1, h2, h3⟩ := report_alignment groups infos scores qvals cutoff keepAll rows h
  rw [List.pairwise_iff_getElem]
  intro a b ha hb hab
  have hia : a < idx.length := by omega
  have hib : b < idx.length := by omega
  obtain ⟨ra, ga, ia, sa, qa, hra, hga, _, _, _, _, _, _, hfa⟩ := h3 a idx[a] (List.getElem?_eq_getElem hia)
  obtain ⟨rb, gb, ib, sb, qb, hrb, hgb, _, _, _, _, _, _, hfb⟩ := h3 b idx[b] (List.getElem?_eq_getElem hib)
  rw [List.getElem?_eq_getElem ha] at hra
  rw [List.getElem?_eq_getElem hb] at hrb
  obtain rfl := Option.some.inj hra
  obtain rfl := Option.some.inj hrb
  have hlt : idx[a] < idx[b] := List.pairwise_iff_getElem.mp h1 a b hia hib hab
  have hla : idx[a] < groups.length := (List.getElem?_eq_some_iff.mp hga).1
  have hlb : idx[b] < groups.length := (List.getElem?_eq_some_iff.mp hgb).1
  have hdis := List.pairwise_iff_getElem.mp hd idx[a] idx[b] hla hlb hlt
  rw [List.getElem?_eq_getElem hla] at hga
  rw [List.getElem?_eq_getElem hlb] at hgb
  obtain rfl := Option.some.inj hga
  obtain rfl := Option.some.inj hgb
  obtain ⟨pa, -⟩ := fromProteinGroup_some _ _ _ _ _ _ _ hfa
  obtain ⟨pb, -⟩ := fromProteinGroup_some _ _ _ _ _ _ _ hfb
  intro p hpa hpb
  rw [pa] at hpa; rw [pb] at hpb
  exact hdis p (List.mem_filter.mp hpa).1 (List.mem_filter.mp hpb).1

/-- the only way the report fails: keep-all is set and a non-placeholder group has no evidence at
    all (`sorted([])[0]`); the model rejects exactly this -/
theorem report_error (groups : List (List String)) (infos : List (List Evidence))
    (scores qvals : List Rat) (cutoff : Option Rat) (keepAll : Bool) (e : String)
    (h : fromProteinGroups groups infos scores qvals cutoff keepAll = .error e) :
    keepAll = true ∧ e = "no_evidence" ∧
      ∃ (i : Nat) (g : List String), groups[i]? = some g ∧ infos[i]? = some [] ∧ isObsolete g = false := by
  obtain ⟨g, info, s, q, hm, ho, hf⟩ := rowsOfSlots_error cutoff keepAll _ e h
  obtain ⟨hk, hcase⟩ := fromProteinGroup_error g info q s cutoff keepAll e hf
  obtain ⟨i, hi⟩ := List.getElem?_of_mem hm
  obtain ⟨e1, e2, -, -⟩ := (slots_getElem? groups infos scores qvals i g info s q).mp hi
  rcases hcase with ⟨-, hg⟩ | ⟨he, hinfo⟩
  · subst hg; simp [isObsolete, allContain] at ho
  · exact ⟨hk, he, i, g, e1, hinfo ▸ e2, ho⟩

/-- what the writer (and the correspondence) sees: the list-valued fields joined with ";",
    the flags as "+" / "" -/
theorem render_fields (d : RowData) :
    (render d).proteinIds = joinWith ";" d.proteins ∧
    (render d).majorityProteinIds = joinWith ";" d.majority ∧
    (render d).peptideCountsUnique = joinWith ";" (d.counts.map toString) ∧
    (render d).bestPeptide = d.bestPeptide ∧ (render d).numberOfProteins = d.numberOfProteins ∧
    (render d).qValue = d.qValue ∧ (render d).score = d.score ∧
    ((render d).reverse = "+" ↔ d.reverse = true) ∧
    ((render d).potentialContaminant = "+" ↔ d.contaminant = true) := by
  refine ⟨rfl, rfl, rfl, rfl, rfl, rfl, rfl, ?_, ?_⟩
  · cases h : d.reverse <;> simp [render, flag, h]
  · cases h : d.contaminant <;> simp [render, flag, h]

/-! Non-vacuity: the gene-level example of DESIGN.md §9 item 4 (`G1` listed twice for `PEPA`), a
placeholder in between and a decoy group; the report has two rows, from positions 0 and 2. -/

private def exGroups : List (List String) := [["G1", "G2", "G3"], ["OBSOLETE__X"], ["REV__Y"]]
private def exInfos : List (List Evidence) :=
  [[⟨3/1000, "PEPC", ["G2", "G1"]⟩, ⟨1/1000, "PEPA", ["G1", "G1", "G2"]⟩, ⟨2/1000, "PEPB", ["G2"]⟩,
    ⟨1/2, "PEPD", ["G3"]⟩],
   [], [⟨1/100, "PEPE", ["REV__Y"]⟩]]

example : fromProteinGroups exGroups exInfos [3, 2, 1] [1/2, 1/2, 1] (some (1/100)) false =
    .ok [{ proteins := ["G1", "G2"], majority := ["G1", "G2"], counts := [2, 3], bestPeptide := "PEPA",
           numberOfProteins := 2, qValue := 1/2, score := 3, reverse := false, contaminant := false },
         { proteins := ["REV__Y"], majority := ["REV__Y"], counts := [1], bestPeptide := "PEPE",
           numberOfProteins := 1, qValue := 1, score := 1, reverse := true, contaminant := false }] := by
  decide +kernel

example : ∀ info ∈ exInfos, (info.map (·.peptide)).Nodup := by decide +kernel

example : ∀ info ∈ exInfos, Consistent info :=
  fun info h => consistent_of_nodup info ((by decide +kernel : ∀ info ∈ exInfos, (info.map (·.peptide)).Nodup) info h)

example : distinctCount (some (1/100)) (exInfos.getD 0 []) "G1" = 2 := by decide +kernel

/-- the same peptide twice (consistent protein sets, different PEPs, repeated listing): counted once -/
example : peptideCounts none [⟨1/100, "PEPA", ["G1"]⟩, ⟨1/1000, "PEPA", ["G1", "G1"]⟩] ["G1"] = [1] := by
  decide +kernel

example : ([3, 2, 1] : List Rat).Pairwise (· ≥ ·) := by decide +kernel

example : exGroups.Pairwise (fun a b => ∀ p, p ∈ a → p ∉ b) := by decide +kernel

example : fromProteinGroups [["G1"]] [[]] [1] [1] none true = .error "no_evidence" := by decide +kernel

/-! ## The row statements for the whole inference function

`PgFdr.Pipeline.run cfg inp` (`Model/Pipeline.lean`) is the composed executable model of
`get_protein_group_results` that the driver op `pipeline` runs and `harness/pipeline.py` compares with the
real function.  The theorems below hold for EVERY configuration (grouping no / subset / rescued subset /
pseudo-gene × razor × picked / picked-group / classic), every recorded shuffle, cut map, score vector and
rescue cutoff.  The only hypothesis is `Pipeline.distinctPeptides inp.pil`: no peptide key occurs twice in
the peptide list — the implementation's `PeptideInfoList` is a Python `dict`, so every input the real
function can receive satisfies it.  It is needed twice: the grouping stage partitions the proteins only
for a dict (C03 `subset_partition`, `hkeys`), and an evidence list holds a peptide once only then, which is
what makes the count of "distinct such peptides" a function of the evidence (`Consistent`). -/

/-- `rows_disjoint_partial` with the hypothesis the pipeline can deliver: it suffices that no protein
    occurs in two input groups that are NOT placeholders (`is_obsolete` groups are skipped by
    `from_protein_groups`, so what they list does not matter) -/
theorem rows_disjoint_regular (groups : List (List String)) (infos : List (List Evidence))
    (scores qvals : List Rat) (cutoff : Option Rat) (keepAll : Bool) (rows : List RowData)
    (h : fromProteinGroups groups infos scores qvals cutoff keepAll = .ok rows)
    (hd : groups.Pairwise (fun a b => isObsolete a = false → isObsolete b = false → ∀ p, p ∈ a → p ∉ b)) :
    rows.Pairwise (fun a b => ∀ p, p ∈ a.proteins → p ∉ b.proteins) := by
  obtain ⟨idx, h1, h2, h3⟩ := report_alignment groups infos scores qvals cutoff keepAll rows h
  rw [List.pairwise_iff_getElem]
  intro a b ha hb hab
  have hia : a < idx.length := by omega
  have hib : b < idx.length := by omega
  obtain ⟨ra, ga, ia, sa, qa, hra, hga, _, _, _, _, _, hoa, hfa⟩ := h3 a idx[a] (List.getElem?_eq_getElem hia)
  obtain ⟨rb, gb, ib, sb, qb, hrb, hgb, _, _, _, _, _, hob, hfb⟩ := h3 b idx[b] (List.getElem?_eq_getElem hib)
  rw [List.getElem?_eq_getElem ha] at hra
  rw [List.getElem?_eq_getElem hb] at hrb
  obtain rfl := Option.some.inj hra
  obtain rfl := Option.some.inj hrb
  have hlt : idx[a] < idx[b] := List.pairwise_iff_getElem.mp h1 a b hia hib hab
  have hla : idx[a] < groups.length := (List.getElem?_eq_some_iff.mp hga).1
  have hlb : idx[b] < groups.length := (List.getElem?_eq_some_iff.mp hgb).1
  have hdis := List.pairwise_iff_getElem.mp hd idx[a] idx[b] hla hlb hlt
  rw [List.getElem?_eq_getElem hla] at hga
  rw [List.getElem?_eq_getElem hlb] at hgb
  obtain rfl := Option.some.inj hga
  obtain rfl := Option.some.inj hgb
  obtain ⟨pa, -⟩ := fromProteinGroup_some _ _ _ _ _ _ _ hfa
  obtain ⟨pb, -⟩ := fromProteinGroup_some _ _ _ _ _ _ _ hfb
  intro p hpa hpb
  rw [pa] at hpa; rw [pb] at hpb
  exact hdis hoa hob p (List.mem_filter.mp hpa).1 (List.mem_filter.mp hpb).1

/-- "For every reported group the listed proteins are the members with at least one evidence peptide at or
    below the peptide-level PEP cutoff (all members when keep-all is set), each paired with its number of
    distinct such peptides …; majority proteins are those with at least half the maximal count, the best
    peptide is the evidence peptide with the lowest PEP, and the protein number and the decoy and
    contaminant flags match the listed proteins" — for every row of the table returned by ANY successful
    call on a dict input: the row comes from a rank `i` of the reported pass whose group `x.group` is not a
    placeholder and is the `j`-th group of that pass's grouping; the evidence it is measured against,
    `x.evidence`, is exactly what `collect_peptide_scores_per_protein` (C05) assigns to that group from
    the peptide list (and holds every peptide once); the cutoff is `r.cutoff` (the rescue pass's peptide
    PEP cutoff, `inf` = none without a rescue pass); and every field of the row is the stated function of
    `x.group` and `x.evidence`.  The `Consistent` hypothesis of the stage theorems is discharged. -/
theorem pipeline_rows_consistent (cfg : Pipeline.Config) (inp : Pipeline.Input) (r : Pipeline.Result)
    (h : Pipeline.run cfg inp = .ok r) (hk : Pipeline.distinctPeptides inp.pil) :
    ∀ row ∈ r.rows, ∃ (i j : Nat) (x : C02.Item),
      r.final.ranking[i]? = some x ∧ isObsolete x.group = false ∧
      r.final.groups[j]? = some x.group ∧
      x.evidence = inp.pil.filterMap (C05.evFor r.final.groups (Pipeline.razorOf cfg inp) j) ∧
      (x.evidence.map (·.peptide)).Nodup ∧
      row.score = x.score ∧ r.final.qvals[i]? = some row.qValue ∧
      row.proteins = x.group.filter (fun p => inp.keepAll || decide (0 < distinctCount r.cutoff x.evidence p)) ∧
      row.proteins ≠ [] ∧
      row.counts = row.proteins.map (distinctCount r.cutoff x.evidence) ∧
      (∃ M, M ∈ row.counts ∧ (∀ c ∈ row.counts, c ≤ M) ∧
        row.majority = row.proteins.filter (fun p => decide (M ≤ 2 * distinctCount r.cutoff x.evidence p))) ∧
      (∃ e ∈ x.evidence, e.peptide = row.bestPeptide ∧
        ∀ e' ∈ x.evidence, e.pep ≤ e'.pep ∧ (e'.pep = e.pep → e.peptide ≤ e'.peptide)) ∧
      row.numberOfProteins = row.proteins.length ∧
      row.reverse = isDecoy row.proteins ∧ row.contaminant = isContaminant row.proteins := by
  obtain ⟨hp, hrows⟩ := Pipeline.final_spec cfg inp r h
  obtain ⟨-, hnd, horig⟩ := Pipeline.final_ranking_facts cfg inp r h hk
  have hr : fromProteinGroups (r.final.ranking.map (·.group)) (r.final.ranking.map (·.evidence))
      (r.final.ranking.map (·.score)) r.final.qvals r.cutoff inp.keepAll = .ok r.rows := by
    rw [hrows]; exact hp.rows
  have hc : ∀ info ∈ r.final.ranking.map (·.evidence), Consistent info := by
    intro info hinfo
    obtain ⟨x, hx, rfl⟩ := List.mem_map.mp hinfo
    exact consistent_of_nodup _ (hnd x hx)
  intro row hrow
  obtain ⟨i, g, info, hg, hi, ho, hs, hq, rest⟩ := reported_rows_consistent _ _ _ _ _ _ _ hr hc row hrow
  rw [List.getElem?_map] at hg hi hs
  cases hx : r.final.ranking[i]? with
  | none => rw [hx] at hg; simp at hg
  | some x =>
    rw [hx] at hg hi hs
    simp only [Option.map_some, Option.some.injEq] at hg hi hs
    subst hg; subst hi
    have hxm : x ∈ r.final.ranking := List.mem_of_getElem? hx
    obtain ⟨j, -, hj1, -, hj3⟩ := horig x hxm ho
    exact ⟨i, j, x, hx, ho, hj1, hj3, hnd x hxm, hs.symm, hq, rest⟩

/-- "… and no protein occurs in two rows" — the full statement, for the table returned by ANY successful
    call on a dict input, every configuration: no protein is listed by two rows, and no row lists a protein
    twice.  Composition: the first-pass groups are a partition (C03 `subset_partition` /
    `nogrouping_singletons` / `pseudogene_partition`), the rescue pass's groups are again a partition of
    the same proteins (C04 `rescue_partition_subset`), the placeholders appended for the second
    competition are `is_obsolete` and so never reported (C04 `placeholders_never_reported`), the ranking is
    a rearrangement of a sub-list of the groups handed to the competition (C02 `survivors_unchanged`,
    `doCompetition_subperm`), and a row lists a sub-list of its own ranked group (`report_alignment`).
    No hypothesis on the identifiers is needed (a protein whose name contains `OBSOLETE__` only makes its
    group unreported). -/
theorem pipeline_rows_disjoint (cfg : Pipeline.Config) (inp : Pipeline.Input) (r : Pipeline.Result)
    (h : Pipeline.run cfg inp = .ok r) (hk : Pipeline.distinctPeptides inp.pil) :
    r.rows.Pairwise (fun a b => ∀ p, p ∈ a.proteins → p ∉ b.proteins) ∧
    ∀ row ∈ r.rows, row.proteins.Nodup := by
  obtain ⟨hp, hrows⟩ := Pipeline.final_spec cfg inp r h
  obtain ⟨hdis, -, -⟩ := Pipeline.final_ranking_facts cfg inp r h hk
  have hf := Pipeline.final_facts cfg inp r h hk
  have hr := hp.rows
  rw [← hrows] at hr
  refine ⟨rows_disjoint_regular _ _ _ _ _ _ _ hr hdis, ?_⟩
  intro row hrow
  obtain ⟨i, j, x, -, -, hj, -, -, -, -, hprot, -⟩ := pipeline_rows_consistent cfg inp r h hk row hrow
  rw [hprot]
  exact ((List.nodup_flatten.mp hf.groups_nodup).1 _ (List.mem_of_getElem? hj)).filter _

/-! Non-vacuity of the pipeline theorems: the two successful calls of `Proofs/Pipeline.lean` (one pass:
protein-level picking without grouping; two passes: rescued subset grouping + picked-group competition with
a placeholder group in the second competition) on a dict input. -/

example : ∃ r, Pipeline.run Pipeline.demoCfg1 Pipeline.demoInp1 = .ok r ∧
    Pipeline.distinctPeptides Pipeline.demoInp1.pil ∧ r.rows.map (·.proteins) = [["A"], ["REV__B"]] := by
  obtain ⟨r, h, -, -, h3, -⟩ := Pipeline.demo_run1
  exact ⟨r, h, Pipeline.demo_distinct.1, by rw [h3]; rfl⟩

example : ∃ r, Pipeline.run Pipeline.demoCfg2 Pipeline.demoInp2 = .ok r ∧
    Pipeline.distinctPeptides Pipeline.demoInp2.pil ∧ r.rescued = true ∧
    r.final.compGroups = [["A"], ["REV__B"], ["OBSOLETE__A"]] ∧
    r.rows.map (·.proteins) = [["A"], ["REV__B"]] := by
  obtain ⟨r, h, -, -, h3, h4, h5⟩ := Pipeline.demo_run2
  exact ⟨r, h, Pipeline.demo_distinct.2, h5, h4, by rw [h3]; rfl⟩

end PgFdr.C06
