import PgFdr.Proofs.C06
namespace PgFdr.C06
theorem placeholder_tmp : True := trivial
end PgFdr.C06
