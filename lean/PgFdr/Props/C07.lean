import PgFdr.Model.C07
import PgFdr.Proofs.C07
import PgFdr.Proofs.C07Stream

/-!
# C07 — results are reproducible across processes, hash seeds and repeated calls

Property text: "Calling the inference function repeatedly - on the same or on different inputs,
reusing one method-configuration object - gives each call exactly the result a fresh process would
give for that input and seed."  (The hash-seed half of the property is about CPython's set order and
is decided by the subprocess correspondence of `harness/props/C07.py`, not by a theorem.)

The per-run values stored on the strategy objects (razor counts, PEP cutoff, multPEP divisor, rescue
score cutoff, placeholder groups) are written before they are read inside one call; the seen set is
the one field read first, and it is empty between calls because the competition resets it before it
returns.
-/
namespace PgFdr.C07
variable {Inp Ev Rank Out K Cnt : Type}

/-- the competition empties the seen set before it returns (`self.reset()`) -/
def ResetsSeen (S : Stages Inp Ev Rank Out K Cnt) : Prop := ∀ ev d seen, (S.compete ev d seen).2 = []

/-- C07: from any state whose seen set is empty, a call returns what it returns from the initial
    state, and leaves the seen set empty again -/
theorem call_history_independent (S : Stages Inp Ev Rank Out K Cnt) (hreset : ResetsSeen S)
    (s s' : St K Cnt Ev) (hs : s.seen = []) (hs' : s'.seen = []) (inp : Inp) :
    (call S s inp).2 = (call S s' inp).2 ∧ (call S s inp).1.seen = [] := by
  unfold call pass
  cases hr : S.rescues <;> simp [hs, hs', hreset _ _ _]

/-- hence along any sequence of calls every result equals the result of a fresh object -/
theorem calls_independent (S : Stages Inp Ev Rank Out K Cnt) (hreset : ResetsSeen S)
    (init : St K Cnt Ev) (hinit : init.seen = []) :
    ∀ (inps : List Inp) (s : St K Cnt Ev), s.seen = [] →
      (inps.foldl (fun (acc : St K Cnt Ev × List Out) i =>
          let r := call S acc.1 i; (r.1, acc.2 ++ [r.2])) (s, [])).2 =
        inps.map (fun i => (call S init i).2) := by
  intro inps
  suffices h : ∀ (s : St K Cnt Ev) (acc : List Out), s.seen = [] →
      (inps.foldl (fun (a : St K Cnt Ev × List Out) i =>
          let r := call S a.1 i; (r.1, a.2 ++ [r.2])) (s, acc)).2 =
        acc ++ inps.map (fun i => (call S init i).2) by
    intro s hs; simpa using h s [] hs
  induction inps with
  | nil => intro s acc _; simp
  | cons i inps ih =>
    intro s acc hs
    simp only [List.foldl_cons, List.map_cons]
    obtain ⟨h1, h2⟩ := call_history_independent S hreset s init hs hinit i
    rw [ih _ _ h2, h1]
    simp

/-! Non-vacuity: a concrete stage record that resets the seen set, and a non-initial state with an
empty seen set (all other fields dirty). -/
private def exStages : Stages Nat Nat Nat Nat Nat Nat where
  counts := fun i => i + 1
  collect := fun i c _ => (i + c, 1)
  optimise := fun _ => 2
  compete := fun ev _ seen => (ev + seen.length, [])
  report := fun r _ => r
  rescueCut := fun _ => 0
  regroup := fun _ _ _ => [7]
  rescues := true

example : ResetsSeen exStages := by intro ev d seen; rfl

example : (call exStages ⟨[], 99, 5, 6, 7, [1, 2]⟩ 3).2 = (call exStages ⟨[], 0, 0, 0, 0, []⟩ 3).2 :=
  (call_history_independent exStages (by intro _ _ _; rfl) _ _ rfl rfl 3).1

/-! ## The same statement for the concrete pipeline model that the driver executes

`PgFdr.Pipeline.runFrom cfg inp seen` is the composed model of `get_protein_group_results` (grouping,
evidence, competition, FDR, report, rescue pass) on strategy objects whose seen-set is `seen`; it is what
the correspondence of `harness/props/C07.py` compares every call of a real call sequence with. -/

open PgFdr.Pipeline in
/-- a call on fresh objects leaves the competition strategy's seen-set empty -/
theorem pipeline_leaves_seen_empty (cfg : Pipeline.Config) (inp : Pipeline.Input) (r : Pipeline.Result)
    (s : List String) (h : Pipeline.runFrom cfg inp [] = .ok (r, s)) : s = [] :=
  Pipeline.runFrom_seen cfg inp r s h

/-- "Calling the inference function repeatedly - on the same or on different inputs, reusing one
    method-configuration object - gives each call exactly the result a fresh process would give":
    along ANY sequence of inputs, every call on the reused object returns what `Pipeline.run` returns on a
    fresh one (for every shipped grouping / razor / competition configuration, every recorded shuffle,
    cut map and score vector). -/
theorem pipeline_calls_independent (cfg : Pipeline.Config) (inps : List Pipeline.Input) :
    Pipeline.callSeq cfg [] inps = inps.map (Pipeline.run cfg) := by
  induction inps with
  | nil => rfl
  | cons i rest ih =>
    simp only [Pipeline.callSeq, Pipeline.run, List.map_cons]
    cases h : Pipeline.runFrom cfg i [] with
    | error e => simp only []; rw [ih]
    | ok v =>
      obtain ⟨r, s⟩ := v
      have hs : s = [] := Pipeline.runFrom_seen cfg i r s h
      subst hs
      simp only []; rw [ih]

/-! ## The command line: methods in the order given, one random stream

Property text: "Given the same input files and options, the command-line tool (which always uses the same random
seed) writes byte-identical output in every process, whatever the interpreter's string-hash seed."

`run_picked_group_fdr` seeds numpy once and runs the methods of `--methods` one after the other on that one
generator, so WHICH permutations a method draws depends on what was drawn before it.  In the glue model
(`Model/Cli.lean`, tied to the real `main(argv)` by `harness/cli_model.py`) the methods are the comma-separated list
in the order given (`methodsOfArg`; `cliRun` walks `inp.methods`; no set, no dict), and in the stream form
(`Model/C07Stream.lean`, tied to the real run by the `cli_stream` cases of `harness/props/C07.py`: the permutations
are recorded at PROCESS level, in the order drawn) method `k` draws `need` permutations starting at
`offset … k`, the sum of what the methods mentioned BEFORE it on the command line drew.  The theorems below say that
nothing else enters a written table: the `i`-th table is a function of the command line and of the stream up to the
point where the `i`-th method stops; the outcome of method `i` as a function of ITS permutations is the one of
`C18.cli_methods_independent` (same method alone, same recorded parameters, same table).  A processing order that
depends on anything but the command line (a `set` of names, say) is not expressible here; the correspondence and the
oracle of the harness (each written table equals the recomputation in command-line order under `np.random.seed(1)`)
are what tie the real tool to this. -/
open PgFdr.Cli

/-- the method loop runs the methods of `--methods` in the order given, once per mention: a completed run holds
    exactly one entry per mention, and a table at position `i` was written by the `i`-th name -/
theorem cli_methods_in_command_line_order (inp : CliInput) (os : List (Option CliTable))
    (h : cliOutcomes inp = .ok os) :
    os.length = inp.methods.length ∧
    ∀ (i : Nat) (t : CliTable), os[i]? = some (some t) → inp.methods[i]? = some t.method := by
  obtain ⟨env, cfgs, -, hlen, hos, hall⟩ := outcomes_spec inp os h
  refine ⟨hos, ?_⟩
  intro i t hi
  have hilt : i < inp.methods.length := by
    rw [← hos]
    rcases Nat.lt_or_ge i os.length with h | h
    · exact h
    · rw [List.getElem?_eq_none_iff.mpr h] at hi; cases hi
  have hc : cfgs[i]? = some cfgs[i] := List.getElem?_eq_getElem (by omega)
  obtain ⟨o, hoi, hrun⟩ := hall i _ _ (List.getElem?_eq_getElem hilt) hc
  rw [hi] at hoi
  have ho : o = some t := (Option.some.inj hoi).symm
  subst ho
  obtain ⟨-, -, -, -, -, -, -, -, -, -, hmeth, -, -, -⟩ := runMethod_table inp env _ _ _ _ t hrun
  rw [hmeth]
  exact List.getElem?_eq_getElem hilt

/-- hence the tables are written in command-line order: their method names form a subsequence of `--methods`
    (methods without an input file of their type write nothing) -/
theorem cli_tables_in_command_line_order (inp : CliInput) (ts : List CliTable) (h : cliRun inp = .ok ts) :
    (ts.map (·.method)).Sublist inp.methods := by
  unfold cliRun at h
  cases hos : cliOutcomes inp with
  | error e => rw [hos] at h; simp at h
  | ok os =>
    rw [hos] at h
    simp only [Except.ok.injEq] at h
    subst h
    obtain ⟨hlen, hall⟩ := cli_methods_in_command_line_order inp os hos
    exact filterMap_methods_sublist os inp.methods hlen hall

/-- "the i-th table depends only on the inputs and on the permutations drawn by methods 0..i in command-line order":
    in a completed run on the process's stream `s`, the entry at position `i` is the outcome of `run_method` for the
    `i`-th name of `--methods` and its configuration, with that method's other recorded parameters, on exactly the
    permutations `s[offset i … offset i + need)` — where `offset i` adds up what the methods at positions `0..i-1` of
    the command line draw (`need`: 0 skipped, 2 one competition, 4 with a rescue step).  Every quantity on the right is
    a function of the command line (lists in the order given) and of the stream. -/
theorem stream_table_reads_own_slice (inp : CliInput) (s : Stream) (os : List (Option CliTable))
    (h : streamOutcomes inp s = .ok os) :
    ∃ (env : Env) (cfgs : List C18.Cfg), setup inp = .ok (env, cfgs) ∧ cfgs.length = inp.methods.length ∧
      os.length = inp.methods.length ∧
      ∀ (i : Nat) (name : String) (c : C18.Cfg), inp.methods[i]? = some name → cfgs[i]? = some c →
        ∃ o, os[i]? = some o ∧
          Cli.runMethod inp env (decide (cfgs.length > 1)) name c
            { inp.recs.getD i default with
              shuffles := (s.drop (offset (cfgs.map (need inp)) i)).take (need inp c) } = .ok o := by
  obtain ⟨env, cfgs, hs, hlen, hos, hall⟩ := outcomes_spec (withStream inp s) os h
  rw [setup_withStream] at hs
  refine ⟨env, cfgs, hs, hlen, hos, ?_⟩
  intro i name c hn hc
  obtain ⟨o, hoi, hrun⟩ := hall i name c hn hc
  refine ⟨o, hoi, ?_⟩
  rw [runMethod_withStream] at hrun
  have hi : i < cfgs.length := by
    rcases Nat.lt_or_ge i cfgs.length with h | h
    · exact h
    · rw [List.getElem?_eq_none_iff.mpr h] at hc; cases hc
  have hrec : (withStream inp s).recs.getD i default =
      { inp.recs.getD i default with
        shuffles := (s.drop (offset (cfgs.map (need inp)) i)).take (need inp c) } := by
    show (streamRecs inp (needs inp) s).getD i default = _
    rw [needs_of_setup inp env cfgs hs, streamRecs_getD inp _ s i (by simpa using hi)]
    simp [slice, List.getD, hc]
  rw [← hrec]
  exact hrun

/-- two streams that agree up to the point where the `i`-th method of the command line stops give the same `i`-th
    table (and the same decision whether one is written): what later methods draw, and anything beyond, is never read -/
theorem stream_table_depends_on_prefix (inp : CliInput) (s s' : Stream) (os os' : List (Option CliTable))
    (h : streamOutcomes inp s = .ok os) (h' : streamOutcomes inp s' = .ok os') (i : Nat)
    (hp : s.take (offset (needs inp) (i + 1)) = s'.take (offset (needs inp) (i + 1))) :
    os[i]? = os'[i]? := by
  obtain ⟨env, cfgs, hs, hlen, hos, hall⟩ := stream_table_reads_own_slice inp s os h
  obtain ⟨env', cfgs', hs', -, hos', hall'⟩ := stream_table_reads_own_slice inp s' os' h'
  rw [hs] at hs'
  simp only [Except.ok.injEq, Prod.mk.injEq] at hs'
  obtain ⟨rfl, rfl⟩ := hs'
  rcases Nat.lt_or_ge i inp.methods.length with hi | hi
  · have hc : cfgs[i]? = some cfgs[i] := List.getElem?_eq_getElem (by omega)
    obtain ⟨o, hoi, hrun⟩ := hall i _ _ (List.getElem?_eq_getElem hi) hc
    obtain ⟨o', hoi', hrun'⟩ := hall' i _ _ (List.getElem?_eq_getElem hi) hc
    have hsl : slice s (cfgs.map (need inp)) i = slice s' (cfgs.map (need inp)) i := by
      rw [← slice_take s _ i _ (Nat.le_refl _), ← slice_take s' _ i _ (Nat.le_refl _),
        ← needs_of_setup inp env cfgs hs, hp]
    have hnd : (cfgs.map (need inp)).getD i 0 = need inp cfgs[i] := by simp [List.getD, hc]
    simp only [slice, hnd] at hsl
    rw [hsl, hrun'] at hrun
    rw [hoi, hoi', Except.ok.inj hrun]
  · rw [List.getElem?_eq_none_iff.mpr (by omega), List.getElem?_eq_none_iff.mpr (by omega)]

/-- the run on a stream IS a run of the glue model (with the per-method records cut out of the stream), so every
    theorem about `cliRun` (`C18.cli_tables_satisfy_guarantees`, `C18.cli_methods_independent`, …) applies to it -/
theorem stream_run_is_cli_run (inp : CliInput) (s : Stream) :
    streamRun inp s = cliRun { inp with recs := streamRecs inp (needs inp) s } := rfl

/-! Non-vacuity: the completed two-method run of `Proofs/Cli.lean` (`demo_cli_run`: `--methods
savitski_no_remap,picked_protein_group_no_remap`, the second with a rescue step) is the run on the stream of its six
permutations — the first method draws two, the second the next four — and completes with both tables. -/

private def demoStream : Stream := [[0, 1], [0, 1], [0, 1], [0, 1], [0, 2, 1], [0, 1]]

private theorem demo_needs : needs demoRun = [2, 4] := by
  rw [needs_of_setup demoRun _ _ demo_setup]
  decide +kernel

private theorem demo_withStream : withStream demoRun demoStream = demoRun := by
  unfold withStream
  rw [demo_needs]
  rfl

example : offset [2, 4] 0 = 0 ∧ offset [2, 4] 1 = 2 ∧ offset [2, 4] 2 = 6 ∧
    slice demoStream [2, 4] 1 = [[0, 1], [0, 1], [0, 2, 1], [0, 1]] := by decide

example : ∃ t1 t2, streamRun demoRun demoStream = .ok [t1, t2] ∧ t1.method = "savitski_no_remap" ∧
    t2.method = "picked_protein_group_no_remap" ∧ t2.run.pass2.isSome = true ∧
    ([t1, t2].map (·.method)).Sublist demoRun.methods := by
  obtain ⟨t1, t2, h, h1, -, -, h2, -, -, -, -, -, h3⟩ := demo_cli_run
  refine ⟨t1, t2, ?_, h1, h2, h3, ?_⟩
  · unfold streamRun; rw [demo_withStream]; exact h
  · exact cli_tables_in_command_line_order demoRun _ h

/-- the hypotheses of `stream_table_depends_on_prefix` are satisfiable with streams that differ: anything may follow
    the six permutations the run draws -/
example : ∃ os os', streamOutcomes demoRun demoStream = .ok os ∧
    streamOutcomes demoRun (demoStream ++ [[1, 0]]) = .ok os' ∧ os[1]? = os'[1]? ∧ os.length = 2 := by
  have hw : withStream demoRun (demoStream ++ [[1, 0]]) = demoRun := by
    unfold withStream
    rw [demo_needs]
    rfl
  obtain ⟨t1, t2, h, -⟩ := demo_cli_run
  cases hc : cliOutcomes demoRun with
  | error e => unfold cliRun at h; rw [hc] at h; simp at h
  | ok os =>
    refine ⟨os, os, ?_, ?_, rfl, ?_⟩
    · unfold streamOutcomes; rw [demo_withStream]; exact hc
    · unfold streamOutcomes; rw [hw]; exact hc
    · exact (cli_methods_in_command_line_order demoRun os hc).1

end PgFdr.C07
