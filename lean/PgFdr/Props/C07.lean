import PgFdr.Model.C07
import PgFdr.Proofs.C07

/-!
# C07 — results are reproducible across processes, hash seeds and repeated calls

Property text: "Calling the inference function repeatedly - on the same or on different inputs,
reusing one method-configuration object - gives each call exactly the result a fresh process would
give for that input and seed."  (The hash-seed half of the property is about CPython's set order and
is decided by the subprocess correspondence of `harness/props/C07.py`, not by a theorem.)

The per-run values stored on the strategy objects (razor counts, PEP cutoff, multPEP divisor, rescue
score cutoff, placeholder groups) are written before they are read inside one call; the seen set is
the one field read first, and it is empty between calls because the competition resets it before it
returns.
-/
namespace PgFdr.C07
variable {Inp Ev Rank Out K Cnt : Type}

/-- the competition empties the seen set before it returns (`self.reset()`) -/
def ResetsSeen (S : Stages Inp Ev Rank Out K Cnt) : Prop := ∀ ev d seen, (S.compete ev d seen).2 = []

/-- C07: from any state whose seen set is empty, a call returns what it returns from the initial
    state, and leaves the seen set empty again -/
theorem call_history_independent (S : Stages Inp Ev Rank Out K Cnt) (hreset : ResetsSeen S)
    (s s' : St K Cnt Ev) (hs : s.seen = []) (hs' : s'.seen = []) (inp : Inp) :
    (call S s inp).2 = (call S s' inp).2 ∧ (call S s inp).1.seen = [] := by
  unfold call pass
  cases hr : S.rescues <;> simp [hs, hs', hreset _ _ _]

/-- hence along any sequence of calls every result equals the result of a fresh object -/
theorem calls_independent (S : Stages Inp Ev Rank Out K Cnt) (hreset : ResetsSeen S)
    (init : St K Cnt Ev) (hinit : init.seen = []) :
    ∀ (inps : List Inp) (s : St K Cnt Ev), s.seen = [] →
      (inps.foldl (fun (acc : St K Cnt Ev × List Out) i =>
          let r := call S acc.1 i; (r.1, acc.2 ++ [r.2])) (s, [])).2 =
        inps.map (fun i => (call S init i).2) := by
  intro inps
  suffices h : ∀ (s : St K Cnt Ev) (acc : List Out), s.seen = [] →
      (inps.foldl (fun (a : St K Cnt Ev × List Out) i =>
          let r := call S a.1 i; (r.1, a.2 ++ [r.2])) (s, acc)).2 =
        acc ++ inps.map (fun i => (call S init i).2) by
    intro s hs; simpa using h s [] hs
  induction inps with
  | nil => intro s acc _; simp
  | cons i inps ih =>
    intro s acc hs
    simp only [List.foldl_cons, List.map_cons]
    obtain ⟨h1, h2⟩ := call_history_independent S hreset s init hs hinit i
    rw [ih _ _ h2, h1]
    simp

/-! Non-vacuity: a concrete stage record that resets the seen set, and a non-initial state with an
empty seen set (all other fields dirty). -/
private def exStages : Stages Nat Nat Nat Nat Nat Nat where
  counts := fun i => i + 1
  collect := fun i c _ => (i + c, 1)
  optimise := fun _ => 2
  compete := fun ev _ seen => (ev + seen.length, [])
  report := fun r _ => r
  rescueCut := fun _ => 0
  regroup := fun _ _ _ => [7]
  rescues := true

example : ResetsSeen exStages := by intro ev d seen; rfl

example : (call exStages ⟨[], 99, 5, 6, 7, [1, 2]⟩ 3).2 = (call exStages ⟨[], 0, 0, 0, 0, []⟩ 3).2 :=
  (call_history_independent exStages (by intro _ _ _; rfl) _ _ rfl rfl 3).1

/-! ## The same statement for the concrete pipeline model that the driver executes

`PgFdr.Pipeline.runFrom cfg inp seen` is the composed model of `get_protein_group_results` (grouping,
evidence, competition, FDR, report, rescue pass) on strategy objects whose seen-set is `seen`; it is what
the correspondence of `harness/props/C07.py` compares every call of a real call sequence with. -/

open PgFdr.Pipeline in
/-- a call on fresh objects leaves the competition strategy's seen-set empty -/
theorem pipeline_leaves_seen_empty (cfg : Pipeline.Config) (inp : Pipeline.Input) (r : Pipeline.Result)
    (s : List String) (h : Pipeline.runFrom cfg inp [] = .ok (r, s)) : s = [] :=
  Pipeline.runFrom_seen cfg inp r s h

/-- "Calling the inference function repeatedly - on the same or on different inputs, reusing one
    method-configuration object - gives each call exactly the result a fresh process would give":
    along ANY sequence of inputs, every call on the reused object returns what `Pipeline.run` returns on a
    fresh one (for every shipped grouping / razor / competition configuration, every recorded shuffle,
    cut map and score vector). -/
theorem pipeline_calls_independent (cfg : Pipeline.Config) (inps : List Pipeline.Input) :
    Pipeline.callSeq cfg [] inps = inps.map (Pipeline.run cfg) := by
  induction inps with
  | nil => rfl
  | cons i rest ih =>
    simp only [Pipeline.callSeq, Pipeline.run, List.map_cons]
    cases h : Pipeline.runFrom cfg i [] with
    | error e => simp only []; rw [ih]
    | ok v =>
      obtain ⟨r, s⟩ := v
      have hs : s = [] := Pipeline.runFrom_seen cfg i r s h
      subst hs
      simp only []; rw [ih]

end PgFdr.C07
