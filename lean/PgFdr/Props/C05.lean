import PgFdr.Proofs.C05

/-!
# C05 — a peptide supports only the group holding all its proteins; score = best PEP

Property text (properties.jsonl): "When shared peptides are discarded, a peptide counts as evidence
for a group exactly when all proteins it maps to belong to that single group and is ignored
otherwise; with the razor option it is first reduced to the single protein with the most observed
peptides (ties: better best PEP, then a hash of the name), so it supports at most one group either
way. A group's score is -log10 of the smallest PEP among its evidence peptides (multiplied-PEP
variant: the sum of -log10 PEP over its distinct peptides plus the same constant per peptide), so
additional evidence never lowers a best-PEP score, and a group without evidence is not ranked."

Only property theorems live here; helper lemmas are in `PgFdr/Proofs/C05.lean`, the executable
model (`collectEvidence`, `razorPick`, `bestPepScoreWith`, `multPepScoreWith`, `ranked`) in
`PgFdr/Model/C05.lean`, tied to `scoring_strategy.collect_peptide_scores_per_protein`,
`_retain_protein_with_most_observed_peptides`, `scoring.BestPEPScore` / `MultPEPScore` by the
correspondence of `harness/props/C05.py`.
-/
namespace PgFdr.C05

/-- "a protein belongs to a group": for groups that do not overlap (every grouping the pipeline
    builds is a partition) the recorded position of `p` is `i` exactly when group `i` lists `p`;
    a protein no group lists has no position (the code's −1). -/
theorem position_iff_member (groups : List (List String))
    (hdisj : ∀ (i j : Nat) (g g' : List String), groups[i]? = some g → groups[j]? = some g' → i ≠ j → ∀ p ∈ g, p ∉ g')
    (p : String) (i : Nat) :
    (idxOf groups p = some i ↔ ∃ g, groups[i]? = some g ∧ p ∈ g) ∧
    (idxOf groups p = none ↔ ∀ g ∈ groups, p ∉ g) := by
  refine ⟨?_, idxOf_none_iff groups p⟩
  rw [idxOf_some_iff]
  constructor
  · exact fun h => h.1
  · rintro ⟨g, hg, hp⟩
    refine ⟨⟨g, hg, hp⟩, ?_⟩
    intro m hm g' hg'
    exact hdisj i m g g' hg hg' (by omega) p hp

/-- "When shared peptides are discarded, a peptide counts as evidence for a group exactly when all
    proteins it maps to belong to that single group and is ignored otherwise" — for every grouping,
    peptide list and both settings of the missing-protein warning: whenever the call succeeds,
    the evidence of position `i` consists of exactly the peptides that have proteins all of which
    sit at position `i`.  In particular a peptide with an unknown protein (no position) supports
    nothing. -/
theorem evidence_iff_single_group (groups : List (List String)) (pil : List PepInfo) (suppress : Bool)
    (evs : List (List Evidence)) (peps : List Rat)
    (h : collectEvidence groups pil none suppress = .ok (evs, peps))
    (i : Nat) (hi : i < groups.length) (e : Evidence) :
    e ∈ evs.getD i [] ↔
      ∃ x ∈ pil, e = ⟨x.pep, x.peptide, x.proteins⟩ ∧ x.proteins ≠ [] ∧
        ∀ p ∈ x.proteins, idxOf groups p = some i := by
  rw [collect_getD groups pil none suppress evs peps h i hi, List.mem_filterMap]
  constructor
  · rintro ⟨x, hx, hev⟩
    refine ⟨x, hx, ?_⟩
    unfold evFor assign at hev
    simp only [filterProteins] at hev
    cases hs : supportOf groups x.proteins with
    | none => rw [hs] at hev; simp at hev
    | some j =>
      rw [hs] at hev
      simp only at hev
      by_cases hji : j = i
      · subst hji
        simp only [if_true, Option.some.injEq] at hev
        exact ⟨hev.symm, (supportOf_eq_some groups x.proteins j).mp hs⟩
      · simp [hji] at hev
  · rintro ⟨x, hx, rfl, hne, hall⟩
    refine ⟨x, hx, ?_⟩
    have hs : supportOf groups x.proteins = some i := (supportOf_eq_some groups x.proteins i).mpr ⟨hne, hall⟩
    unfold evFor assign
    simp [filterProteins, hs]

/-- the evidence lists keep the order of the peptide list (discard mode): position `i` holds the
    sub-list of supporting peptides, in input order, and the PEP list handed to the cutoff
    computation holds, in input order, the PEPs of the evidence peptides whose proteins are not all
    decoys -/
theorem evidence_in_peptide_order (groups : List (List String)) (pil : List PepInfo) (suppress : Bool)
    (evs : List (List Evidence)) (peps : List Rat)
    (h : collectEvidence groups pil none suppress = .ok (evs, peps)) :
    evs.length = groups.length ∧
    (∀ i, i < groups.length →
      evs[i]? = some ((pil.filter (fun x => supportOf groups x.proteins == some i)).map
        (fun x => ⟨x.pep, x.peptide, x.proteins⟩))) ∧
    peps = ((pil.filter (fun x => (supportOf groups x.proteins).isSome && !isDecoy x.proteins)).map (·.pep)) := by
  obtain ⟨hlen, hget, hpep⟩ := collect_get groups pil none suppress evs peps h
  refine ⟨hlen, ?_, ?_⟩
  · intro i hi
    rw [hget i hi]
    congr 1
    rw [← filterMap_ite]
    congr 1
    funext x
    exact evFor_discard groups i x
  · rw [hpep, ← filterMap_ite]
    congr 1
    funext x
    exact pepFor_discard groups x

/-- "… and is ignored otherwise" has one exception in the code, kept by the model: with the
    missing-protein warning on (first pass), a peptide none of whose proteins is in any group makes
    the whole call fail; with the warning suppressed (rescue pass) the call never fails. -/
theorem rejected_iff_unknown_peptide (groups : List (List String)) (pil : List PepInfo) (suppress : Bool) :
    (∃ err, collectEvidence groups pil none suppress = .error err) ↔
      suppress = false ∧ ∃ x ∈ pil, ∀ p ∈ x.proteins, idxOf groups p = none := by
  have hiff := collect_ok_iff groups pil none suppress
  have hrej : ∀ x, rejects groups none suppress x ↔
      (suppress = false ∧ ∀ p ∈ x.proteins, idxOf groups p = none) := by
    intro x
    unfold rejects
    simp only [filterProteins, isMissing_iff, groupIdxs, List.mem_map, forall_exists_index, and_imp,
      forall_apply_eq_imp_iff₂]
    exact And.comm
  constructor
  · rintro ⟨err, herr⟩
    have : ¬ ∀ x ∈ pil, ¬ rejects groups none suppress x := by
      intro hall
      obtain ⟨r, hr⟩ := hiff.mpr hall
      rw [hr] at herr; simp at herr
    push Not at this
    obtain ⟨x, hx, hr⟩ := this
    obtain ⟨h1, h2⟩ := (hrej x).mp hr
    exact ⟨h1, x, hx, h2⟩
  · rintro ⟨hs, x, hx, hall⟩
    cases hc : collectEvidence groups pil none suppress with
    | error e => exact ⟨e, rfl⟩
    | ok r =>
      have := hiff.mp ⟨r, hc⟩ x hx
      exact absurd ((hrej x).mpr ⟨hs, hall⟩) this

/-! Non-vacuity: two groups, a peptide inside group 0, one across both groups, one with an unknown
    protein next to a known one, one with only unknown proteins (warning suppressed). -/

private def exGroups : List (List String) := [["P1", "P2"], ["REV__P3"]]
private def exPil : List PepInfo :=
  [⟨"PEPA", 1/1000, ["P2", "P1"]⟩, ⟨"PEPB", 1/100, ["P1", "REV__P3"]⟩, ⟨"PEPC", 1/100, ["P1", "X"]⟩,
   ⟨"PEPD", 1/10, ["X"]⟩, ⟨"PEPE", 1/10, ["REV__P3"]⟩]

example : collectEvidence exGroups exPil none true =
    .ok ([[⟨1/1000, "PEPA", ["P2", "P1"]⟩], [⟨1/10, "PEPE", ["REV__P3"]⟩]], [1/1000]) := by decide +kernel

example : collectEvidence exGroups exPil none false = .error .unknownProtein := by decide +kernel


/-- "with the razor option it is first reduced to the single protein with the most observed
    peptides …, so it supports at most one group either way" — in both modes an evidence tuple
    sits at one position only, every protein it lists is recorded at that position, and with the
    razor option it lists exactly one protein. -/
theorem razor_supports_at_most_one (groups : List (List String)) (pil : List PepInfo) (rz : Option Razor)
    (suppress : Bool) (evs : List (List Evidence)) (peps : List Rat)
    (h : collectEvidence groups pil rz suppress = .ok (evs, peps))
    (i j : Nat) (hi : i < groups.length) (hj : j < groups.length) (e : Evidence)
    (hei : e ∈ evs.getD i []) (hej : e ∈ evs.getD j []) :
    i = j ∧ (∀ p ∈ e.proteins, idxOf groups p = some i) ∧ (rz.isSome → e.proteins.length = 1) := by
  rw [collect_getD groups pil rz suppress evs peps h i hi, List.mem_filterMap] at hei
  rw [collect_getD groups pil rz suppress evs peps h j hj, List.mem_filterMap] at hej
  obtain ⟨x, _, hx⟩ := hei
  obtain ⟨y, _, hy⟩ := hej
  obtain ⟨hne, hall⟩ := evFor_position groups rz i x e hx
  obtain ⟨_, hall'⟩ := evFor_position groups rz j y e hy
  refine ⟨?_, hall, ?_⟩
  · cases hp : e.proteins with
    | nil => exact absurd hp hne
    | cons p r =>
      have h1 := hall p (by simp [hp])
      have h2 := hall' p (by simp [hp])
      rw [h1] at h2
      exact Option.some.inj h2
  · intro hrz
    cases rz with
    | none => simp at hrz
    | some r =>
      obtain ⟨r', _, he, _⟩ := (evFor_razor groups r i x e).mp hx
      rw [he]; rfl

/-- "it is first reduced to the single protein with the most observed peptides (ties: better best
    PEP, then a hash of the name)" — the retained protein is one of the listed proteins and its tuple
    `(count, −bestPEP, key, name)` is the largest in lexicographic order; it is the only listed
    protein with that tuple; and when the key (the md5 digest) is injective, `(count, −bestPEP, key)`
    alone already decides, i.e. the name itself never breaks a tie. -/
theorem razor_picks_argmax (rz : Razor) (ps : List String) (r : String) (h : razorPick rz ps = some r) :
    r ∈ ps ∧
    (∀ q ∈ ps, toLex (rz.count q, toLex (- rz.best q, toLex (rz.key q, q))) ≤
        toLex (rz.count r, toLex (- rz.best r, toLex (rz.key r, r)))) ∧
    (∀ q ∈ ps, toLex (rz.count q, toLex (- rz.best q, toLex (rz.key q, q))) =
        toLex (rz.count r, toLex (- rz.best r, toLex (rz.key r, r))) → q = r) ∧
    (Function.Injective rz.key → ∀ q ∈ ps, q ≠ r →
        toLex (rz.count q, toLex (- rz.best q, rz.key q)) < toLex (rz.count r, toLex (- rz.best r, rz.key r))) := by
  obtain ⟨hmem, hmax⟩ := razorPick_spec rz ps r h
  refine ⟨hmem, hmax, ?_, ?_⟩
  · intro q _ heq
    exact cand_injective rz q r (lexKey_injective _ _ heq)
  · intro hinj q hq hne
    have hle := hmax q hq
    have hk : rz.key q ≠ rz.key r := fun hh => hne (hinj hh)
    simp only [lexKey, cand, Prod.Lex.toLex_le_toLex, Prod.Lex.toLex_lt_toLex] at hle ⊢
    rcases hle with h1 | ⟨h1, h2 | ⟨h2, h3 | ⟨h3, _⟩⟩⟩
    · exact Or.inl h1
    · exact Or.inr ⟨h1, Or.inl h2⟩
    · exact Or.inr ⟨h1, Or.inr ⟨h2, h3⟩⟩
    · exact absurd h3 hk

/-- what the tie-break reads (`set_peptide_counts_per_protein`): the number of peptides of the list
    that name the protein, and the smallest PEP among them (0 and 1.0 for a protein no peptide names) -/
theorem razor_counts (pil : List PepInfo) (key : String → String) (p : String) :
    (razorOf pil key).count p = (pil.filter (fun x => decide (p ∈ x.proteins))).length ∧
    ((∃ x ∈ pil, p ∈ x.proteins) →
      (∃ x ∈ pil, p ∈ x.proteins ∧ x.pep = (razorOf pil key).best p) ∧
      ∀ x ∈ pil, p ∈ x.proteins → (razorOf pil key).best p ≤ x.pep) ∧
    ((∀ x ∈ pil, p ∉ x.proteins) → (razorOf pil key).best p = 1 ∧ (razorOf pil key).count p = 0) := by
  refine ⟨?_, ?_, ?_⟩
  · simp only [razorOf, peptideCount]
    congr 1
    apply List.filter_congr
    intro x _
    simp
  · rintro ⟨x0, hx0, hp0⟩
    exact bestPepOf_spec pil p x0 hx0 hp0
  · intro hnone
    exact bestPepOf_default pil p hnone

/-- razor mode, whole call: position `i` receives exactly the peptides whose retained protein is
    recorded at position `i`, each as the tuple `(PEP, peptide, [retained protein])` -/
theorem razor_evidence_iff (groups : List (List String)) (pil : List PepInfo) (rz : Razor) (suppress : Bool)
    (evs : List (List Evidence)) (peps : List Rat)
    (h : collectEvidence groups pil (some rz) suppress = .ok (evs, peps))
    (i : Nat) (hi : i < groups.length) (e : Evidence) :
    e ∈ evs.getD i [] ↔
      ∃ x ∈ pil, ∃ r, razorPick rz x.proteins = some r ∧ e = ⟨x.pep, x.peptide, [r]⟩ ∧
        idxOf groups r = some i := by
  rw [collect_getD groups pil (some rz) suppress evs peps h i hi, List.mem_filterMap]
  constructor
  · rintro ⟨x, hx, hev⟩
    exact ⟨x, hx, (evFor_razor groups rz i x e).mp hev⟩
  · rintro ⟨x, hx, hr⟩
    exact ⟨x, hx, (evFor_razor groups rz i x e).mpr hr⟩

/-- "A group's score is -log10 of the smallest PEP among its evidence peptides" — for every
    antitone (not necessarily strictly: the float function `q ↦ -log10(q + 5e-324)` is antitone on
    the doubles but takes equal values on neighbouring doubles, e.g. at 0.01) `negLog` the score of
    a non-empty evidence list is `negLog` of its smallest PEP; the executable key `bestPepKey` is
    the instance `negLog q = −q`. -/
theorem bestpep_score {S : Type} [LinearOrder S] (negLog : Rat → S) (hneg : Antitone negLog) (dflt : S)
    (ev : List Evidence) (hne : ev ≠ []) :
    ∃ m, minPep ev = some m ∧ (∃ e ∈ ev, e.pep = m) ∧ (∀ e ∈ ev, m ≤ e.pep) ∧
      bestPepScoreWith negLog dflt ev = negLog m ∧ bestPepKey ev = -m := by
  obtain ⟨m, hm⟩ := minPep_isSome ev hne
  obtain ⟨h1, h2⟩ := minPep_spec ev m hm
  refine ⟨m, hm, h1, h2, bestPepScoreWith_eq negLog hneg dflt ev m hm, ?_⟩
  exact bestPepScoreWith_eq (fun q => -q) (fun a b hab => neg_le_neg hab) (-100) ev m hm

/-- "additional evidence never lowers a best-PEP score" — for every antitone `negLog`, the default score of an empty list being
    below every attainable score (−100 against −log10 of a PEP ≤ 1). -/
theorem bestpep_monotone {S : Type} [LinearOrder S] (negLog : Rat → S) (hneg : Antitone negLog) (dflt : S)
    (ev ev' : List Evidence) (hsub : ∀ e ∈ ev, e ∈ ev') (hd : ∀ e ∈ ev', dflt ≤ negLog e.pep) :
    bestPepScoreWith negLog dflt ev ≤ bestPepScoreWith negLog dflt ev' := by
  by_cases hne' : ev' = []
  · subst hne'
    have : ev = [] := by
      cases ev with
      | nil => rfl
      | cons e r => exact absurd (hsub e (by simp)) (by simp)
    subst this; exact le_refl _
  · obtain ⟨m', hm'⟩ := minPep_isSome ev' hne'
    obtain ⟨⟨e', he', hee'⟩, hle'⟩ := minPep_spec ev' m' hm'
    rw [bestPepScoreWith_eq negLog hneg dflt ev' m' hm']
    by_cases hne : ev = []
    · subst hne
      have := hd e' he'
      rw [hee'] at this
      simpa [bestPepScoreWith] using this
    · obtain ⟨m, hm⟩ := minPep_isSome ev hne
      obtain ⟨⟨e, he, hee⟩, _⟩ := minPep_spec ev m hm
      rw [bestPepScoreWith_eq negLog hneg dflt ev m hm]
      apply hneg
      rw [← hee]
      exact hle' e (hsub e he)

/-- "multiplied-PEP variant: the sum of -log10 PEP over its distinct peptides plus the same constant
    per peptide" — over the rationals with an arbitrary `negLog` and per-peptide constant `c`
    (`log10(div)`): the score is `Σ_{p distinct peptide} negLog (smallest PEP of p) + c · #distinct`,
    a list without evidence has no score (the code's −100), and the terms are summed in ascending
    `(PEP, peptide)` order of the peptides' first occurrences (`multPepTerms`, the order the harness
    replays in floating point). -/
theorem multpep_score (negLog : Rat → Rat) (c : Rat) (ev : List Evidence) :
    multPepScoreWith negLog c ev =
      (if ev = [] then none else
        some ((((ev.map (·.peptide)).dedup).map (fun p => negLog (minPepOf ev p))).sum +
          c * (((ev.map (·.peptide)).dedup).length : Rat))) ∧
    (∀ p ∈ ev.map (·.peptide), (∃ e ∈ ev, e.peptide = p ∧ e.pep = minPepOf ev p) ∧
        ∀ e ∈ ev, e.peptide = p → minPepOf ev p ≤ e.pep) ∧
    (∃ kept : List Evidence, multPepTerms ev = kept.map (·.pep) ∧ (∀ e ∈ kept, e ∈ ev) ∧
        (kept.map (·.peptide)).Nodup ∧ (∀ e ∈ ev, e.peptide ∈ kept.map (·.peptide)) ∧
        (∀ e ∈ kept, e.pep = minPepOf ev e.peptide) ∧
        kept.Pairwise (fun a b => a.pep ≤ b.pep)) := by
  obtain ⟨hsum, hcnt⟩ := multPep_sum_closed negLog ev
  refine ⟨?_, ?_, ?_⟩
  · unfold multPepScoreWith
    have hpair : multPepSumAndCount negLog ev =
        ((multPepSumAndCount negLog ev).1, (multPepSumAndCount negLog ev).2) := rfl
    rw [hpair]
    simp only
    rw [hsum, hcnt]
    by_cases hev : ev = []
    · subst hev; simp
    · have hpos : ((ev.map (·.peptide)).dedup).length ≠ 0 := by
        intro h0
        have hnil : (ev.map (·.peptide)).dedup = [] := List.length_eq_zero_iff.mp h0
        cases ev with
        | nil => exact hev rfl
        | cons e r =>
          have : e.peptide ∈ ((e :: r).map (·.peptide)).dedup := List.mem_dedup.mpr (by simp)
          rw [hnil] at this; simp at this
      simp [hev, hpos]
  · intro p hp
    obtain ⟨e0, he0, rfl⟩ := List.mem_map.mp hp
    obtain ⟨_, hsub, _, hcov, hleast⟩ := kept_spec ev
    obtain ⟨k, hk, hkp⟩ := List.mem_map.mp (hcov e0 he0)
    have hkmin := kept_pep_eq_minPepOf ev k hk
    rw [← hkp]
    refine ⟨⟨k, hsub k hk, rfl, hkmin⟩, ?_⟩
    intro e he hpe
    rw [← hkmin]
    exact hleast k hk e he hpe
  · obtain ⟨h1, h2, h3, h4, _⟩ := kept_spec ev
    refine ⟨kept ev, h1, h2, h3, h4, fun e he => kept_pep_eq_minPepOf ev e he, ?_⟩
    exact List.Pairwise.sublist (firstOcc_sublist (sortEv ev) []) (sortEv_sorted ev)

/-- "a group without evidence is not ranked" — the ranking step keeps a (group, evidence) pair
    exactly when the evidence list is non-empty; a group's list is empty exactly when no peptide has
    all its (retained) proteins at the group's position; and the scores of an empty list are the
    defaults (−100 / none). -/
theorem no_evidence_not_ranked (groups : List (List String)) (pil : List PepInfo) (rz : Option Razor)
    (suppress : Bool) (evs : List (List Evidence)) (peps : List Rat)
    (h : collectEvidence groups pil rz suppress = .ok (evs, peps)) :
    (∀ g ev, (g, ev) ∈ ranked groups evs ↔ (g, ev) ∈ groups.zip evs ∧ ev ≠ []) ∧
    (∀ i, i < groups.length → (rankable (evs.getD i []) = false ↔ ∀ x ∈ pil, evFor groups rz i x = none)) ∧
    (∀ {S : Type} [LinearOrder S] (negLog : Rat → S) (dflt : S), bestPepScoreWith negLog dflt [] = dflt) ∧
    (∀ negLog c, multPepScoreWith negLog c [] = none) := by
  refine ⟨?_, ?_, ?_, ?_⟩
  · intro g ev
    simp [ranked, List.mem_filter]
  · intro i hi
    rw [collect_getD groups pil rz suppress evs peps h i hi]
    simp only [rankable, Bool.not_eq_false', List.isEmpty_iff, List.filterMap_eq_nil_iff]
  · intros; rfl
  · intros; rfl

/-- the two halves together (discard mode): the best-PEP score of a group with evidence is `negLog`
    of the smallest PEP among the peptides all of whose proteins lie in that group -/
theorem group_score_is_best_supporting_pep {S : Type} [LinearOrder S] (negLog : Rat → S)
    (hneg : Antitone negLog) (dflt : S)
    (groups : List (List String)) (pil : List PepInfo) (suppress : Bool)
    (evs : List (List Evidence)) (peps : List Rat)
    (h : collectEvidence groups pil none suppress = .ok (evs, peps))
    (i : Nat) (hi : i < groups.length) (hne : evs.getD i [] ≠ []) :
    ∃ x ∈ pil, x.proteins ≠ [] ∧ (∀ p ∈ x.proteins, idxOf groups p = some i) ∧
      bestPepScoreWith negLog dflt (evs.getD i []) = negLog x.pep ∧
      ∀ y ∈ pil, y.proteins ≠ [] → (∀ p ∈ y.proteins, idxOf groups p = some i) → x.pep ≤ y.pep := by
  obtain ⟨m, _, ⟨e, he, hem⟩, hle, hscore, _⟩ := bestpep_score negLog hneg dflt (evs.getD i []) hne
  obtain ⟨x, hx, hex, hxne, hxall⟩ := (evidence_iff_single_group groups pil suppress evs peps h i hi e).mp he
  refine ⟨x, hx, hxne, hxall, ?_, ?_⟩
  · rw [hscore, ← hem, hex]
  · intro y hy hyne hyall
    have hmem : (⟨y.pep, y.peptide, y.proteins⟩ : Evidence) ∈ evs.getD i [] :=
      (evidence_iff_single_group groups pil suppress evs peps h i hi _).mpr ⟨y, hy, rfl, hyne, hyall⟩
    have := hle _ hmem
    rw [← hem, hex] at this
    exact this

/-! Non-vacuity for the razor and score theorems. -/

private def exRazor : Razor := razorOf exPil (fun p => if p = "P1" then "b" else if p = "P2" then "a" else "c")

-- PEPB lists P1 (3 peptides) and REV__P3 (2 peptides): P1 is retained; PEPA lists P2 (1) and P1 (3)
example : razorPick exRazor ["P1", "REV__P3"] = some "P1" := by decide +kernel
example : razorPick exRazor ["P2", "P1"] = some "P1" := by decide +kernel

example : collectEvidence exGroups exPil (some exRazor) true =
    .ok ([[⟨1/1000, "PEPA", ["P1"]⟩, ⟨1/100, "PEPB", ["P1"]⟩, ⟨1/100, "PEPC", ["P1"]⟩],
          [⟨1/10, "PEPE", ["REV__P3"]⟩]], [1/1000, 1/100, 1/100]) := by decide +kernel

private def exEv : List Evidence :=
  [⟨1/10, "PEPB", ["P1"]⟩, ⟨1/100, "PEPA", ["P1"]⟩, ⟨1/1000, "PEPB", ["P2"]⟩]

example : minPep exEv = some (1/1000) ∧ bestPepKey exEv = -(1/1000) := by decide +kernel
example : multPepTerms exEv = [1/1000, 1/100] := by decide +kernel
example : multPepScoreWith (fun q => 1 - q) (1/2) exEv = some ((1 - 1/1000) + (1 - 1/100) + 1/2 * 2) := by
  decide +kernel
example : StrictAnti (fun q : Rat => -q) := fun _ _ h => neg_lt_neg h
/-- an antitone `negLog` that is NOT strictly antitone (constant on `[0, 1/100]`, like the float
    `-log10` on neighbouring doubles) is covered by the three best-PEP theorems -/
example : Antitone (fun q : Rat => -(max q (1/100))) ∧ ¬ StrictAnti (fun q : Rat => -(max q (1/100))) := by
  refine ⟨fun a b h => neg_le_neg (max_le_max h (le_refl _)), fun hs => ?_⟩
  have := hs (show (0 : Rat) < 1/100 by norm_num)
  norm_num at this
example : bestPepScoreWith (fun q : Rat => -(max q (1/100))) (-100) exEv = -(1/100) := by decide +kernel

end PgFdr.C05
