import PgFdr.Proofs.C14
import PgFdr.Props.C18

/-!
# C14 — equal-score ties are broken without bias

Property text (properties.jsonl): "When several groups have exactly the same score, their relative
order in the ranking - and hence which of them competes first and how decoys interleave with targets
in the FDR estimate - is drawn uniformly at random under the run's seed instead of following input
order; in particular targets are not systematically ranked ahead of equally scoring decoys or vice
versa."

The model is the one of C02 (`PgFdr/Model/C02.lean`, driver op `compete`), with the two
`np.random.shuffle` calls as explicit permutations `π₁ π₂` (`y[i] = x[π i]`).  The theorems say: the
order inside every tie class is exactly the order the shuffle produced (stability of both sorts, the
keys contain nothing but score and placeholder flag), the arrival order of the input is absorbed
into `π₁`, and over all `n!` shuffles every one of the `k!` relative orders of a tie class is produced
by exactly `n!/k!` of them (`relative_orders_equally_often`), assembled for the executed ranking
(`ranking_tie_order_uniform`: over all second shuffles), the pass order (`pass_tie_order_uniform`:
over all first shuffles) and a tied target/decoy twin pair (`twin_survivor_half`: each survives for
exactly half of the first shuffles); `permList_surjective`: the permutations quantified over are
exactly the well-formed recorded index lists.
That numpy's generator draws the permutation uniformly is trusted (`level` note), as is the seed.
-/
namespace PgFdr.C14
open PgFdr.C02

/-- "their relative order in the ranking … is drawn … at random … instead of following input order":
    in the final ranking the groups of any one score `q` stand in exactly the order the second shuffle
    gave them, and in the pass order ("which of them competes first") the groups of any one
    (score, placeholder flag) stand in exactly the order the first shuffle gave them -/
theorem ties_follow_shuffle (mode : Mode) (items : List Item) (π₁ π₂ : List Nat) (q : Rat) (o : Bool) :
    (doCompetition mode items π₁ π₂).filter (fun x => decide (x.score = q)) =
      (shuffle (keptFrom mode [] items π₁) π₂).filter (fun x => decide (x.score = q)) ∧
    (passOrder items π₁).filter (fun x => decide (x.score = q) && (x.obsolete == o)) =
      (shuffle (items.filter (·.hasEvidence)) π₁).filter (fun x => decide (x.score = q) && (x.obsolete == o)) := by
  constructor
  · rw [doCompetition_eq]
    apply mergeSort_filter_class le2 le2_trans le2_total
    intro a b ha hb
    simp only [decide_eq_true_eq] at ha hb
    simp [le2, ha, hb]
  · unfold passOrder
    apply mergeSort_filter_class le1 le1_trans le1_total
    intro a b ha hb
    simp only [Bool.and_eq_true, decide_eq_true_eq, beq_iff_eq] at ha hb
    simp only [le1, ha.1, hb.1, ha.2, hb.2, lt_irrefl, decide_false, decide_true, Bool.true_and, Bool.false_or]
    cases o <;> rfl

/-- pairwise form: two equally scoring survivors keep the relative order of the second shuffle -/
theorem ties_follow_shuffle_pair (mode : Mode) (items : List Item) (π₁ π₂ : List Nat) (x y : Item)
    (hxy : x.score = y.score) (h : [x, y].Sublist (shuffle (keptFrom mode [] items π₁) π₂)) :
    [x, y].Sublist (doCompetition mode items π₁ π₂) := by
  rw [doCompetition_eq]
  exact List.pair_sublist_mergeSort le2_trans le2_total (by simp [le2, hxy]) h

/-- "whatever order the groups arrive in": running the competition on the groups arriving in another
    order `τ` is running it on the original order with the first shuffle composed with `τ`; so when
    `π₁` is uniform the distribution of the result does not depend on the arrival order -/
theorem arrival_equivariance (mode : Mode) (items : List Item) (h0 : ∀ x ∈ items, x.hasEvidence = true)
    (τ π₁ π₂ : List Nat) (hτp : τ.Perm (List.range items.length)) :
    doCompetition mode (shuffle items τ) π₁ π₂ =
      doCompetition mode items (π₁.filterMap (fun i => τ[i]?)) π₂ := by
  have hτ : ∀ t ∈ τ, t < items.length := fun t ht => List.mem_range.mp (hτp.subset ht)
  have hf : items.filter (·.hasEvidence) = items := List.filter_eq_self.mpr h0
  have hf' : (shuffle items τ).filter (·.hasEvidence) = shuffle items τ :=
    List.filter_eq_self.mpr (fun x hx => h0 x ((shuffle_perm items τ hτp).subset hx))
  simp only [doCompetition, competeFrom, keptFrom, passOrder, hf, hf']
  rw [shuffle_shuffle items τ π₁ hτ]

/-- "whatever order the groups arrive in (targets first, decoys first, interleaved)", in full: for
    ANY rearrangement `items'` of the input — groups without peptides included — there is a fixed
    well-formed index list `τ` such that running on `items'` with first shuffle `π₁` is running on
    `items` with `π₁` composed with `τ`; composition maps well-formed shuffles to well-formed shuffles
    and is injective, i.e. it permutes the `n!` possible first shuffles.  So if `π₁` is uniform the
    result has the same distribution for every arrival order. -/
theorem arrival_order_absorbed (mode : Mode) (items items' : List Item) (h : items'.Perm items) :
    ∃ τ : List Nat, τ.Perm (List.range (items.filter (·.hasEvidence)).length) ∧
      (∀ π₁ π₂ : List Nat, doCompetition mode items' π₁ π₂ =
        doCompetition mode items (π₁.filterMap (fun i => τ[i]?)) π₂) ∧
      (∀ π₁ : List Nat, π₁.Perm (List.range (items.filter (·.hasEvidence)).length) →
        (π₁.filterMap (fun i => τ[i]?)).Perm (List.range (items.filter (·.hasEvidence)).length)) ∧
      (∀ π₁ π₁' : List Nat, π₁.Perm (List.range (items.filter (·.hasEvidence)).length) →
        π₁'.Perm (List.range (items.filter (·.hasEvidence)).length) →
        π₁.filterMap (fun i => τ[i]?) = π₁'.filterMap (fun i => τ[i]?) → π₁ = π₁') := by
  obtain ⟨τ, hτ, hsh⟩ := exists_shuffle_of_perm (h.filter (·.hasEvidence))
  have hlt : ∀ t ∈ τ, t < (items.filter (·.hasEvidence)).length :=
    fun t ht => List.mem_range.mp (hτ.subset ht)
  have hτlen : τ.length = (items.filter (·.hasEvidence)).length := by
    rw [hτ.length_eq, List.length_range]
  refine ⟨τ, hτ, ?_, ?_, ?_⟩
  · intro π₁ π₂
    simp only [doCompetition, competeFrom, keptFrom, passOrder, hsh]
    rw [shuffle_shuffle _ τ π₁ hlt]
  · intro π₁ hπ₁
    rw [← hτlen] at hπ₁
    exact (shuffle_perm τ π₁ hπ₁).trans hτ
  · intro π₁ π₁' h1 h1' heq
    apply compose_injective τ (hτ.nodup_iff.mpr List.nodup_range) π₁ π₁' _ _ heq
    · intro i hi; rw [hτlen]; exact List.mem_range.mp (h1.subset hi)
    · intro i hi; rw [hτlen]; exact List.mem_range.mp (h1'.subset hi)

/-- "the sort keys contain only score (and the placeholder flag), never the decoy flag or input
    position": both comparisons are functions of (score, placeholder flag) resp. score alone -/
theorem keys_ignore_decoy_and_position (a a' b b' : Item)
    (ha : a.score = a'.score) (hb : b.score = b'.score) :
    le2 a b = le2 a' b' ∧
    (isObsolete a.group = isObsolete a'.group → isObsolete b.group = isObsolete b'.group →
      le1 a b = le1 a' b') := by
  refine ⟨by simp [le2, ha, hb], fun hoa hob => ?_⟩
  simp only [le1, Item.obsolete, ha, hb, hoa, hob]

open Equiv in
/-- "drawn uniformly at random" (counting form): for every relative order `o` of a tie class `S` of
    an `n`-element list and every relabelling `ρ` of the positions that maps the class to itself,
    exactly as many of the `n!` shuffles list the class in the order `o` as in the order `o.map ρ`.
    (One step of the argument; the relabellings act transitively on the `k!` orders of the class —
    `exists_relabel`, `card_induced_eq` in `Proofs/C14.lean` — and the full statement, every order is
    induced by exactly `n!/k!` shuffles, is `relative_orders_equally_often` below.) -/
theorem uniform_induced_order {n : ℕ} (S : Fin n → Bool) (ρ : Perm (Fin n)) (hρ : ∀ x, S (ρ x) = S x)
    (o : List (Fin n)) :
    Fintype.card {σ : Perm (Fin n) // induced S σ = o} =
      Fintype.card {σ : Perm (Fin n) // induced S σ = o.map ρ} := by
  exact card_induced_map S ρ hρ o

open Equiv in
/-- link between the counting statement and the executed model: the order in which the model's
    `shuffle` (with the index list of a permutation `σ`, a well-formed shuffle) lists the elements of
    a class `p` is the `induced` order of `uniform_induced_order` -/
theorem shuffled_tie_class_is_induced {α : Type} (x : List α) (p : α → Bool) (σ : Perm (Fin x.length)) :
    (permList σ).Perm (List.range x.length) ∧
    (shuffle x (permList σ)).filter p = (induced (fun i => p x[i]) σ).map (fun i => x[i]) := by
  exact ⟨permList_perm σ, shuffle_filter_induced x p σ⟩

/-! ### audit B8: "uniformly at random" as a counting theorem, assembled for the executed ranking -/

open Equiv in
/-- "their relative order in the ranking … is drawn uniformly at random": let `S` be a tie class of an
    `n`-element list, with `k` members.  The relative orders of the class are the `k!` arrangements
    `o` of its positions (`o.Perm ((List.finRange n).filter S)`; `relative_orders_are_k_factorial`
    below).  Over all `n!` permutations `σ` (the model of a uniformly drawn shuffle) EVERY such order
    is induced by exactly `n!/k!` of them — the division is exact (second conjunct).  So a uniform
    shuffle makes every relative order of the tied groups occur with probability `1/k!`: for `k = 2`
    (a target and an equally scoring decoy) each of the two stands first in exactly half the shuffles. -/
theorem relative_orders_equally_often {n : ℕ} (S : Fin n → Bool) (o : List (Fin n))
    (ho : o.Perm ((List.finRange n).filter S)) :
    Fintype.card {σ : Perm (Fin n) // induced S σ = o} = n.factorial / o.length.factorial ∧
    Fintype.card {σ : Perm (Fin n) // induced S σ = o} * o.length.factorial = n.factorial := by
  refine ⟨card_induced_div S o ho, ?_⟩
  rw [ho.length_eq]
  exact card_induced_mul S o ho

open Equiv in
/-- the orders counted by `relative_orders_equally_often` are all there is: whatever the shuffle, the
    order it induces on the class is one of the arrangements of the class's positions, and there are
    exactly `k!` of those (listed without repetition by `List.permutations`) -/
theorem relative_orders_are_k_factorial {n : ℕ} (S : Fin n → Bool) :
    (∀ σ : Perm (Fin n), induced S σ ∈ ((List.finRange n).filter S).permutations) ∧
    (∀ o, o ∈ ((List.finRange n).filter S).permutations ↔ o.Perm ((List.finRange n).filter S)) ∧
    ((List.finRange n).filter S).permutations.Nodup ∧
    ((List.finRange n).filter S).permutations.length = ((List.finRange n).filter S).length.factorial :=
  ⟨fun σ => List.mem_permutations.mpr (induced_perm_cls S σ), fun _ => List.mem_permutations,
    List.nodup_permutations _ (cls_nodup S), List.length_permutations _⟩

open Equiv in
/-- quantifying over `Equiv.Perm (Fin n)` IS quantifying over the well-formed recorded shuffles: an
    index list `π` is a rearrangement of `range n` (what `np.random.shuffle` can have applied to `n`
    items, what the driver's `isPermOfRange` accepts, the hypothesis of C02's theorems) exactly when it
    is the index list of a permutation, and different permutations have different index lists -/
theorem permList_surjective {n : ℕ} :
    (∀ π : List Nat, π.Perm (List.range n) ↔ ∃ σ : Perm (Fin n), permList σ = π) ∧
    Function.Injective (permList (n := n)) :=
  ⟨fun π => ⟨exists_permList_eq π, fun ⟨σ, h⟩ => h ▸ permList_perm σ⟩, permList_injective⟩

open Equiv in
/-- "their relative order in the ranking … is drawn uniformly at random", for the executed model: fix
    the input, the strategy and the first shuffle `π₁` (hence the survivors `keptFrom …`, `m` of them),
    and a score `q` with `k` survivors.  As the second shuffle ranges over all `m!` permutations of
    the survivors, every arrangement `r` of the survivors of score `q` is what the RANKING
    `doCompetition mode items π₁ π₂` shows at score `q` for exactly `m!/k!` of them — all `k!` relative
    orders equally often.  (`r.Nodup`: the tied groups are distinct items; see
    `ranking_tie_order_uniform_positions` for the statement by positions, without it.) -/
theorem ranking_tie_order_uniform (mode : Mode) (items : List Item) (π₁ : List Nat) (q : Rat)
    (r : List Item)
    (hr : r.Perm ((keptFrom mode [] items π₁).filter (fun x => decide (x.score = q)))) (hnd : r.Nodup) :
    Fintype.card {σ : Perm (Fin (keptFrom mode [] items π₁).length) //
        (doCompetition mode items π₁ (permList σ)).filter (fun x => decide (x.score = q)) = r} =
      (keptFrom mode [] items π₁).length.factorial / r.length.factorial ∧
    Fintype.card {σ : Perm (Fin (keptFrom mode [] items π₁).length) //
        (doCompetition mode items π₁ (permList σ)).filter (fun x => decide (x.score = q)) = r} *
      r.length.factorial = (keptFrom mode [] items π₁).length.factorial := by
  have hc : Fintype.card {σ : Perm (Fin (keptFrom mode [] items π₁).length) //
        (doCompetition mode items π₁ (permList σ)).filter (fun x => decide (x.score = q)) = r} =
      Fintype.card {σ : Perm (Fin (keptFrom mode [] items π₁).length) //
        (shuffle (keptFrom mode [] items π₁) (permList σ)).filter (fun x => decide (x.score = q)) = r} :=
    Fintype.card_congr (Equiv.subtypeEquivRight (fun σ => by
      rw [(ties_follow_shuffle mode items π₁ (permList σ) q true).1]))
  rw [hc]
  exact ⟨card_shuffle_filter_div _ _ r hr hnd, card_shuffle_filter_mul _ _ r hr hnd⟩

open Equiv in
/-- the same by positions, with no distinctness hypothesis: for every second shuffle the ranking at
    score `q` is the image of the order the shuffle induces on the positions (among the survivors)
    of the groups of score `q`, and each of the `k!` orders of these positions is induced by exactly
    `m!/k!` of the `m!` second shuffles -/
theorem ranking_tie_order_uniform_positions (mode : Mode) (items : List Item) (π₁ : List Nat) (q : Rat) :
    (∀ σ : Perm (Fin (keptFrom mode [] items π₁).length),
      (doCompetition mode items π₁ (permList σ)).filter (fun x => decide (x.score = q)) =
        (induced (fun i => decide ((keptFrom mode [] items π₁)[i].score = q)) σ).map
          (fun i => (keptFrom mode [] items π₁)[i])) ∧
    ∀ o : List (Fin (keptFrom mode [] items π₁).length),
      o.Perm ((List.finRange _).filter (fun i => decide ((keptFrom mode [] items π₁)[i].score = q))) →
      Fintype.card {σ : Perm (Fin (keptFrom mode [] items π₁).length) //
        induced (fun i => decide ((keptFrom mode [] items π₁)[i].score = q)) σ = o} =
        (keptFrom mode [] items π₁).length.factorial / o.length.factorial := by
  refine ⟨fun σ => ?_, fun o ho => card_induced_div _ o ho⟩
  rw [(ties_follow_shuffle mode items π₁ (permList σ) q true).1]
  exact shuffle_filter_induced _ (fun x => decide (x.score = q)) σ

open Equiv in
/-- "and hence which of them competes first": the same for the PASS ORDER.  Fix the input (`n` groups
    with evidence) and a (score, placeholder flag) `(q, ob)` with `k` groups.  As the first shuffle
    ranges over all `n!` permutations, every arrangement `r` of these `k` groups is the order in which
    they compete (`passOrder items π₁`, restricted to the class) for exactly `n!/k!` of them. -/
theorem pass_tie_order_uniform (items : List Item) (q : Rat) (ob : Bool) (r : List Item)
    (hr : r.Perm ((items.filter (·.hasEvidence)).filter
      (fun x => decide (x.score = q) && (x.obsolete == ob)))) (hnd : r.Nodup) :
    Fintype.card {σ : Perm (Fin (items.filter (·.hasEvidence)).length) //
        (passOrder items (permList σ)).filter (fun x => decide (x.score = q) && (x.obsolete == ob)) = r} =
      (items.filter (·.hasEvidence)).length.factorial / r.length.factorial ∧
    Fintype.card {σ : Perm (Fin (items.filter (·.hasEvidence)).length) //
        (passOrder items (permList σ)).filter (fun x => decide (x.score = q) && (x.obsolete == ob)) = r} *
      r.length.factorial = (items.filter (·.hasEvidence)).length.factorial := by
  have hc : Fintype.card {σ : Perm (Fin (items.filter (·.hasEvidence)).length) //
        (passOrder items (permList σ)).filter (fun x => decide (x.score = q) && (x.obsolete == ob)) = r} =
      Fintype.card {σ : Perm (Fin (items.filter (·.hasEvidence)).length) //
        (shuffle (items.filter (·.hasEvidence)) (permList σ)).filter
          (fun x => decide (x.score = q) && (x.obsolete == ob)) = r} :=
    Fintype.card_congr (Equiv.subtypeEquivRight (fun σ => by
      rw [(ties_follow_shuffle .classic items (permList σ) [] q ob).2]))
  rw [hc]
  exact ⟨card_shuffle_filter_div _ _ r hr hnd, card_shuffle_filter_mul _ _ r hr hnd⟩

open Equiv in
/-- "targets are not systematically ranked ahead of equally scoring decoys or vice versa", at the
    competition: a tied target/decoy twin pair.  Let `a`, `b` be two distinct groups with evidence,
    of equal score and equal placeholder flag, neither a contaminant, that exclude each other (an
    identifier looked up for `b` is marked by `a` and vice versa — for the picked strategies: a target
    and its decoy), and let no other group mark an identifier that is looked up for `a` or `b`.  Then
    for EVERY first shuffle exactly one of the two survives, and each of them is the survivor for
    exactly half of the `n!` first shuffles. -/
theorem twin_survivor_half (mode : Mode) (items : List Item) (a b : Item)
    (hnd : (items.filter (·.hasEvidence)).Nodup)
    (ha : a ∈ items.filter (·.hasEvidence)) (hb : b ∈ items.filter (·.hasEvidence)) (hab : a ≠ b)
    (hs : a.score = b.score) (ho : a.obsolete = b.obsolete)
    (hca : contam a = false) (hcb : contam b = false)
    (hba : ∃ k ∈ (strategy mode).key b, k ∈ (strategy mode).marks a)
    (hab' : ∃ k ∈ (strategy mode).key a, k ∈ (strategy mode).marks b)
    (hfree : ∀ x ∈ items.filter (·.hasEvidence), x ≠ a → x ≠ b →
      ∀ k ∈ (strategy mode).marks x, k ∉ (strategy mode).key a ∧ k ∉ (strategy mode).key b) :
    (∀ σ : Perm (Fin (items.filter (·.hasEvidence)).length),
      (a ∈ keptFrom mode [] items (permList σ) ↔ b ∉ keptFrom mode [] items (permList σ))) ∧
    2 * Fintype.card {σ : Perm (Fin (items.filter (·.hasEvidence)).length) //
      a ∈ keptFrom mode [] items (permList σ)} = (items.filter (·.hasEvidence)).length.factorial ∧
    2 * Fintype.card {σ : Perm (Fin (items.filter (·.hasEvidence)).length) //
      b ∈ keptFrom mode [] items (permList σ)} = (items.filter (·.hasEvidence)).length.factorial := by
  -- the pass order restricted to {a, b} is the first shuffle restricted to {a, b}
  have hsub : ∀ (c d : Item), c.score = a.score → c.obsolete = a.obsolete → d.score = a.score →
      d.obsolete = a.obsolete → ∀ σ : Perm (Fin (items.filter (·.hasEvidence)).length),
      (passOrder items (permList σ)).filter (fun x => decide (x = c) || decide (x = d)) =
        (shuffle (items.filter (·.hasEvidence)) (permList σ)).filter
          (fun x => decide (x = c) || decide (x = d)) := by
    intro c d hc1 hc2 hd1 hd2 σ
    have hpq : ∀ l : List Item, l.filter (fun x => decide (x = c) || decide (x = d)) =
        (l.filter (fun x => decide (x.score = a.score) && (x.obsolete == a.obsolete))).filter
          (fun x => decide (x = c) || decide (x = d)) := by
      intro l
      rw [List.filter_filter]
      apply List.filter_congr
      intro x _
      by_cases hxc : x = c
      · simp [hxc, hc1, hc2]
      · by_cases hxd : x = d
        · simp [hxd, hd1, hd2]
        · simp [hxc, hxd]
    rw [hpq, (ties_follow_shuffle .classic items (permList σ) [] a.score a.obsolete).2, ← hpq]
  -- the two arrangements of the pair
  have hpair : ∀ (c d : Item), c ∈ items.filter (·.hasEvidence) → d ∈ items.filter (·.hasEvidence) →
      c ≠ d → [c, d].Perm ((items.filter (·.hasEvidence)).filter
        (fun x => decide (x = c) || decide (x = d))) := by
    intro c d hc hd hcd
    apply (List.perm_ext_iff_of_nodup (by simp [hcd]) (hnd.filter _)).mpr
    intro x
    rw [List.mem_filter (as := items.filter (·.hasEvidence))]
    simp only [List.mem_cons, List.not_mem_nil, or_false, Bool.or_eq_true, decide_eq_true_eq]
    constructor
    · rintro (rfl | rfl)
      · exact ⟨hc, Or.inl rfl⟩
      · exact ⟨hd, Or.inr rfl⟩
    · exact fun h => h.2
  -- c before d in the pass order: c survives, d does not
  have hwin : ∀ (c d : Item), c ≠ d → contam c = false →
      (∃ k ∈ (strategy mode).key d, k ∈ (strategy mode).marks c) →
      (∀ x ∈ items.filter (·.hasEvidence), x ≠ c → x ≠ d →
        ∀ k ∈ (strategy mode).marks x, k ∉ (strategy mode).key c) →
      ∀ σ : Perm (Fin (items.filter (·.hasEvidence)).length),
      (passOrder items (permList σ)).filter (fun x => decide (x = c) || decide (x = d)) = [c, d] →
      c ∈ keptFrom mode [] items (permList σ) ∧ d ∉ keptFrom mode [] items (permList σ) := by
    intro c d hcd hcc hblock hfr σ hf
    refine pass_twin (strategy mode) contam c d hcd hcc hblock _ [] (by simp) ?_ hf
    intro x hx
    exact hfr x ((passOrder_perm items _ (permList_perm σ)).mem_iff.mp hx)
  have hflip : ∀ l : List Item, l.filter (fun x => decide (x = b) || decide (x = a)) =
      l.filter (fun x => decide (x = a) || decide (x = b)) := by
    intro l
    apply List.filter_congr
    intro x _
    exact Bool.or_comm _ _
  -- for every shuffle the pair stands in one of the two orders
  have hdich : ∀ σ : Perm (Fin (items.filter (·.hasEvidence)).length),
      (passOrder items (permList σ)).filter (fun x => decide (x = a) || decide (x = b)) = [a, b] ∨
      (passOrder items (permList σ)).filter (fun x => decide (x = a) || decide (x = b)) = [b, a] := by
    intro σ
    apply List.perm_pair.mp
    rw [hsub a b rfl rfl hs.symm ho.symm σ]
    exact ((shuffle_perm _ _ (permList_perm σ)).filter _).trans (hpair a b ha hb hab).symm
  have hA : ∀ σ : Perm (Fin (items.filter (·.hasEvidence)).length),
      a ∈ keptFrom mode [] items (permList σ) ↔
      (passOrder items (permList σ)).filter (fun x => decide (x = a) || decide (x = b)) = [a, b] := by
    intro σ
    constructor
    · intro hmem
      rcases hdich σ with h | h
      · exact h
      · rw [← hflip] at h
        exact absurd hmem (hwin b a (Ne.symm hab) hcb hab'
          (fun x hx h1 h2 k hk => (hfree x hx h2 h1 k hk).2) σ h).2
    · intro h
      exact (hwin a b hab hca hba (fun x hx h1 h2 k hk => (hfree x hx h1 h2 k hk).1) σ h).1
  have hB : ∀ σ : Perm (Fin (items.filter (·.hasEvidence)).length),
      b ∈ keptFrom mode [] items (permList σ) ↔
      (passOrder items (permList σ)).filter (fun x => decide (x = a) || decide (x = b)) = [b, a] := by
    intro σ
    constructor
    · intro hmem
      rcases hdich σ with h | h
      · exact absurd hmem (hwin a b hab hca hba (fun x hx h1 h2 k hk => (hfree x hx h1 h2 k hk).1) σ h).2
      · exact h
    · intro h
      rw [← hflip] at h
      exact (hwin b a (Ne.symm hab) hcb hab' (fun x hx h1 h2 k hk => (hfree x hx h2 h1 k hk).2) σ h).1
  have hcount : ∀ r : List Item, r.Perm [a, b] →
      2 * Fintype.card {σ : Perm (Fin (items.filter (·.hasEvidence)).length) //
        (passOrder items (permList σ)).filter (fun x => decide (x = a) || decide (x = b)) = r} =
      (items.filter (·.hasEvidence)).length.factorial := by
    intro r hr
    have hc : Fintype.card {σ : Perm (Fin (items.filter (·.hasEvidence)).length) //
        (passOrder items (permList σ)).filter (fun x => decide (x = a) || decide (x = b)) = r} =
      Fintype.card {σ : Perm (Fin (items.filter (·.hasEvidence)).length) //
        (shuffle (items.filter (·.hasEvidence)) (permList σ)).filter
          (fun x => decide (x = a) || decide (x = b)) = r} :=
      Fintype.card_congr (Equiv.subtypeEquivRight (fun σ => by rw [hsub a b rfl rfl hs.symm ho.symm σ]))
    have := card_shuffle_filter_mul (items.filter (·.hasEvidence))
      (fun x => decide (x = a) || decide (x = b)) r (hr.trans (hpair a b ha hb hab))
      (hr.nodup_iff.mpr (by simp [hab]))
    rw [hr.length_eq] at this
    rw [hc, Nat.mul_comm]
    exact this
  refine ⟨fun σ => ?_, ?_, ?_⟩
  · rw [hA σ]
    constructor
    · intro h hb'
      rw [hB σ, h] at hb'
      simp only [List.cons.injEq, and_true] at hb'
      exact hab hb'.1
    · intro hnb
      rcases hdich σ with h | h
      · exact h
      · exact absurd ((hB σ).mpr h) hnb
  · rw [Fintype.card_congr (Equiv.subtypeEquivRight hA)]
    exact hcount [a, b] (List.Perm.refl _)
  · rw [Fintype.card_congr (Equiv.subtypeEquivRight hB)]
    exact hcount [b, a] (List.Perm.swap _ _ _)

/-! ## Non-vacuity

Two targets and two decoys, all of score 2, listed targets first.  With `π₁ = [2,0,3,1]` the pass
order is `REV__C, A, REV__D, B`; all four survive; with `π₂ = [3,2,1,0]` the ranking is
`B, REV__D, A, REV__C`: the order of the tie class is the shuffles', not the input's.  (All keys are
equal, so both sorts leave their argument alone — `mergeSort` does not reduce in the kernel.) -/

private def tA : Item := ⟨["A"], [⟨1/100, "PEPA", ["A"]⟩], 2⟩
private def tB : Item := ⟨["B"], [⟨1/100, "PEPB", ["B"]⟩], 2⟩
private def dC : Item := ⟨["REV__C"], [⟨1/100, "PEPC", ["REV__C"]⟩], 2⟩
private def dD : Item := ⟨["REV__D"], [⟨1/100, "PEPD", ["REV__D"]⟩], 2⟩
private def exItems : List Item := [tA, tB, dC, dD]

private theorem ex_passOrder : passOrder exItems [2, 0, 3, 1] = [dC, tA, dD, tB] := by
  unfold passOrder
  have : shuffle (exItems.filter (·.hasEvidence)) [2, 0, 3, 1] = [dC, tA, dD, tB] := by decide +kernel
  rw [this]
  apply List.mergeSort_of_pairwise
  decide +kernel

private theorem ex_out :
    doCompetition (.pickedGroup .leading) exItems [2, 0, 3, 1] [3, 2, 1, 0] = [tB, dD, tA, dC] := by
  rw [doCompetition_eq]
  unfold keptFrom
  rw [ex_passOrder]
  have : shuffle (pass (strategy (.pickedGroup .leading)) contam [] [dC, tA, dD, tB]) [3, 2, 1, 0] =
      [tB, dD, tA, dC] := by decide +kernel
  rw [this]
  apply List.mergeSort_of_pairwise
  decide +kernel

/-- a tie class of four in `ties_follow_shuffle` (`q = 2`), ranked as the second shuffle left it -/
example : (doCompetition (.pickedGroup .leading) exItems [2, 0, 3, 1] [3, 2, 1, 0]).filter
    (fun x => decide (x.score = 2)) = [tB, dD, tA, dC] := by
  rw [ex_out]; decide +kernel

/-- hypotheses of `ties_follow_shuffle_pair`: decoy `REV__D` before target `A` after the second shuffle -/
example : dD.score = tA.score ∧
    [dD, tA].Sublist (shuffle (keptFrom (.pickedGroup .leading) [] exItems [2, 0, 3, 1]) [3, 2, 1, 0]) := by
  unfold keptFrom
  rw [ex_passOrder]
  decide +kernel

/-- hypotheses of `arrival_equivariance` (decoys-first arrival `τ = [2,3,0,1]`) and of
    `arrival_order_absorbed` -/
example : (∀ x ∈ exItems, x.hasEvidence = true) ∧ [2, 3, 0, 1].Perm (List.range exItems.length) ∧
    (shuffle exItems [2, 3, 0, 1]).Perm exItems := by
  decide +kernel

open Equiv in
/-- hypotheses of `uniform_induced_order`: positions 0 and 1 tied (`S`), `ρ` exchanges them -/
example : ∀ x : Fin 3, (fun i : Fin 3 => decide (i ≠ 2)) ((swap (0 : Fin 3) 1) x) =
    (fun i : Fin 3 => decide (i ≠ 2)) x := by
  decide


/-! ### non-vacuity of the counting theorems (audit B8) -/

open Equiv in
/-- `relative_orders_equally_often` with `n = 3`, `k = 2` (positions 0 and 1 tied): both orders of the
    class satisfy the hypothesis, and each is induced by `3!/2! = 3` of the 6 shuffles (counted by
    evaluation, independently of the theorem) -/
example : [(1 : Fin 3), 0].Perm ((List.finRange 3).filter (fun i => decide (i ≠ 2))) ∧
    [(0 : Fin 3), 1].Perm ((List.finRange 3).filter (fun i => decide (i ≠ 2))) ∧
    Fintype.card {σ : Perm (Fin 3) // induced (fun i => decide (i ≠ 2)) σ = [1, 0]} = 3 ∧
    Fintype.card {σ : Perm (Fin 3) // induced (fun i => decide (i ≠ 2)) σ = [0, 1]} = 3 ∧
    Nat.factorial 3 / Nat.factorial 2 = 3 := by
  decide

open Equiv in
/-- `permList_surjective`: the recorded shuffle `[1,0,2]` is well formed and is the index list of the
    transposition of 0 and 1 -/
example : [1, 0, 2].Perm (List.range 3) ∧ permList (swap (0 : Fin 3) 1) = [1, 0, 2] := by
  decide

/-- a third input: target `A` and decoy `REV__C` tied at score 2, target `E` at score 1 -/
private def tE : Item := ⟨["E"], [⟨1/10, "PEPE", ["E"]⟩], 1⟩
private def ex3 : List Item := [tA, dC, tE]

private theorem ex3_kept : keptFrom (.pickedGroup .leading) [] ex3 [0, 1, 2] = [tA, dC, tE] := by
  unfold keptFrom passOrder
  have : shuffle (ex3.filter (·.hasEvidence)) [0, 1, 2] = [tA, dC, tE] := by decide +kernel
  rw [this, List.mergeSort_of_pairwise (by decide +kernel)]
  decide +kernel

/-- hypotheses of `ranking_tie_order_uniform` (`m = 3` survivors, `k = 2` of score 2): the order
    "decoy first" is one of the arrangements, for `3!/2! = 3` of the 6 second shuffles -/
example : [dC, tA].Perm ((keptFrom (.pickedGroup .leading) [] ex3 [0, 1, 2]).filter
      (fun x => decide (x.score = 2))) ∧ [dC, tA].Nodup ∧
    (keptFrom (.pickedGroup .leading) [] ex3 [0, 1, 2]).length = 3 := by
  rw [ex3_kept]; decide +kernel

/-- hypotheses of `pass_tie_order_uniform` (`n = 3`, the class (2, regular) has `k = 2` members) -/
example : [dC, tA].Perm ((ex3.filter (·.hasEvidence)).filter
    (fun x => decide (x.score = 2) && (x.obsolete == false))) ∧ [dC, tA].Nodup := by
  decide +kernel

/-- hypotheses of `twin_survivor_half`: target `A`, its decoy `REV__A` with the same score, and an
    unrelated target `B`, under the picked strategy (both twins look up and mark the identifier `A`) -/
private def dA : Item := ⟨["REV__A"], [⟨1/100, "PEPR", ["REV__A"]⟩], 2⟩
example :
    ([tA, dA, tB].filter (·.hasEvidence)).Nodup ∧
    tA ∈ [tA, dA, tB].filter (·.hasEvidence) ∧ dA ∈ [tA, dA, tB].filter (·.hasEvidence) ∧ tA ≠ dA ∧
    tA.score = dA.score ∧ tA.obsolete = dA.obsolete ∧ contam tA = false ∧ contam dA = false ∧
    (∃ k ∈ (strategy .picked).key dA, k ∈ (strategy .picked).marks tA) ∧
    (∃ k ∈ (strategy .picked).key tA, k ∈ (strategy .picked).marks dA) ∧
    (∀ x ∈ [tA, dA, tB].filter (·.hasEvidence), x ≠ tA → x ≠ dA →
      ∀ k ∈ (strategy .picked).marks x, k ∉ (strategy .picked).key tA ∧ k ∉ (strategy .picked).key dA) := by
  decide +kernel

/-! ## The table the command line WRITES carries the drawn order

The theorems above are about the ranking `do_competition` returns.  What a user of `python -m picked_group_fdr` sees is
the file `writers.finalize_output` writes.  In the glue model (`Model/Cli.lean`: `runMethod` → `renderTable`, tied to
the real `main(argv)` by `harness/cli_model.py` and to the written bytes by the exhibit of `harness/props/C14.py`)
the writer is order-preserving: the data lines are the reported rows in order (`Cli.renderTable_eq`), the reported rows
are a subsequence of the final ranking in ranking order, each carrying the score and the q-value of its position
(`C01.pipeline_report_alignment`), and inside the final ranking equally scoring groups stand in the order the run's
recorded second shuffle gave them (`ties_follow_shuffle`).  Nothing between the competition and the file looks at
identifiers: a writer that re-sorts equal scores (alphabetically, say: `REV__…` ahead of `sp|…`) contradicts
`cli_written_rows_in_ranking_order`. -/
open PgFdr.Cli in
/-- "their relative order in the ranking … is drawn … at random … in particular targets are not systematically ranked
    ahead of equally scoring decoys or vice versa", for the WRITTEN table: written rows = ranking rows, in order.  For
    every table of a completed command-line run the records handed to `csv.writer` are the header line followed by the
    reported rows in order, and there are strictly increasing ranking positions `idx` such that the `k`-th data line is
    the rendering of a row made from the group at position `idx[k]` of the final ranking, with that position's score
    and that position's q-value (the q-values are the ones computed along the ranking, `C01.pipeline_qvals_spec`). -/
theorem cli_written_rows_in_ranking_order (inp : CliInput) (ts : List CliTable) (h : cliRun inp = .ok ts) :
    ∃ ann : C19.Dict, ∀ t ∈ ts,
      t.records = tableHeader :: t.run.rows.map (fun d => (cliRow ann d).toList) ∧
      ∃ idx : List Nat, idx.Pairwise (· < ·) ∧ idx.length = t.run.rows.length ∧
        ∀ (k i : Nat), idx[k]? = some i →
          ∃ (row : C06.RowData) (x : C02.Item),
            t.records[k + 1]? = some (cliRow ann row).toList ∧ t.run.rows[k]? = some row ∧
            t.run.final.ranking[i]? = some x ∧ row.score = x.score ∧
            t.run.final.qvals[i]? = some row.qValue ∧ (∀ p ∈ row.proteins, p ∈ x.group) := by
  obtain ⟨ann, u, -, hall⟩ := C18.cli_tables_satisfy_guarantees inp ts h
  refine ⟨ann, ?_⟩
  intro t ht
  obtain ⟨i, m, cfg, pc, maps, r, -, -, -, -, -, -, -, -, hrun, htr, -, -, hrecs, -⟩ := hall t ht
  subst htr
  refine ⟨hrecs, ?_⟩
  obtain ⟨idx, h1, h2, h3⟩ := C01.pipeline_report_alignment pc _ t.run hrun
  refine ⟨idx, h1, h2, ?_⟩
  intro k j hk
  obtain ⟨row, x, hrow, hx, -, hs, hq, -, hmem, -⟩ := h3 k j hk
  refine ⟨row, x, ?_, hrow, hx, hs, hq, hmem⟩
  rw [hrecs]
  simp [hrow]

open PgFdr.Cli in
/-- and inside that ranking the order of equal scores is the drawn one: for every table of a completed command-line
    run (method at position `i` of `--methods`, its pipeline configuration `pc`) and every score `q`, the groups of
    score `q` stand in the final ranking in exactly the order in which the run's recorded second shuffle of the final
    competition left the survivors — whatever their identifiers, decoy flags or arrival positions.  With
    `cli_written_rows_in_ranking_order` (strictly increasing positions) the written lines of one score follow that
    order too. -/
theorem cli_written_ties_follow_shuffle (inp : CliInput) (ts : List CliTable) (h : cliRun inp = .ok ts) :
    ∀ t ∈ ts, ∃ (i : Nat) (pc : Pipeline.Config), inp.methods[i]? = some t.method ∧
      ∀ q : Rat,
        t.run.final.ranking.filter (fun x => decide (x.score = q)) =
          (shuffle (keptFrom pc.mode []
              (Pipeline.finalItems (pipelineInput inp t.pil (inp.recs.getD i default)) t.run)
              (Pipeline.finalShuffle1 (pipelineInput inp t.pil (inp.recs.getD i default)) t.run))
            (Pipeline.finalShuffle2 (pipelineInput inp t.pil (inp.recs.getD i default)) t.run)).filter
            (fun x => decide (x.score = q)) := by
  obtain ⟨ann, u, -, hall⟩ := C18.cli_tables_satisfy_guarantees inp ts h
  intro t ht
  obtain ⟨i, m, cfg, pc, maps, r, hname, -, -, -, -, -, -, -, hrun, htr, -, -, -, -⟩ := hall t ht
  subst htr
  refine ⟨i, pc, hname, ?_⟩
  intro q
  obtain ⟨hp, -⟩ := Pipeline.final_spec pc _ t.run hrun
  rw [hp.ranking]
  exact (ties_follow_shuffle pc.mode _ _ _ q false).1

/-! Non-vacuity: the completed two-method command line of `Proofs/Cli.lean` (`demo_cli_run`) — both theorems apply to
its two written tables (header + two data lines each). -/
example : ∃ t1 t2, Cli.cliRun Cli.demoRun = .ok [t1, t2] ∧ t1.run.rows.length = 2 ∧ t2.run.rows.length = 2 := by
  obtain ⟨t1, t2, h, -, -, -, -, -, -, -, h1, h2, -⟩ := Cli.demo_cli_run
  refine ⟨t1, t2, h, ?_, ?_⟩
  · have := (C18.cli_tables_satisfy_guarantees Cli.demoRun _ h)
    obtain ⟨_, _, -, hall'⟩ := this
    obtain ⟨_, _, _, _, _, r, -, -, -, -, -, -, -, -, -, htr, hrows, -, -, -⟩ := hall' t1 (by simp)
    rw [htr, ← hrows, h1]; rfl
  · obtain ⟨_, _, -, hall'⟩ := (C18.cli_tables_satisfy_guarantees Cli.demoRun _ h)
    obtain ⟨_, _, _, _, _, r, -, -, -, -, -, -, -, -, -, htr, hrows, -, -, -⟩ := hall' t2 (by simp)
    rw [htr, ← hrows, h2]; rfl

end PgFdr.C14
