import PgFdr.Proofs.C14

/-!
# C14 — equal-score ties are broken without bias

Property text (properties.jsonl): "When several groups have exactly the same score, their relative
order in the ranking - and hence which of them competes first and how decoys interleave with targets
in the FDR estimate - is drawn uniformly at random under the run's seed instead of following input
order; in particular targets are not systematically ranked ahead of equally scoring decoys or vice
versa."

The model is the one of C02 (`PgFdr/Model/C02.lean`, driver op `compete`), with the two
`np.random.shuffle` calls as explicit permutations `π₁ π₂` (`y[i] = x[π i]`).  The theorems say: the
order inside every tie class is exactly the order the shuffle produced (stability of both sorts, the
keys contain nothing but score and placeholder flag), the arrival order of the input is absorbed
into `π₁`, and over all `n!` shuffles every relative order of a tie class is produced equally often.
That numpy's generator draws the permutation uniformly is trusted (`level` note), as is the seed.
-/
namespace PgFdr.C14
open PgFdr.C02

/-- "their relative order in the ranking … is drawn … at random … instead of following input order":
    in the final ranking the groups of any one score `q` stand in exactly the order the second shuffle
    gave them, and in the pass order ("which of them competes first") the groups of any one
    (score, placeholder flag) stand in exactly the order the first shuffle gave them -/
theorem ties_follow_shuffle (mode : Mode) (items : List Item) (π₁ π₂ : List Nat) (q : Rat) (o : Bool) :
    (doCompetition mode items π₁ π₂).filter (fun x => decide (x.score = q)) =
      (shuffle (keptFrom mode [] items π₁) π₂).filter (fun x => decide (x.score = q)) ∧
    (passOrder items π₁).filter (fun x => decide (x.score = q) && (x.obsolete == o)) =
      (shuffle (items.filter (·.hasEvidence)) π₁).filter (fun x => decide (x.score = q) && (x.obsolete == o)) := by
  constructor
  · rw [doCompetition_eq]
    apply mergeSort_filter_class le2 le2_trans le2_total
    intro a b ha hb
    simp only [decide_eq_true_eq] at ha hb
    simp [le2, ha, hb]
  · unfold passOrder
    apply mergeSort_filter_class le1 le1_trans le1_total
    intro a b ha hb
    simp only [Bool.and_eq_true, decide_eq_true_eq, beq_iff_eq] at ha hb
    simp only [le1, ha.1, hb.1, ha.2, hb.2, lt_irrefl, decide_false, decide_true, Bool.true_and, Bool.false_or]
    cases o <;> rfl

/-- pairwise form: two equally scoring survivors keep the relative order of the second shuffle -/
theorem ties_follow_shuffle_pair (mode : Mode) (items : List Item) (π₁ π₂ : List Nat) (x y : Item)
    (hxy : x.score = y.score) (h : [x, y].Sublist (shuffle (keptFrom mode [] items π₁) π₂)) :
    [x, y].Sublist (doCompetition mode items π₁ π₂) := by
  rw [doCompetition_eq]
  exact List.pair_sublist_mergeSort le2_trans le2_total (by simp [le2, hxy]) h

/-- "whatever order the groups arrive in": running the competition on the groups arriving in another
    order `τ` is running it on the original order with the first shuffle composed with `τ`; so when
    `π₁` is uniform the distribution of the result does not depend on the arrival order -/
theorem arrival_equivariance (mode : Mode) (items : List Item) (h0 : ∀ x ∈ items, x.hasEvidence = true)
    (τ π₁ π₂ : List Nat) (hτp : τ.Perm (List.range items.length)) :
    doCompetition mode (shuffle items τ) π₁ π₂ =
      doCompetition mode items (π₁.filterMap (fun i => τ[i]?)) π₂ := by
  have hτ : ∀ t ∈ τ, t < items.length := fun t ht => List.mem_range.mp (hτp.subset ht)
  have hf : items.filter (·.hasEvidence) = items := List.filter_eq_self.mpr h0
  have hf' : (shuffle items τ).filter (·.hasEvidence) = shuffle items τ :=
    List.filter_eq_self.mpr (fun x hx => h0 x ((shuffle_perm items τ hτp).subset hx))
  simp only [doCompetition, competeFrom, keptFrom, passOrder, hf, hf']
  rw [shuffle_shuffle items τ π₁ hτ]

/-- "whatever order the groups arrive in (targets first, decoys first, interleaved)", in full: for
    ANY rearrangement `items'` of the input — groups without peptides included — there is a fixed
    well-formed index list `τ` such that running on `items'` with first shuffle `π₁` is running on
    `items` with `π₁` composed with `τ`; composition maps well-formed shuffles to well-formed shuffles
    and is injective, i.e. it permutes the `n!` possible first shuffles.  So if `π₁` is uniform the
    result has the same distribution for every arrival order. -/
theorem arrival_order_absorbed (mode : Mode) (items items' : List Item) (h : items'.Perm items) :
    ∃ τ : List Nat, τ.Perm (List.range (items.filter (·.hasEvidence)).length) ∧
      (∀ π₁ π₂ : List Nat, doCompetition mode items' π₁ π₂ =
        doCompetition mode items (π₁.filterMap (fun i => τ[i]?)) π₂) ∧
      (∀ π₁ : List Nat, π₁.Perm (List.range (items.filter (·.hasEvidence)).length) →
        (π₁.filterMap (fun i => τ[i]?)).Perm (List.range (items.filter (·.hasEvidence)).length)) ∧
      (∀ π₁ π₁' : List Nat, π₁.Perm (List.range (items.filter (·.hasEvidence)).length) →
        π₁'.Perm (List.range (items.filter (·.hasEvidence)).length) →
        π₁.filterMap (fun i => τ[i]?) = π₁'.filterMap (fun i => τ[i]?) → π₁ = π₁') := by
  obtain ⟨τ, hτ, hsh⟩ := exists_shuffle_of_perm (h.filter (·.hasEvidence))
  have hlt : ∀ t ∈ τ, t < (items.filter (·.hasEvidence)).length :=
    fun t ht => List.mem_range.mp (hτ.subset ht)
  have hτlen : τ.length = (items.filter (·.hasEvidence)).length := by
    rw [hτ.length_eq, List.length_range]
  refine ⟨τ, hτ, ?_, ?_, ?_⟩
  · intro π₁ π₂
    simp only [doCompetition, competeFrom, keptFrom, passOrder, hsh]
    rw [shuffle_shuffle _ τ π₁ hlt]
  · intro π₁ hπ₁
    rw [← hτlen] at hπ₁
    exact (shuffle_perm τ π₁ hπ₁).trans hτ
  · intro π₁ π₁' h1 h1' heq
    apply compose_injective τ (hτ.nodup_iff.mpr List.nodup_range) π₁ π₁' _ _ heq
    · intro i hi; rw [hτlen]; exact List.mem_range.mp (h1.subset hi)
    · intro i hi; rw [hτlen]; exact List.mem_range.mp (h1'.subset hi)

/-- "the sort keys contain only score (and the placeholder flag), never the decoy flag or input
    position": both comparisons are functions of (score, placeholder flag) resp. score alone -/
theorem keys_ignore_decoy_and_position (a a' b b' : Item)
    (ha : a.score = a'.score) (hb : b.score = b'.score) :
    le2 a b = le2 a' b' ∧
    (isObsolete a.group = isObsolete a'.group → isObsolete b.group = isObsolete b'.group →
      le1 a b = le1 a' b') := by
  refine ⟨by simp [le2, ha, hb], fun hoa hob => ?_⟩
  simp only [le1, Item.obsolete, ha, hb, hoa, hob]

open Equiv in
/-- "drawn uniformly at random" (counting form): for every relative order `o` of a tie class `S` of
    an `n`-element list and every relabelling `ρ` of the positions that maps the class to itself,
    exactly as many of the `n!` shuffles list the class in the order `o` as in the order `o.map ρ`.
    The relabellings act transitively on the `k!` orders of the class, so a uniformly drawn shuffle
    makes all of them equally likely — targets before decoys exactly as often as decoys before targets. -/
theorem uniform_induced_order {n : ℕ} (S : Fin n → Bool) (ρ : Perm (Fin n)) (hρ : ∀ x, S (ρ x) = S x)
    (o : List (Fin n)) :
    Fintype.card {σ : Perm (Fin n) // induced S σ = o} =
      Fintype.card {σ : Perm (Fin n) // induced S σ = o.map ρ} := by
  apply Fintype.card_congr
  refine
    { toFun := fun σ => ⟨ρ * σ.1, by rw [induced_mul S ρ σ.1 hρ, σ.2]⟩
      invFun := fun σ => ⟨ρ⁻¹ * σ.1, ?_⟩
      left_inv := fun σ => by ext; simp
      right_inv := fun σ => by ext; simp }
  have hρ' : ∀ x, S (ρ⁻¹ x) = S x := by
    intro x
    have := hρ (ρ⁻¹ x)
    simp at this
    exact this.symm
  rw [induced_mul S ρ⁻¹ σ.1 hρ', σ.2, List.map_map]
  have : (⇑ρ⁻¹ ∘ ⇑ρ) = id := by funext x; simp
  rw [this, List.map_id]

open Equiv in
/-- link between the counting statement and the executed model: the order in which the model's
    `shuffle` (with the index list of a permutation `σ`, a well-formed shuffle) lists the elements of
    a class `p` is the `induced` order of `uniform_induced_order` -/
theorem shuffled_tie_class_is_induced {α : Type} (x : List α) (p : α → Bool) (σ : Perm (Fin x.length)) :
    (permList σ).Perm (List.range x.length) ∧
    (shuffle x (permList σ)).filter p = (induced (fun i => p x[i]) σ).map (fun i => x[i]) := by
  refine ⟨permList_perm σ, ?_⟩
  rw [shuffle_permList]
  unfold induced
  rw [List.filter_map, List.filter_map, List.map_map]
  rfl

/-! ## Non-vacuity

Two targets and two decoys, all of score 2, listed targets first.  With `π₁ = [2,0,3,1]` the pass
order is `REV__C, A, REV__D, B`; all four survive; with `π₂ = [3,2,1,0]` the ranking is
`B, REV__D, A, REV__C`: the order of the tie class is the shuffles', not the input's.  (All keys are
equal, so both sorts leave their argument alone — `mergeSort` does not reduce in the kernel.) -/

private def tA : Item := ⟨["A"], [⟨1/100, "PEPA", ["A"]⟩], 2⟩
private def tB : Item := ⟨["B"], [⟨1/100, "PEPB", ["B"]⟩], 2⟩
private def dC : Item := ⟨["REV__C"], [⟨1/100, "PEPC", ["REV__C"]⟩], 2⟩
private def dD : Item := ⟨["REV__D"], [⟨1/100, "PEPD", ["REV__D"]⟩], 2⟩
private def exItems : List Item := [tA, tB, dC, dD]

private theorem ex_passOrder : passOrder exItems [2, 0, 3, 1] = [dC, tA, dD, tB] := by
  unfold passOrder
  have : shuffle (exItems.filter (·.hasEvidence)) [2, 0, 3, 1] = [dC, tA, dD, tB] := by decide +kernel
  rw [this]
  apply List.mergeSort_of_pairwise
  decide +kernel

private theorem ex_out :
    doCompetition (.pickedGroup .leading) exItems [2, 0, 3, 1] [3, 2, 1, 0] = [tB, dD, tA, dC] := by
  rw [doCompetition_eq]
  unfold keptFrom
  rw [ex_passOrder]
  have : shuffle (pass (strategy (.pickedGroup .leading)) contam [] [dC, tA, dD, tB]) [3, 2, 1, 0] =
      [tB, dD, tA, dC] := by decide +kernel
  rw [this]
  apply List.mergeSort_of_pairwise
  decide +kernel

/-- a tie class of four in `ties_follow_shuffle` (`q = 2`), ranked as the second shuffle left it -/
example : (doCompetition (.pickedGroup .leading) exItems [2, 0, 3, 1] [3, 2, 1, 0]).filter
    (fun x => decide (x.score = 2)) = [tB, dD, tA, dC] := by
  rw [ex_out]; decide +kernel

/-- hypotheses of `ties_follow_shuffle_pair`: decoy `REV__D` before target `A` after the second shuffle -/
example : dD.score = tA.score ∧
    [dD, tA].Sublist (shuffle (keptFrom (.pickedGroup .leading) [] exItems [2, 0, 3, 1]) [3, 2, 1, 0]) := by
  unfold keptFrom
  rw [ex_passOrder]
  decide +kernel

/-- hypotheses of `arrival_equivariance` (decoys-first arrival `τ = [2,3,0,1]`) and of
    `arrival_order_absorbed` -/
example : (∀ x ∈ exItems, x.hasEvidence = true) ∧ [2, 3, 0, 1].Perm (List.range exItems.length) ∧
    (shuffle exItems [2, 3, 0, 1]).Perm exItems := by
  decide +kernel

open Equiv in
/-- hypotheses of `uniform_induced_order`: positions 0 and 1 tied (`S`), `ρ` exchanges them -/
example : ∀ x : Fin 3, (fun i : Fin 3 => decide (i ≠ 2)) ((swap (0 : Fin 3) 1) x) =
    (fun i : Fin 3 => decide (i ≠ 2)) x := by
  decide

end PgFdr.C14
