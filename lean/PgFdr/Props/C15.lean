import PgFdr.Proofs.C15

/-!
# C15 — merging rescoring results rewrites exactly the matched PSMs of evidence files

Property text (properties.jsonl): "The rescoring merge writes the header of the first evidence file
followed by the rows of all evidence files in order, where every MS/MS row whose raw file, scan
number and modified sequence occur in the rescoring results has exactly its score and PEP replaced
by the rescored values, match-between-runs rows pass through unchanged, and MS/MS rows without a
match (or from raw files absent from the results) are dropped. No other field is altered, and
without rescoring files the evidence files are simply concatenated."

The executable model (`merge`, `mergeRaw`, `rule`, `buildResults`, `parseResultRow`) is in
`PgFdr/Model/C15.lean` and is what the driver op `merge` runs against
`update_evidence_from_pout.main` (harness/props/C15.py).  Helper lemmas: `PgFdr/Proofs/C15.lean`.
-/
namespace PgFdr.C15

/-- "The rescoring merge writes the header of the first evidence file followed by the rows of all
    evidence files in order, where every … row [is treated by the row rule]": a successful merge
    built the results dictionary from all result rows, every evidence file had a resolvable header
    and parseable rows, and the output is the first file's header followed, file by file and row by
    row in input order, by the rows the rule keeps. -/
theorem merge_spec (resultFiles : List (List ResultRow)) (files : List (List Row)) (out : List Row)
    (h : merge resultFiles files = .ok out) :
    ∃ res, buildResults resultFiles = .ok res ∧ (∀ f ∈ files, FileOk f) ∧
      out = (files.head?.map (fun f => f.headD [])).toList ++
            files.flatMap (fun f => f.tail.filterMap (rowRule res (f.headD []))) := by
  unfold merge at h
  cases hb : buildResults resultFiles with
  | error e => simp [bind, Except.bind, hb] at h
  | ok res =>
    simp only [bind, Except.bind, hb] at h
    obtain ⟨hall, hout⟩ := mergeAux_ok res files [] out h
    exact ⟨res, rfl, hall, by simpa using hout⟩

/-- "… has exactly its score and PEP replaced by the rescored values … No other field is altered":
    a row that survives the rule has the same number of fields as the input row and differs from
    it at most in the score and PEP columns. -/
theorem only_two_fields_change (res : Results) (scoreCol pepCol : Nat) (row out : Row) (p : Psm)
    (h : rule res scoreCol pepCol row p = some out) :
    out.length = row.length ∧ ∀ c, c ≠ scoreCol → c ≠ pepCol → out[c]? = row[c]? := by
  unfold rule at h
  split at h
  · simp at h; subst h; exact ⟨rfl, fun _ _ _ => rfl⟩
  · split at h
    · simp at h; subst h; exact ⟨rfl, fun _ _ _ => rfl⟩
    · split at h
      · simp at h
      · split at h
        · simp at h
        · split at h
          · simp at h
          · rename_i s e _
            simp at h; subst h
            refine ⟨by simp, ?_⟩
            intro c h1 h2
            rw [List.getElem?_set_ne (Ne.symm h2), List.getElem?_set_ne (Ne.symm h1)]

/-- the same, for a data row under the header of its file: only the columns named `score` and
    `pep` (first occurrence, case-insensitive) can differ -/
theorem only_score_and_pep_columns_change (res : Results) (hdr row out : Row) (c : Cols)
    (hc : cols (hdr.map lower) = .ok c) (h : rowRule res hdr row = some out) :
    out.length = row.length ∧ ∀ i, i ≠ c.score → i ≠ c.pep → out[i]? = row[i]? := by
  unfold rowRule at h
  rw [hc] at h
  simp only at h
  cases hp : psmOf c row with
  | error e => rw [hp] at h; simp at h
  | ok p => rw [hp] at h; exact only_two_fields_change res c.score c.pep row out p h

/-- "match-between-runs rows pass through unchanged" -/
theorem mbr_unchanged (res : Results) (scoreCol pepCol : Nat) (row : Row) (p : Psm) (h : p.scan = none) :
    rule res scoreCol pepCol row p = some row := by
  unfold rule; split <;> simp [h]

/-- "without rescoring files the evidence files are simply concatenated" (also when the result
    files hold no data row): header of the first file, then all data rows of all files in order -/
theorem no_results_is_concat (resultFiles : List (List ResultRow)) (files : List (List Row)) (out : List Row)
    (hno : resultFiles.flatten = []) (h : merge resultFiles files = .ok out) :
    out = (files.head?.map (fun f => f.headD [])).toList ++ files.flatMap (fun f => f.tail) := by
  obtain ⟨res, hres, hall, hout⟩ := merge_spec resultFiles files out h
  have hres0 : res = [] := by
    unfold buildResults at hres
    rw [hno] at hres
    simp [bind, Except.bind, pure, Except.pure] at hres
    exact hres
  subst hres0
  rw [hout]
  congr 1
  apply flatMap_congr'
  intro f hf
  obtain ⟨hdr, rows, c, hfe, hc, hrows⟩ := hall f hf
  subst hfe
  simp only [List.tail_cons, List.headD_cons]
  have : ∀ r ∈ rows, rowRule [] hdr r = some r := by
    intro r hr
    obtain ⟨p, hp⟩ := hrows r hr
    unfold rowRule
    rw [hc]
    simp only [hp]
    simp [rule]
  clear hrows hall hf
  induction rows with
  | nil => rfl
  | cons r rs ih =>
    rw [List.filterMap_cons, this r (by simp)]
    simp only
    rw [ih (fun r hr => this r (by simp [hr]))]

/-- "every MS/MS row whose raw file, scan number and modified sequence occur in the rescoring
    results …": the lookup key is exactly (raw file, scan number as an integer, modified sequence).
    With a non-empty list of parsed result rows, an MS/MS row is rewritten with the values of the
    LAST result row (in file and row order) that carries its raw file, scan number and modified
    sequence, and dropped when there is none — whatever else the rows contain. -/
theorem key_is_scan_and_sequence (resultFiles : List (List ResultRow)) (parsed : List ParsedResult)
    (hparse : resultFiles.flatten.mapM parseResultRow = .ok parsed) :
    buildResults resultFiles = .ok (parsed.foldl insertParsed []) ∧
    ∀ (scoreCol pepCol : Nat) (row : Row) (p : Psm) (scan : Int), parsed ≠ [] → p.scan = some scan →
      rule (parsed.foldl insertParsed []) scoreCol pepCol row p =
        (parsed.reverse.find? (fun q => decide (q.raw = p.raw ∧ (q.scan, q.modSeq) = (scan, p.modSeq)))).map
          (fun q => (row.set scoreCol q.val.1).set pepCol q.val.2) := by
  constructor
  · unfold buildResults
    rw [hparse]
    rfl
  · intro sc pc row p scan hne hscan
    have hinner : ∀ raw inner, lookupKV raw (parsed.foldl insertParsed []) = some inner → inner ≠ [] := by
      intro raw inner hl
      exact foldl_inner_ne_nil parsed [] (by simp) (raw, inner) (lookupKV_mem _ _ _ hl)
    rw [rule_eq_lookupRes _ _ _ _ _ hinner]
    have hne' : (parsed.foldl insertParsed []).isEmpty = false := by
      have := foldl_insertParsed_ne_nil parsed [] (Or.inl hne)
      cases hx : parsed.foldl insertParsed [] with
      | nil => exact absurd hx this
      | cons a b => rfl
    rw [hne']
    simp only [hscan, Bool.false_eq_true, if_false]
    rw [lookupRes_foldl]
    cases parsed.reverse.find? (fun q => decide (q.raw = p.raw ∧ (q.scan, q.modSeq) = (scan, p.modSeq))) with
    | none => simp [lookupRes, lookupKV]
    | some q => simp

/-- "MS/MS rows without a match (or from raw files absent from the results) are dropped": with a
    non-empty results dictionary, an MS/MS row is dropped when no result row carries its raw file
    (in particular), or none carries its (raw file, scan number, modified sequence). -/
theorem unmatched_dropped (resultFiles : List (List ResultRow)) (parsed : List ParsedResult)
    (hparse : resultFiles.flatten.mapM parseResultRow = .ok parsed) (hne : parsed ≠ [])
    (scoreCol pepCol : Nat) (row : Row) (p : Psm) (scan : Int) (hscan : p.scan = some scan)
    (hno : ∀ q ∈ parsed, ¬ (q.raw = p.raw ∧ q.scan = scan ∧ q.modSeq = p.modSeq)) :
    rule (parsed.foldl insertParsed []) scoreCol pepCol row p = none := by
  rw [(key_is_scan_and_sequence resultFiles parsed hparse).2 scoreCol pepCol row p scan hne hscan]
  have : parsed.reverse.find? (fun q => decide (q.raw = p.raw ∧ (q.scan, q.modSeq) = (scan, p.modSeq))) = none := by
    rw [List.find?_eq_none]
    intro q hq
    have hq' : q ∈ parsed := List.mem_reverse.mp hq
    have := hno q hq'
    simp only [Prod.mk.injEq, decide_eq_true_eq]
    exact this
  rw [this]; rfl

/-- the driver's entry point `mergeRaw` resolves the result-file headers (native Percolator or
    mokapot layout) and then is `merge` -/
theorem mergeRaw_spec (rawResults : List (List Row)) (files : List (List Row)) (out : List Row)
    (h : mergeRaw rawResults files = .ok out) :
    ∃ rfs, rawResults.mapM resultRowsOf = .ok rfs ∧ merge rfs files = .ok out := by
  unfold mergeRaw at h
  cases hr : rawResults.mapM resultRowsOf with
  | error e => simp [bind, Except.bind, hr] at h
  | ok rfs =>
    simp only [bind, Except.bind, hr] at h
    exact ⟨rfs, rfl, h⟩

/-- "raw-file names containing underscores": a PSM id `<raw>_<scan>_<a>_<b>` whose last two parts
    contain no underscore is read as raw file `<raw>` — whatever underscores `<raw>` contains —
    and the scan number `<scan>`. -/
theorem psmid_raw_file_may_contain_underscores (raw ds a b : List Char) (n : Int) (pept score pep : String)
    (ha : '_' ∉ a) (hb : '_' ∉ b) (hds : '_' ∉ ds) (hn : parseInt? ds = some n) :
    parseResultRow { psmId := String.ofList (raw ++ '_' :: ds ++ '_' :: a ++ '_' :: b),
                     peptide := pept, score := score, pep := pep } =
      .ok { raw := String.ofList raw, scan := n, modSeq := resultModSeq pept, val := (score, pep) } := by
  have hsplit : splitOn '_' (raw ++ '_' :: ds ++ '_' :: a ++ '_' :: b) = splitOn '_' raw ++ [ds, a, b] := by
    have e : raw ++ '_' :: ds ++ '_' :: a ++ '_' :: b = raw ++ '_' :: (ds ++ '_' :: (a ++ '_' :: b)) := by simp
    rw [e, splitOn_append_sep, splitOn_append_sep, splitOn_append_sep,
      splitOn_no_sep _ _ hds, splitOn_no_sep _ _ ha, splitOn_no_sep _ _ hb]
    simp
  unfold parseResultRow
  simp only [String.toList_ofList, hsplit]
  have hlen : ¬ (splitOn '_' raw ++ [ds, a, b]).length < 3 := by simp
  rw [if_neg hlen]
  have hget : (splitOn '_' raw ++ [ds, a, b]).getD ((splitOn '_' raw ++ [ds, a, b]).length - 3) [] = ds := by
    simp [List.getD]
  rw [hget, hn]
  have hdrop : dropLast3 (splitOn '_' raw ++ [ds, a, b]) = splitOn '_' raw := by
    simp [dropLast3]
  simp only [hdrop, join_splitOn]

/-! ### Non-vacuity: a concrete merge with one rewritten, one MBR, one unmatched and one
    raw-file-absent row; the raw file name contains underscores, the scan numbers are spelled
    differently on the two sides, and a later result row overwrites an earlier one. -/

private def exHdr : Row := ["Modified sequence", "Raw file", "MS/MS scan number", "Score", "PEP", "Type", "Reverse", "Potential contaminant"]
private def exEvidence : List (List Row) :=
  [[exHdr,
    ["_AAM(ox)K_", "raw_2_b", "007", "10.5", "0.2", "MSMS", "", ""],
    ["_AAAK_", "raw_2_b", "", "NaN", "NaN", "MULTI-MATCH", "", ""],
    ["_CCCK_", "raw_2_b", "7", "50.0", "0.01", "MSMS", "", ""],
    ["_AAAK_", "other", "1", "50.0", "0.01", "MSMS", "", ""]]]
private def exResults : List (List ResultRow) :=
  [[⟨"raw_2_b_7_2_1", "-.AAM[16]K.-", "1.0", "0.5"⟩], [⟨"raw_2_b_07_3_1", "-.AAM[16]K.-", "2.5", "0.001"⟩]]

example : merge exResults exEvidence = .ok
    [exHdr,
     ["_AAM(ox)K_", "raw_2_b", "007", "2.5", "0.001", "MSMS", "", ""],
     ["_AAAK_", "raw_2_b", "", "NaN", "NaN", "MULTI-MATCH", "", ""]] := by decide +kernel

example : merge [] exEvidence = .ok (exHdr :: exEvidence.flatMap List.tail) := by decide +kernel

example : parseInt? "007".toList = some 7 := by decide +kernel

end PgFdr.C15
