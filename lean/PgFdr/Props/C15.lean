import PgFdr.Proofs.C15
import PgFdr.Proofs.C13

/-!
# C15 — merging rescoring results rewrites exactly the matched PSMs of evidence files

Property text (properties.jsonl): "The rescoring merge writes the header of the first evidence file
followed by the rows of all evidence files in order, where every MS/MS row whose raw file, scan
number and modified sequence occur in the rescoring results has exactly its score and PEP replaced
by the rescored values, match-between-runs rows pass through unchanged, and MS/MS rows without a
match (or from raw files absent from the results) are dropped. No other field is altered, and
without rescoring files the evidence files are simply concatenated."

The executable model (`merge`, `mergeRaw`, `rule`, `buildResults`, `parseResultRow`) is in
`PgFdr/Model/C15.lean` and is what the driver op `merge` runs against
`update_evidence_from_pout.main` (harness/props/C15.py).  Helper lemmas: `PgFdr/Proofs/C15.lean`.
-/
namespace PgFdr.C15

/-- "The rescoring merge writes the header of the first evidence file followed by the rows of all
    evidence files in order, where every … row [is treated by the row rule]": a successful merge
    built the results dictionary from all result rows, every evidence file had a resolvable header
    and parseable rows, and the output is the first file's header followed, file by file and row by
    row in input order, by the rows the rule keeps. -/
theorem merge_spec (resultFiles : List (List ResultRow)) (files : List (List Row)) (out : List Row)
    (h : merge resultFiles files = .ok out) :
    ∃ res, buildResults resultFiles = .ok res ∧ (∀ f ∈ files, FileOk f) ∧
      out = (files.head?.map (fun f => f.headD [])).toList ++
            files.flatMap (fun f => f.tail.filterMap (rowRule res (f.headD []))) := by
  unfold merge at h
  cases hb : buildResults resultFiles with
  | error e => simp [bind, Except.bind, hb] at h
  | ok res =>
    simp only [bind, Except.bind, hb] at h
    obtain ⟨hall, hout⟩ := mergeAux_ok res files [] out h
    exact ⟨res, rfl, hall, by simpa using hout⟩

/-- "… has exactly its score and PEP replaced by the rescored values … No other field is altered":
    a row that survives the rule has the same number of fields as the input row and differs from
    it at most in the score and PEP columns. -/
theorem only_two_fields_change (res : Results) (scoreCol pepCol : Nat) (row out : Row) (p : Psm)
    (h : rule res scoreCol pepCol row p = some out) :
    out.length = row.length ∧ ∀ c, c ≠ scoreCol → c ≠ pepCol → out[c]? = row[c]? := by
  unfold rule at h
  split at h
  · simp at h; subst h; exact ⟨rfl, fun _ _ _ => rfl⟩
  · split at h
    · simp at h; subst h; exact ⟨rfl, fun _ _ _ => rfl⟩
    · split at h
      · simp at h
      · split at h
        · simp at h
        · split at h
          · simp at h
          · rename_i s e _
            simp at h; subst h
            refine ⟨by simp, ?_⟩
            intro c h1 h2
            rw [List.getElem?_set_ne (Ne.symm h2), List.getElem?_set_ne (Ne.symm h1)]

/-- the same, for a data row under the header of its file: only the columns named `score` and
    `pep` (first occurrence, case-insensitive) can differ -/
theorem only_score_and_pep_columns_change (res : Results) (hdr row out : Row) (c : Cols)
    (hc : cols (hdr.map lower) = .ok c) (h : rowRule res hdr row = some out) :
    out.length = row.length ∧ ∀ i, i ≠ c.score → i ≠ c.pep → out[i]? = row[i]? := by
  unfold rowRule at h
  rw [hc] at h
  simp only at h
  cases hp : psmOf c row with
  | error e => rw [hp] at h; simp at h
  | ok p => rw [hp] at h; exact only_two_fields_change res c.score c.pep row out p h

/-- "match-between-runs rows pass through unchanged" -/
theorem mbr_unchanged (res : Results) (scoreCol pepCol : Nat) (row : Row) (p : Psm) (h : p.scan = none) :
    rule res scoreCol pepCol row p = some row := by
  unfold rule; split <;> simp [h]

/-- "without rescoring files the evidence files are simply concatenated" (also when the result
    files hold no data row): header of the first file, then all data rows of all files in order -/
theorem no_results_is_concat (resultFiles : List (List ResultRow)) (files : List (List Row)) (out : List Row)
    (hno : resultFiles.flatten = []) (h : merge resultFiles files = .ok out) :
    out = (files.head?.map (fun f => f.headD [])).toList ++ files.flatMap (fun f => f.tail) := by
  obtain ⟨res, hres, hall, hout⟩ := merge_spec resultFiles files out h
  have hres0 : res = [] := by
    unfold buildResults at hres
    rw [hno] at hres
    simp [bind, Except.bind, pure, Except.pure] at hres
    exact hres
  subst hres0
  rw [hout]
  congr 1
  apply flatMap_congr'
  intro f hf
  obtain ⟨hdr, rows, c, hfe, hc, hrows⟩ := hall f hf
  subst hfe
  simp only [List.tail_cons, List.headD_cons]
  have : ∀ r ∈ rows, rowRule [] hdr r = some r := by
    intro r hr
    obtain ⟨p, hp⟩ := hrows r hr
    unfold rowRule
    rw [hc]
    simp only [hp]
    simp [rule]
  clear hrows hall hf
  induction rows with
  | nil => rfl
  | cons r rs ih =>
    rw [List.filterMap_cons, this r (by simp)]
    simp only
    rw [ih (fun r hr => this r (by simp [hr]))]

/-- "every MS/MS row whose raw file, scan number and modified sequence occur in the rescoring
    results …": the lookup key is exactly (raw file, scan number as an integer, modified sequence).
    With a non-empty list of parsed result rows, an MS/MS row is rewritten with the values of the
    LAST result row (in file and row order) that carries its raw file, scan number and modified
    sequence, and dropped when there is none — whatever else the rows contain. -/
theorem key_is_scan_and_sequence (resultFiles : List (List ResultRow)) (parsed : List ParsedResult)
    (hparse : resultFiles.flatten.mapM parseResultRow = .ok parsed) :
    buildResults resultFiles = .ok (parsed.foldl insertParsed []) ∧
    ∀ (scoreCol pepCol : Nat) (row : Row) (p : Psm) (scan : Int), parsed ≠ [] → p.scan = some scan →
      rule (parsed.foldl insertParsed []) scoreCol pepCol row p =
        (parsed.reverse.find? (fun q => decide (q.raw = p.raw ∧ (q.scan, q.modSeq) = (scan, p.modSeq)))).map
          (fun q => (row.set scoreCol q.val.1).set pepCol q.val.2) := by
  constructor
  · unfold buildResults
    rw [hparse]
    rfl
  · intro sc pc row p scan hne hscan
    have hinner : ∀ raw inner, lookupKV raw (parsed.foldl insertParsed []) = some inner → inner ≠ [] := by
      intro raw inner hl
      exact foldl_inner_ne_nil parsed [] (by simp) (raw, inner) (lookupKV_mem _ _ _ hl)
    rw [rule_eq_lookupRes _ _ _ _ _ hinner]
    have hne' : (parsed.foldl insertParsed []).isEmpty = false := by
      have := foldl_insertParsed_ne_nil parsed [] (Or.inl hne)
      cases hx : parsed.foldl insertParsed [] with
      | nil => exact absurd hx this
      | cons a b => rfl
    rw [hne']
    simp only [hscan, Bool.false_eq_true, if_false]
    rw [lookupRes_foldl]
    cases parsed.reverse.find? (fun q => decide (q.raw = p.raw ∧ (q.scan, q.modSeq) = (scan, p.modSeq))) with
    | none => simp [lookupRes, lookupKV]
    | some q => simp

/-- "MS/MS rows without a match (or from raw files absent from the results) are dropped": with a
    non-empty results dictionary, an MS/MS row is dropped when no result row carries its raw file
    (in particular), or none carries its (raw file, scan number, modified sequence). -/
theorem unmatched_dropped (resultFiles : List (List ResultRow)) (parsed : List ParsedResult)
    (hparse : resultFiles.flatten.mapM parseResultRow = .ok parsed) (hne : parsed ≠ [])
    (scoreCol pepCol : Nat) (row : Row) (p : Psm) (scan : Int) (hscan : p.scan = some scan)
    (hno : ∀ q ∈ parsed, ¬ (q.raw = p.raw ∧ q.scan = scan ∧ q.modSeq = p.modSeq)) :
    rule (parsed.foldl insertParsed []) scoreCol pepCol row p = none := by
  rw [(key_is_scan_and_sequence resultFiles parsed hparse).2 scoreCol pepCol row p scan hne hscan]
  have : parsed.reverse.find? (fun q => decide (q.raw = p.raw ∧ (q.scan, q.modSeq) = (scan, p.modSeq))) = none := by
    rw [List.find?_eq_none]
    intro q hq
    have hq' : q ∈ parsed := List.mem_reverse.mp hq
    have := hno q hq'
    simp only [Prod.mk.injEq, decide_eq_true_eq]
    exact this
  rw [this]; rfl

/-- the driver's entry point `mergeRaw` resolves the result-file headers (native Percolator or
    mokapot layout) and then is `merge` -/
theorem mergeRaw_spec (rawResults : List (List Row)) (files : List (List Row)) (out : List Row)
    (h : mergeRaw rawResults files = .ok out) :
    ∃ rfs, rawResults.mapM resultRowsOf = .ok rfs ∧ merge rfs files = .ok out := by
  unfold mergeRaw at h
  cases hr : rawResults.mapM resultRowsOf with
  | error e => simp [bind, Except.bind, hr] at h
  | ok rfs =>
    simp only [bind, Except.bind, hr] at h
    exact ⟨rfs, rfl, h⟩

/-- "raw-file names containing underscores": a PSM id `<raw>_<scan>_<a>_<b>` whose last two parts
    contain no underscore is read as raw file `<raw>` — whatever underscores `<raw>` contains —
    and the scan number `<scan>`. -/
theorem psmid_raw_file_may_contain_underscores (raw ds a b : List Char) (n : Int) (pept score pep : String)
    (ha : '_' ∉ a) (hb : '_' ∉ b) (hds : '_' ∉ ds) (hn : parseInt? ds = some n) :
    parseResultRow { psmId := String.ofList (raw ++ '_' :: ds ++ '_' :: a ++ '_' :: b),
                     peptide := pept, score := score, pep := pep } =
      .ok { raw := String.ofList raw, scan := n, modSeq := resultModSeq pept, val := (score, pep) } := by
  have hsplit : splitOn '_' (raw ++ '_' :: ds ++ '_' :: a ++ '_' :: b) = splitOn '_' raw ++ [ds, a, b] := by
    have e : raw ++ '_' :: ds ++ '_' :: a ++ '_' :: b = raw ++ '_' :: (ds ++ '_' :: (a ++ '_' :: b)) := by simp
    rw [e, splitOn_append_sep, splitOn_append_sep, splitOn_append_sep,
      splitOn_no_sep _ _ hds, splitOn_no_sep _ _ ha, splitOn_no_sep _ _ hb]
    simp
  unfold parseResultRow
  simp only [String.toList_ofList, hsplit]
  have hlen : ¬ (splitOn '_' raw ++ [ds, a, b]).length < 3 := by simp
  rw [if_neg hlen]
  have hget : (splitOn '_' raw ++ [ds, a, b]).getD ((splitOn '_' raw ++ [ds, a, b]).length - 3) [] = ds := by
    simp [List.getD]
  rw [hget, hn]
  have hdrop : dropLast3 (splitOn '_' raw ++ [ds, a, b]) = splitOn '_' raw := by
    simp [dropLast3]
  simp only [hdrop, join_splitOn]

/-! ## Round 5a — the classification of evidence rows (seeded C15-h) -/

/-- "match-between-runs rows" / "MS/MS row[s]", as the code tells them apart
    (`parse_evidence_file_for_percolator_matching`): a row is a match-between-runs row iff its
    scan-number cell is empty (or reads −1, the code's own encoding of "no scan"). -/
theorem isMbrRow_iff (c : Cols) (row : Row) :
    isMbrRow c row = true ↔ ∃ f, row[c.scan]? = some f ∧ (f = "" ∨ parseInt? f.toList = some (-1)) := by
  unfold isMbrRow
  cases h : row[c.scan]? with
  | none => simp
  | some f =>
    simp only [Bool.or_eq_true, beq_iff_eq, Option.some.injEq, exists_eq_left']
    constructor
    · rintro (h | h)
      · left; exact String.isEmpty_iff.mp h
      · right; exact h
    · rintro (h | h)
      · left; exact String.isEmpty_iff.mpr h
      · right; exact h

/-- "every MS/MS row whose raw file, scan number and modified sequence …": what a parsed row hands to the
    lookup is read off exactly these cells — the raw-file cell as it is, the modified-sequence cell
    without its first and last character, and the scan-number cell as an integer; `scan = none`
    exactly for the match-between-runs rows. -/
theorem psm_key_is_the_rows_cells (c : Cols) (row : Row) (p : Psm) (h : psmOf c row = .ok p) :
    row[c.raw]? = some p.raw ∧
    (∃ m, row[c.modSeq]? = some m ∧ p.modSeq = slice 1 1 m) ∧
    (p.scan = none ↔ isMbrRow c row = true) ∧
    (∀ n, p.scan = some n → ∃ f, row[c.scan]? = some f ∧ parseInt? f.toList = some n) := by
  obtain ⟨scanF, pepF, h1, h2, h3, h4, h5, _⟩ := psmOf_ok c row p h
  refine ⟨h3, ⟨pepF, h4, h5⟩, psmOf_scan_none_iff c row p h, ?_⟩
  intro n hn
  rw [hn] at h2
  exact ⟨scanF, h1, (scanOfCell_some _ _ h2).2.1⟩

/-- the `Type` cell (MSMS, MULTI-MSMS, MULTI-SECPEP, MULTI-MATCH, MULTI-MATCH-MSMS, ISO-MSMS, empty,
    anything) plays no part: replacing it changes neither whether the row parses, nor its
    classification, nor its lookup key … -/
theorem classification_ignores_type (hdr row : Row) (c : Cols) (hc : cols (hdr.map lower) = .ok c) (t : String) :
    psmOf c (row.set c.idType t) = psmOf c row ∧ isMbrRow c (row.set c.idType t) = isMbrRow c row := by
  refine ⟨psmOf_set_type _ c hc row t, ?_⟩
  unfold isMbrRow
  rw [List.getElem?_set_ne (cols_type_distinct _ c hc).2.2.2.1]

/-- … and the row is kept, rewritten or dropped exactly as with any other `Type` cell, the output row
    carrying the `Type` cell it came with. -/
theorem row_rule_ignores_type (res : Results) (hdr row : Row) (c : Cols) (hc : cols (hdr.map lower) = .ok c)
    (t : String) :
    rowRule res hdr (row.set c.idType t) = (rowRule res hdr row).map (fun r => r.set c.idType t) := by
  unfold rowRule
  rw [hc]
  simp only
  rw [psmOf_set_type _ c hc row t]
  cases hp : psmOf c row with
  | error e => rfl
  | ok p =>
    obtain ⟨d1, d2, _⟩ := cols_type_distinct _ c hc
    exact rule_set_other res c.score c.pep c.idType t row p d1 d2

/-- "match-between-runs rows pass through unchanged, and MS/MS rows [are rewritten when matched, else]
    dropped": with at least one result row, for every row of a file whose header resolves —
    (1) a match-between-runs row (by the rule above) is written unchanged;
    (2) a row that is NOT a match-between-runs row is either dropped or written with the score and
        PEP cells set to the values of a result row with its (raw file, scan number, modified
        sequence) — it never passes through on its own values;
    (3) so a row is written unchanged iff it is a match-between-runs row, or the last result row with
        its key carries, literally, the score and PEP cells the row already has. -/
theorem passes_unchanged_iff_mbr (resultFiles : List (List ResultRow)) (parsed : List ParsedResult)
    (hparse : resultFiles.flatten.mapM parseResultRow = .ok parsed) (hne : parsed ≠ [])
    (hdr row : Row) (c : Cols) (hc : cols (hdr.map lower) = .ok c) (p : Psm) (hp : psmOf c row = .ok p) :
    (isMbrRow c row = true → rowRule (parsed.foldl insertParsed []) hdr row = some row) ∧
    (isMbrRow c row = false →
      rowRule (parsed.foldl insertParsed []) hdr row = none ∨
      ∃ q ∈ parsed, q.raw = p.raw ∧ some q.scan = p.scan ∧ q.modSeq = p.modSeq ∧
        rowRule (parsed.foldl insertParsed []) hdr row = some ((row.set c.score q.val.1).set c.pep q.val.2)) ∧
    (rowRule (parsed.foldl insertParsed []) hdr row = some row ↔
      isMbrRow c row = true ∨
      ∃ q scan, p.scan = some scan ∧
        parsed.reverse.find? (fun q => decide (q.raw = p.raw ∧ (q.scan, q.modSeq) = (scan, p.modSeq))) = some q ∧
        (row.set c.score q.val.1).set c.pep q.val.2 = row) := by
  have hrr : rowRule (parsed.foldl insertParsed []) hdr row = rule (parsed.foldl insertParsed []) c.score c.pep row p := by
    unfold rowRule; rw [hc]; simp only [hp]
  have hiff := psmOf_scan_none_iff c row p hp
  have hkey := (key_is_scan_and_sequence resultFiles parsed hparse).2
  rw [hrr]
  cases hs : p.scan with
  | none =>
    have hm : isMbrRow c row = true := hiff.mp hs
    have hu := mbr_unchanged (parsed.foldl insertParsed []) c.score c.pep row p hs
    refine ⟨fun _ => hu, ?_, ?_⟩
    · intro hf; rw [hm] at hf; cases hf
    · exact ⟨fun _ => Or.inl hm, fun _ => hu⟩
  | some scan =>
    have hm : isMbrRow c row = false := by
      cases hb : isMbrRow c row with
      | false => rfl
      | true => rw [hiff.mpr hb] at hs; cases hs
    have hk := hkey c.score c.pep row p scan hne hs
    rw [hk]
    refine ⟨?_, fun _ => ?_, ?_, ?_⟩
    · intro ht; rw [hm] at ht; cases ht
    · cases hf : parsed.reverse.find? (fun q => decide (q.raw = p.raw ∧ (q.scan, q.modSeq) = (scan, p.modSeq))) with
      | none => left; rfl
      | some q =>
        right
        have hmem : q ∈ parsed := List.mem_reverse.mp (List.mem_of_find?_eq_some hf)
        have hq := List.find?_some hf
        simp only [Prod.mk.injEq, decide_eq_true_eq] at hq
        exact ⟨q, hmem, hq.1, by rw [hq.2.1], hq.2.2, rfl⟩
    · intro h
      right
      cases hf : parsed.reverse.find? (fun q => decide (q.raw = p.raw ∧ (q.scan, q.modSeq) = (scan, p.modSeq))) with
      | none => rw [hf] at h; cases h
      | some q =>
        rw [hf] at h
        exact ⟨q, scan, rfl, hf, by simpa using h⟩
    · rintro (h | ⟨q, scan', hs', hf, heq⟩)
      · rw [hm] at h; cases h
      · cases hs'
        rw [hf]; simp [heq]

/-! ## Round 5b — the csv layer of the evidence files is inside the model (seeded C15-g)

"No other field is altered" speaks about FIELDS — the cell values a reader of the tab-separated
dialect sees — not about bytes: `get_tsv_writer` re-quotes with `QUOTE_MINIMAL` and ends every
record with "\r\n", so `5"-nucleotidase` (as MaxQuant writes it) comes out as `"5""-nucleotidase"`
and a file with "\n" line ends comes out with "\r\n"; the cell values are the same. -/

/-- the reader/writer pair of `parsers/tsv.py` (C13's `csv_roundtrip`, reused): reading what the
    writer wrote gives back every cell value — quotes, tabs, line breaks, commas, blanks, empty
    cells, any character — for ALL records. -/
theorem tsv_write_then_read (rows : List Row) : readTsv (writeTsv rows) = rows :=
  C13.parseText_formatRows rows

/-- "The rescoring merge writes the header of the first evidence file followed by the rows of all
    evidence files in order … No other field is altered", from file text to file text: the cell
    values a reader of the dialect finds in the output file are exactly the first file's header cells
    followed by, file by file and row by row, what the row rule makes of the cell values read from
    the input files (and by `only_score_and_pep_columns_change` the rule touches no cell outside the
    score and PEP columns). -/
theorem mergeText_cells (rawResults : List (List Row)) (texts : List (List Char)) (outText : List Char)
    (h : mergeTextRaw rawResults texts = .ok outText) :
    ∃ rfs res, rawResults.mapM resultRowsOf = .ok rfs ∧ buildResults rfs = .ok res ∧
      (∀ t ∈ texts, FileOk (readTsv t)) ∧
      readTsv outText =
        (texts.head?.map (fun t => (readTsv t).headD [])).toList ++
        texts.flatMap (fun t => (readTsv t).tail.filterMap (rowRule res ((readTsv t).headD []))) := by
  unfold mergeTextRaw at h
  obtain ⟨out, hm, h⟩ := bind_ok _ _ _ h
  simp only [pure, Except.pure, Except.ok.injEq] at h
  subst h
  obtain ⟨rfs, hr, hmerge⟩ := mergeRaw_spec rawResults _ out hm
  obtain ⟨res, hres, hall, hout⟩ := merge_spec rfs _ out hmerge
  refine ⟨rfs, res, hr, hres, ?_, ?_⟩
  · intro t ht
    exact hall _ (List.mem_map.mpr ⟨t, ht, rfl⟩)
  · rw [tsv_write_then_read, hout, List.flatMap_map]
    cases texts <;> rfl

/-- "without rescoring files the evidence files are simply concatenated", at the level of the files:
    the output reads as the header cells of the first file followed by the data rows of all files,
    every cell value as it was read. -/
theorem mergeText_without_results_is_concat (texts : List (List Char)) (outText : List Char)
    (h : mergeTextRaw [] texts = .ok outText) :
    readTsv outText =
      (texts.head?.map (fun t => (readTsv t).headD [])).toList ++ texts.flatMap (fun t => (readTsv t).tail) := by
  unfold mergeTextRaw at h
  obtain ⟨out, hm, h⟩ := bind_ok _ _ _ h
  simp only [pure, Except.pure, Except.ok.injEq] at h
  subst h
  have hmerge : merge [] (texts.map readTsv) = .ok out := by
    simpa [mergeRaw, bind, Except.bind, pure, Except.pure] using hm
  rw [tsv_write_then_read, no_results_is_concat [] _ out rfl hmerge, List.flatMap_map]
  cases texts <;> rfl

/-- which byte-level differences there can be: none for a file the package's own writer produced —
    concatenating such a file alone reproduces it byte for byte (so all differences between an input
    file and its part of the output come from quoting and line ends the writer would not have chosen). -/
theorem own_output_reproduced (rows : List Row) (outText : List Char)
    (h : mergeTextRaw [] [writeTsv rows] = .ok outText) : outText = writeTsv rows := by
  have hc := mergeText_without_results_is_concat _ _ h
  unfold mergeTextRaw at h
  obtain ⟨out, hm, h⟩ := bind_ok _ _ _ h
  simp only [pure, Except.pure, Except.ok.injEq] at h
  subst h
  rw [tsv_write_then_read] at hc
  simp only [List.head?_cons, Option.map_some, Option.toList_some, List.flatMap_cons, List.flatMap_nil,
    List.append_nil, tsv_write_then_read] at hc
  have hne : rows ≠ [] := by
    intro hnil
    subst hnil
    simp [mergeRaw, merge, buildResults, mergeAux, updateSingle, writeTsv, readTsv, C13.formatRows, C13.parseText,
      C13.finish, C13.PS.init, bind, Except.bind, pure, Except.pure] at hm
  cases rows with
  | nil => exact absurd rfl hne
  | cons r rs =>
    simp only [List.headD_cons, List.tail_cons, List.cons_append, List.nil_append] at hc
    rw [hc]

/-! ### Non-vacuity: a concrete merge with one rewritten, one MBR, one unmatched and one
    raw-file-absent row; the raw file name contains underscores, the scan numbers are spelled
    differently on the two sides, and a later result row overwrites an earlier one. -/

private def exHdr : Row := ["Modified sequence", "Raw file", "MS/MS scan number", "Score", "PEP", "Type", "Reverse", "Potential contaminant"]
private def exEvidence : List (List Row) :=
  [[exHdr,
    ["_AAM(ox)K_", "raw_2_b", "007", "10.5", "0.2", "MSMS", "", ""],
    ["_AAAK_", "raw_2_b", "", "NaN", "NaN", "MULTI-MATCH", "", ""],
    ["_CCCK_", "raw_2_b", "7", "50.0", "0.01", "MSMS", "", ""],
    ["_AAAK_", "other", "1", "50.0", "0.01", "MSMS", "", ""]]]
private def exResults : List (List ResultRow) :=
  [[⟨"raw_2_b_7_2_1", "-.AAM[16]K.-", "1.0", "0.5"⟩], [⟨"raw_2_b_07_3_1", "-.AAM[16]K.-", "2.5", "0.001"⟩]]

example : merge exResults exEvidence = .ok
    [exHdr,
     ["_AAM(ox)K_", "raw_2_b", "007", "2.5", "0.001", "MSMS", "", ""],
     ["_AAAK_", "raw_2_b", "", "NaN", "NaN", "MULTI-MATCH", "", ""]] := by decide +kernel

example : merge [] exEvidence = .ok (exHdr :: exEvidence.flatMap List.tail) := by decide +kernel

example : parseInt? "007".toList = some 7 := by decide +kernel

/-! ### Non-vacuity of rounds 5a / 5b: from file text to file text.  A matched row of `Type`
    MULTI-MATCH-MSMS (it has a scan number: rewritten) whose protein-name cell is `5"-nucleotidase`
    written the MaxQuant way (unquoted; re-quoted on output, same cell value); a row WITHOUT scan
    number of `Type` MSMS (match-between-runs by the rule: unchanged) whose cell starts with a quote;
    an unmatched row of `Type` MULTI-MATCH WITH a scan number (dropped); "\n" line ends in, "\r\n" out. -/

private def exHdrLine : String :=
  "Modified sequence\tRaw file\tMS/MS scan number\tScore\tPEP\tType\tReverse\tPotential contaminant\tProtein names"
private def exTextIn : List Char :=
  (exHdrLine ++ "\n_AAM(ox)K_\traw_2_b\t007\t10.5\t0.2\tMULTI-MATCH-MSMS\t\t\t5\"-nucleotidase\n"
    ++ "_AAAK_\traw_2_b\t\tNaN\tNaN\tMSMS\t\t\t\"\"\"quoted\"\" start, ; \"\n"
    ++ "_CCCK_\traw_2_b\t7\t50.0\t0.01\tMULTI-MATCH\t\t\t a b \n").toList
private def exRawResults : List (List Row) :=
  [[["PSMId", "score", "q-value", "posterior_error_prob", "peptide", "proteinIds"],
    ["raw_2_b_7_2_1", "2.5", "0.01", "0.001", "-.AAM[16]K.-", "P1"]]]

example : (mergeTextRaw exRawResults [exTextIn]).toOption.map String.ofList = some
    (exHdrLine ++ "\r\n_AAM(ox)K_\traw_2_b\t007\t2.5\t0.001\tMULTI-MATCH-MSMS\t\t\t\"5\"\"-nucleotidase\"\r\n"
      ++ "_AAAK_\traw_2_b\t\tNaN\tNaN\tMSMS\t\t\t\"\"\"quoted\"\" start, ; \"\r\n") := by decide +kernel

example : (readTsv exTextIn).map (fun r => r.getD 8 "") =
    ["Protein names", "5\"-nucleotidase", "\"quoted\" start, ; ", " a b "] := by decide +kernel

/-- the hypotheses of `passes_unchanged_iff_mbr` / `classification_ignores_type` are met by these rows:
    the header resolves (`Type` is column 5), the rows parse, the first is an MS/MS row with scan 7,
    the second a match-between-runs row -/
example : ((cols ((readTsv exTextIn).headD [] |>.map lower)).toOption.map fun c =>
      (c.idType, (readTsv exTextIn).tail.map fun r => ((psmOf c r).toOption.map (·.scan), isMbrRow c r))) =
    some (5, [(some (some 7), false), (some none, true), (some (some 7), false)]) := by decide +kernel

/-! ### Round 6 (seeded C15-i): the result-file side of the join under every column layout the readers accept -/

/-- "every MS/MS row whose raw file, scan number and modified sequence occur in the rescoring results" — for
    Andromeda-style identifiers the key a result row is filed under is a function of its identifier cell
    and its peptide cell ALONE (`andromedaKey`), the values are its score and PEP cells; the result
    file may carry any other columns (`filename`, `ExpMass`, `CalcMass`, `Label`, `ScanNr`, …) in any
    positions: two layouts whose rows agree on the four cells looked up BY NAME (and reach a `filename`
    column where the header has one — the code reads that cell before it ignores it) give the same
    parsed rows, hence the same dictionary and the same merged output, rows and text.  Adding,
    removing or changing any other column, `filename` included, changes neither the key nor the output. -/
theorem andromeda_key_ignores_other_columns
    (hdr hdr' : Row) (c c' : PercCols) (hc : percCols hdr = .ok c) (hc' : percCols hdr' = .ok c')
    (rows rows' : List Row) (hlen : rows.length = rows'.length)
    (hrows : ∀ p ∈ rows.zip rows', SameReadCells c c' p.1 p.2) :
    (∀ r : ResultRow, parseResultRow r = (andromedaKey r.psmId r.peptide).map (parsedOfKey · (r.score, r.pep))) ∧
    resultRowsOf (hdr :: rows) = resultRowsOf (hdr' :: rows') ∧
    (∀ before after files, mergeRaw (before ++ (hdr :: rows) :: after) files =
                           mergeRaw (before ++ (hdr' :: rows') :: after) files) ∧
    (∀ before after texts, mergeTextRaw (before ++ (hdr :: rows) :: after) texts =
                           mergeTextRaw (before ++ (hdr' :: rows') :: after) texts) := by
  have hfile : resultRowsOf (hdr :: rows) = resultRowsOf (hdr' :: rows') := by
    simp only [resultRowsOf, hc, hc', bind, Except.bind]
    exact mapM_zip_congr _ _ rows rows' hlen (fun p hp => rowCells_andromeda_congr c c' p.1 p.2 (hrows p hp))
  have hmerge : ∀ before after files, mergeRaw (before ++ (hdr :: rows) :: after) files =
      mergeRaw (before ++ (hdr' :: rows') :: after) files := by
    intro before after files
    unfold mergeRaw
    rw [mapM_replace resultRowsOf _ _ hfile]
  refine ⟨parseResultRow_eq_andromedaKey, hfile, hmerge, ?_⟩
  intro before after texts
  unfold mergeTextRaw
  rw [hmerge]

/-- the same for ANY identifier convention, naming what the prosit branch reads in addition: a result
    row enters the dictionary through five cells — identifier, peptide, score, PEP and the `filename`
    cell (`""` when the file has no such column) — and through nothing else; under `prosit` the key is
    `prositKey psmId peptide filename` (the filename cell IS the raw file when it is not empty), under
    every other `--pout_input_type` it is `andromedaKey psmId peptide`. -/
theorem result_dictionary_reads_five_cells
    (hdr hdr' : Row) (c c' : PercCols) (hc : percCols hdr = .ok c) (hc' : percCols hdr' = .ok c')
    (rows rows' : List Row) (hlen : rows.length = rows'.length)
    (hrows : ∀ p ∈ rows.zip rows', p.1[c.id]? = p.2[c'.id]? ∧ p.1[c.peptide]? = p.2[c'.peptide]? ∧
        p.1[c.score]? = p.2[c'.score]? ∧ p.1[c.pep]? = p.2[c'.pep]? ∧ filenameCell c p.1 = filenameCell c' p.2) :
    (∀ x : ResultCells, parseCells true x = (prositKey x.psmId x.peptide x.filename).map (parsedOfKey · (x.score, x.pep))) ∧
    (∀ x : ResultCells, parseCells false x = (andromedaKey x.psmId x.peptide).map (parsedOfKey · (x.score, x.pep))) ∧
    resultCellsOf (hdr :: rows) = resultCellsOf (hdr' :: rows') ∧
    (∀ prosit before after, buildResultsOf prosit (before ++ (hdr :: rows) :: after) =
                            buildResultsOf prosit (before ++ (hdr' :: rows') :: after)) := by
  have hrow : ∀ p ∈ rows.zip rows', rowCells c p.1 = rowCells c' p.2 := by
    intro p hp
    obtain ⟨hid, hpe, hsc, hpp, hf⟩ := hrows p hp
    unfold rowCells
    rw [field_congr _ _ _ _ hid, field_congr _ _ _ _ hpe, field_congr _ _ _ _ hsc, field_congr _ _ _ _ hpp, hf]
  have hfile : resultCellsOf (hdr :: rows) = resultCellsOf (hdr' :: rows') := by
    simp only [resultCellsOf, hc, hc', bind, Except.bind]
    exact mapM_zip_congr _ _ rows rows' hlen hrow
  refine ⟨fun _ => rfl, fun x => ?_, hfile, ?_⟩
  · show parseResultRow x.andromeda = _
    rw [parseResultRow_eq_andromedaKey]; rfl
  · intro prosit before after
    have hparsed : parsedRowsOf prosit (hdr :: rows) = parsedRowsOf prosit (hdr' :: rows') := by
      simp only [parsedRowsOf, hc, hc', bind, Except.bind]
      exact mapM_zip_congr _ _ rows rows' hlen (fun p hp => by rw [hrow p hp])
    unfold buildResultsOf
    rw [mapM_replace (parsedRowsOf prosit) _ _ hparsed]

/-- the prosit branch DOES read the `filename` cell: the same identifier and peptide under another
    filename cell is another raw file (and may be another scan) -/
example : prositKey "raw-1-12-AAmK-2" "_.AAmK._" "raw-1" = .ok ("raw-1", 12, "AAM[UNIMOD:35]K") ∧
    prositKey "raw-1-12-AAmK-2" "_.AAmK._" "/data/raw-1.mzML" = .ok ("/data/raw-1.mzML", 12, "AAM[UNIMOD:35]K") ∧
    prositKey "raw-1-12-AAmK-2-1" "_.AAmK._" "" = .ok ("raw-1", 12, "AAM[UNIMOD:35]K") ∧
    prositKey "raw-1-12-AAmK-2" "_.AAmK._" "raw" = .ok ("raw", 1, "AAM[UNIMOD:35]K") ∧
    prositKey "r-7.0-[UNIMOD:737]-AK-2" "_.[UNIMOD:737]-AK._" "r" = .ok ("r", 7, "[UNIMOD:737]-AK") ∧
    prositKey "r-7-[UNIMOD:737]AK-2" "_.[UNIMOD:737]AK._" "r" = .ok ("r", 7, "[UNIMOD:737]-AK") := by decide +kernel

/-- the andromeda key of the same row does not move: native Percolator layout with a `filename`
    column in front of the score (value ≠ raw file), the mokapot layout with `CalcMass` and an empty
    `filename` cell, and the plain native layout give the same dictionary and the same merged text -/
private def exNative : List Row := [["PSMId", "score", "q-value", "posterior_error_prob", "peptide", "proteinIds"],
  ["raw_2_b_007_2_1", "2.5", "0.01", "0.001", "-.AAM[16]K.-", "P1"]]
private def exNativeFilename : List Row := [["PSMId", "filename", "score", "q-value", "posterior_error_prob", "peptide", "proteinIds"],
  ["raw_2_b_007_2_1", "/data/raw_2_b.mzML", "2.5", "0.01", "0.001", "-.AAM[16]K.-", "P1", "P9"]]
private def exMokapotExtra : List Row := [["SpecId", "Label", "ScanNr", "ExpMass", "CalcMass", "Peptide", "mokapot score", "filename",
    "mokapot q-value", "mokapot PEP", "Proteins"],
  ["raw_2_b_007_2_1", "1", "7", "500.1", "500.1", "-.AAM[16]K.-", "2.5", "", "0.01", "0.001", "P1"]]

example : percCols (exNative.headD []) = .ok { id := 0, peptide := 4, score := 1, pep := 3, filename := none } ∧
    percCols (exNativeFilename.headD []) = .ok { id := 0, peptide := 5, score := 2, pep := 4, filename := some 1 } ∧
    percCols (exMokapotExtra.headD []) = .ok { id := 0, peptide := 5, score := 6, pep := 9, filename := some 7 } := by decide +kernel

example : SameReadCells { id := 0, peptide := 4, score := 1, pep := 3, filename := none }
    { id := 0, peptide := 5, score := 2, pep := 4, filename := some 1 } (exNative.getD 1 []) (exNativeFilename.getD 1 []) := by
  refine ⟨by decide +kernel, by decide +kernel, by decide +kernel, by decide +kernel, ?_, ?_⟩
  · intro f hf; cases hf
  · intro f hf; cases hf; decide

/-- the dictionary as a flat list of (raw file, scan, modified sequence, score, PEP) -/
private def flatRes (r : Except String Results) : Option (List (String × Int × String × String × String)) :=
  r.toOption.map (fun res => res.flatMap (fun e => e.2.map (fun kv => (e.1, kv.1.1, kv.1.2, kv.2.1, kv.2.2))))

example : flatRes (buildResultsOf false [exNative]) = some [("raw_2_b", 7, "AAM(ox)K", "2.5", "0.001")] := by decide +kernel
example : flatRes (buildResultsOf false [exNativeFilename]) = flatRes (buildResultsOf false [exNative]) := by decide +kernel
example : flatRes (buildResultsOf false [exMokapotExtra]) = flatRes (buildResultsOf false [exNative]) := by decide +kernel
-- the rewritten row of the example above
example : (mergeTextRaw [exNative] [exTextIn]).toOption = (mergeTextRaw exRawResults [exTextIn]).toOption := by decide +kernel
example : (mergeTextRaw [exNativeFilename] [exTextIn]).toOption = (mergeTextRaw [exNative] [exTextIn]).toOption := by decide +kernel
example : (mergeTextRaw [exMokapotExtra] [exTextIn]).toOption = (mergeTextRaw [exNative] [exTextIn]).toOption := by decide +kernel

/-- under `prosit` the raw file of the same kind of file IS the filename cell -/
example : flatRes (buildResultsOf true [[["PSMId", "filename", "score", "q-value", "posterior_error_prob", "peptide", "proteinIds"],
      ["raw-1-12-AAmK-2", "raw-1", "2.5", "0.01", "0.001", "_.AAmK._", "P1"],
      ["raw-1-12-AAmK-2", "other", "1.5", "0.01", "0.5", "_.AAmK._", "P1"]]]) =
    some [("raw-1", 12, "AAM[UNIMOD:35]K", "2.5", "0.001"), ("other", 1, "AAM[UNIMOD:35]K", "1.5", "0.5")] := by decide +kernel

end PgFdr.C15
