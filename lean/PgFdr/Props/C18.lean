import PgFdr.Proofs.C18
import PgFdr.Proofs.PipelineC18

/-!
# C18 — every shipped method configuration is usable from the command line

Property text (properties.jsonl): "For every method configuration shipped with the tool and
selectable by name, running it from the command line on valid input of the matching type completes
and writes a protein-group table for which the ranking, q-value and row-consistency guarantees
above hold; combinations the tool does not support are refused with its own explanatory error
(missing input file, rescue not possible for this score) instead of an internal error."

The theorems are about the executable model `PgFdr.C18` (`parseMethod`, `runMethod`, `runLoop`,
`runCli` — the functions the driver op "method" runs) over the table `Generated.methods`, which
`harness/tables.py` re-translates from `picked_group_fdr/methods/*.toml` on every run: a shipped
file that is not supported breaks `shipped_methods_supported` at build time.  The model is tied to
`parse_method_toml` / `ProteinScoringStrategy.__init__` / `get_protein_group_results` and to the
real command line by the correspondence of `harness/props/C18.py`; the guarantees of the written
tables are checked there directly on every table (and are the subject of C01/C02/C06).
-/
namespace PgFdr.C18
open PgFdr.Generated (MethodToml)

/-- the generated-table obligation, evaluated by the kernel on the current TOML files -/
theorem shipped_methods_ok : ∀ m ∈ Generated.methods, shippedOk Generated.methods m = true := by
  decide +kernel

/-- Bool form of the naming obligation, so that the kernel can evaluate it over the table -/
def noRemapNameOk (m : MethodToml) : Bool :=
  !has m.name "no_remap" ||
    (match parseMethod false m with
     | .ok cfg => !cfg.origin.remaps
     | .error _ => true)

theorem no_remap_table : ∀ m ∈ Generated.methods, noRemapNameOk m = true := by decide +kernel

/-- the name of a shipped method does not lie about remapping: a method whose file name says `no_remap` reads the
    proteins from the input file (so it runs without a FASTA file).  The code decides "remap" by the substring test
    `"remap" in score_description`, which `no_remap` also satisfies for Percolator input (DESIGN.md §16) — a shipped
    file spelling its Percolator score type `Perc no_remap …` would silently become a remapping method and be
    refused without a FASTA file; this obligation is evaluated by the kernel on the current TOML files. -/
theorem no_remap_named_methods_do_not_remap :
    ∀ m ∈ Generated.methods, has m.name "no_remap" = true →
      ∀ cfg, parseMethod false m = .ok cfg → cfg.origin.remaps = false := by
  intro m hm hname cfg hcfg
  have h := no_remap_table m hm
  simp only [noRemapNameOk, hname, hcfg, Bool.not_true, Bool.false_or, Bool.not_eq_true'] at h
  exact h

/-- non-vacuity: some shipped method is named `no_remap`, and the obligation is not trivially true of every
    spelling — a Percolator score type spelled `Perc no_remap bestPEP` does parse to a remapping origin -/
example : ∃ m ∈ Generated.methods, has m.name "no_remap" = true := by decide +kernel
example : (parseOrigin "Perc no_remap bestPEP").remaps = true := by decide +kernel

/-- "For every method configuration shipped with the tool and selectable by name, running it from
    the command line on valid input of the matching type completes and writes a protein-group
    table": every shipped file parses, configures a rescue step only for a score that can rescue,
    reads one of the five supported inputs, is found under its own name, and the run selecting it
    by name with its own input type and a FASTA file ends with a table -/
theorem shipped_methods_supported :
    ∀ m ∈ Generated.methods, ∃ cfg,
      parseMethod false m = .ok cfg ∧
      (cfg.grouping.rescues = true → cfg.score.canRescue = true) ∧
      cfg.input ∈ [Input.mq, Input.perc, Input.fragpipe, Input.sage, Input.diann] ∧
      findMethod Generated.methods m.name = .ok m ∧
      runCli Generated.methods false (matching cfg) [.builtin m.name] = .ok ([cfg], [Outcome.table]) := by
  intro m hm
  obtain ⟨cfg, h1, h2, h3, h4, _⟩ := shippedOk_spec _ m (shipped_methods_ok m hm)
  refine ⟨cfg, h1, h2, ?_, h4, h3⟩
  cases cfg.input <;> simp

/-- "(and several given at once)": any list of shipped method names given at once, with all five
    inputs and a FASTA file supplied, is parsed completely and every method writes a table -/
theorem several_shipped_methods (names : List String)
    (h : ∀ n ∈ names, n ∈ Generated.methods.map (·.name)) :
    ∃ cfgs, runCli Generated.methods false everything (names.map .builtin) =
        .ok (cfgs, cfgs.map (fun _ => Outcome.table)) ∧ cfgs.length = names.length := by
  have key : ∀ names : List String, (∀ n ∈ names, n ∈ Generated.methods.map (·.name)) →
      ∃ cfgs, parseAll Generated.methods false (names.map .builtin) = .ok cfgs ∧
        runLoop everything cfgs = cfgs.map (fun _ => Outcome.table) ∧ cfgs.length = names.length := by
    intro names
    induction names with
    | nil => intro _; exact ⟨[], rfl, rfl, rfl⟩
    | cons n r ih =>
      intro h
      obtain ⟨cs, hcs, hrun, hlen⟩ := ih (fun x hx => h x (List.mem_cons_of_mem _ hx))
      obtain ⟨m, hm, hn⟩ := List.mem_map.mp (h n List.mem_cons_self)
      obtain ⟨cfg, h1, _, _, h4, h5⟩ := shippedOk_spec _ m (shipped_methods_ok m hm)
      subst hn
      refine ⟨cfg :: cs, ?_, ?_, by simp [hlen]⟩
      · simp only [List.map_cons, parseAll, resolve, h4, h1, hcs]
      · simp only [runLoop, h5, hrun, List.map_cons]
  obtain ⟨cfgs, hp, hr, hl⟩ := key names h
  refine ⟨cfgs, ?_, hl⟩
  unfold runCli
  have : (cfgs.any Cfg.needsMap && !everything.map) = false := by simp [everything]
  simp only [hp, this, hr]
  rfl

/-- "combinations the tool does not support are refused with its own explanatory error (missing
    input file, rescue not possible for this score) instead of an internal error": on a
    well-typed configuration (all five keys present) the model has no failure other than the
    named ones — parsing fails only with unknown_picked / unknown_score / unknown_grouping, and
    a parsed method either writes a table or is refused with missing_input, no_score_column,
    missing_mq_protein_groups or rescue_unsupported -/
theorem unsupported_is_refused (useGenes : Bool) (s : Supplied) (t : MethodToml)
    (hp : t.pickedStrategy.isSome = true) (hs : t.scoreType.isSome = true)
    (hsh : t.sharedPeptides.isSome = true) (hg : t.grouping.isSome = true)
    (hl : t.label.isSome = true) :
    (∃ e, parseMethod useGenes t = .error e ∧
        (e = .unknownPicked ∨ e = .unknownScore ∨ e = .unknownGrouping)) ∨
    (∃ cfg, parseMethod useGenes t = .ok cfg ∧
        (runMethod s cfg = .ok () ∨
         ∃ e, runMethod s cfg = .error e ∧
           (e = .missingInput ∨ e = .noScoreColumn ∨ e = .missingMqProteinGroups ∨
            e = .rescueUnsupported))) := by
  obtain ⟨pk, hpk⟩ := Option.isSome_iff_exists.mp hp
  obtain ⟨st, hst⟩ := Option.isSome_iff_exists.mp hs
  obtain ⟨sh, hsh'⟩ := Option.isSome_iff_exists.mp hsh
  obtain ⟨g, hg'⟩ := Option.isSome_iff_exists.mp hg
  obtain ⟨lb, hl'⟩ := Option.isSome_iff_exists.mp hl
  have run : ∀ cfg, (runMethod s cfg = .ok () ∨
         ∃ e, runMethod s cfg = .error e ∧
           (e = .missingInput ∨ e = .noScoreColumn ∨ e = .missingMqProteinGroups ∨
            e = .rescueUnsupported)) := by
    intro cfg
    cases hr : runMethod s cfg with
    | ok u => exact Or.inl rfl
    | error e => exact Or.inr ⟨e, rfl, runMethod_error_cases s cfg e hr⟩
  unfold parseMethod
  simp only [hpk, hst, hsh', hg', hl']
  cases h1 : parsePicked pk with
  | none => left; exact ⟨.unknownPicked, rfl, Or.inl rfl⟩
  | some p =>
    cases h2 : parseScore (scoreDescription st sh) with
    | none => left; exact ⟨.unknownScore, rfl, Or.inr (Or.inl rfl)⟩
    | some sc =>
      have hgn : ∃ gn, (if useGenes = true then some "pseudo_gene" else some g) = some gn := by
        cases useGenes <;> simp
      obtain ⟨gn, hgn⟩ := hgn
      simp only [hgn]
      cases h3 : parseGrouping gn with
      | none => left; exact ⟨.unknownGrouping, rfl, Or.inr (Or.inr rfl)⟩
      | some gr => right; exact ⟨_, rfl, run _⟩

/-- "refused with its own explanatory error (missing input file …)": a parsed method is skipped
    with the missing-input warning exactly when no file of the type it reads was given -/
theorem missing_input_iff (s : Supplied) (c : Cfg) :
    runMethod s c = .error .missingInput ↔ s.has c.input = false := by
  unfold runMethod
  cases h : s.has c.input
  · simp
  · simp only [Bool.not_true, Bool.false_eq_true, if_false]
    constructor
    · intro h'
      split at h'
      · cases h'
      · split at h'
        · cases h'
        · split at h' <;> cases h'
    · intro h'; cases h'

/-- "(… rescue not possible for this score)": the rescue refusal is raised exactly for a method
    whose grouping has a rescue step and whose score cannot rescue (only bestPEP and multPEP can),
    once its input is there -/
theorem rescue_unsupported_iff (s : Supplied) (c : Cfg) :
    runMethod s c = .error .rescueUnsupported ↔
      s.has c.input = true ∧ c.scoreColumn.isSome = true ∧
      (c.grouping.needsMqGroups = true → s.mqGroups = true) ∧
      c.grouping.rescues = true ∧ c.score.canRescue = false := by
  unfold runMethod
  cases h1 : s.has c.input <;> cases h2 : c.scoreColumn.isNone <;>
    cases h3 : c.grouping.needsMqGroups <;> cases h4 : s.mqGroups <;>
    cases h5 : c.grouping.rescues <;> cases h6 : c.score.canRescue <;>
    simp_all [Option.isNone_iff_eq_none, Option.isSome_iff_ne_none]

/-- a table is written exactly under the four preconditions (input present, a score column,
    a proteinGroups file if the grouping reads one, rescue only for a score that can rescue) -/
theorem table_iff (s : Supplied) (c : Cfg) :
    runMethod s c = .ok () ↔
      s.has c.input = true ∧ c.scoreColumn.isSome = true ∧
      (c.grouping.needsMqGroups = true → s.mqGroups = true) ∧
      (c.grouping.rescues = true → c.score.canRescue = true) :=
  runMethod_ok_iff s c

/-- only bestPEP and multPEP scores can rescue -/
theorem canRescue_iff (sc : Score) : sc.canRescue = true ↔ sc = .bestPEP ∨ sc = .multPEP := by
  cases sc <;> simp [Score.canRescue]

/-- a skipped method does not end the run; a refusal does, and nothing after it is run -/
theorem runLoop_stops_at_refusal (s : Supplied) (pre : List Cfg) (c : Cfg) (post : List Cfg) (e : Err)
    (hpre : ∀ x ∈ pre, runMethod s x = .ok () ∨ runMethod s x = .error .missingInput)
    (hc : runMethod s c = .error e) (he : e ≠ .missingInput) :
    runLoop s (pre ++ c :: post) =
      pre.map (fun x => match runMethod s x with | .ok () => Outcome.table | .error _ => Outcome.skipped)
        ++ [.abort e] := by
  induction pre with
  | nil =>
    cases e <;> first | exact absurd rfl he | simp [runLoop, hc]
  | cons x r ih =>
    have hx := hpre x List.mem_cons_self
    have ih' := ih (fun y hy => hpre y (List.mem_cons_of_mem _ hy))
    rcases hx with hx | hx
    · simp [runLoop, hx, ih']
    · simp [runLoop, hx, ih']

/-- the score-description logic tests `"remap" in d`, and `remap` is a substring of `no_remap`:
    a Percolator description is REMAPPED whenever it says `no_remap` (no shipped file does — the
    shipped no-remap Percolator methods simply omit the word; a file that tried would be read
    against its author's intent, and this is the statement that tells) -/
theorem perc_no_remap_is_remapped (d : String) (hp : has d "Perc" = true) (hn : has d "no_remap" = true) :
    parseOrigin d = .percRemap := by
  unfold parseOrigin
  simp [hp, has_remap_of_no_remap d hn]

/-- `sharedPeptides = "razor"` makes the parsed method a razor method whatever the score
    description says (the code appends `" razor"` to it) -/
theorem razor_method_is_razor (useGenes : Bool) (t : MethodToml) (cfg : Cfg)
    (hr : t.sharedPeptides = some "razor") (hp : parseMethod useGenes t = .ok cfg) : cfg.razor = true := by
  unfold parseMethod at hp
  rw [hr] at hp
  repeat (split at hp <;> try cases hp)
  rename_i sh hsh _ _ _ _ _ _ _ _ _ _ _ _
  have : sh = "razor" := (Option.some.inj hsh).symm
  subst this
  simp [scoreDescription, has_razor_appended]

/-- the evidence flag a method reads is decided by the first of `Perc`, `FragPipe`, `Sage`,
    `DIA-NN` found in the description, MaxQuant evidence otherwise -/
theorem input_selection (d : String) :
    (parseOrigin d).input =
      if has d "Perc" then .perc else if has d "FragPipe" then .fragpipe
      else if has d "Sage" then .sage else if has d "DIA-NN" then .diann else .mq := by
  unfold parseOrigin
  repeat' split
  all_goals rfl

/-! Non-vacuity: the table is not empty; a deliberately bad TOML row (a rescue step with the
Andromeda score, which cannot rescue) parses but fails the obligation and is refused with the
rescue error; a row with a misspelt competition name and one with an unknown score are refused
while parsing; a shipped method without its input is skipped. -/

private def badRescue : MethodToml :=
  { name := "bad", label := some "Bad", scoreType := some "Andromeda", grouping := some "rescued_subset",
    sharedPeptides := some "discard", pickedStrategy := some "picked_group" }

example : Generated.methods ≠ [] := by decide +kernel

example : shippedOk (badRescue :: Generated.methods) badRescue = false := by decide +kernel

example : ∃ cfg, parseMethod false badRescue = .ok cfg ∧
    runMethod (matching cfg) cfg = .error .rescueUnsupported := by
  refine ⟨{ score := .andromeda, origin := .mq, razor := false, withShared := false,
            grouping := .rescuedSubset, picked := .pickedGroup, label := "Bad" }, ?_, ?_⟩ <;>
    decide +kernel

example : parseMethod false { badRescue with pickedStrategy := some "pickedgroup" } = .error .unknownPicked := by
  decide +kernel

example : parseMethod false { badRescue with scoreType := some "bestpep" } = .error .unknownScore := by
  decide +kernel

example : parseMethod false { badRescue with grouping := some "rescued" } = .error .unknownGrouping := by
  decide +kernel

example : runCli Generated.methods false { everything with mq := false } [.builtin "maxquant", .builtin "sage"]
    = .ok ([{ score := .multPEP, origin := .mq, razor := true, withShared := false, grouping := .subset,
              picked := .classic, label := "MaxQuant" },
            { score := .bestPEP, origin := .sage, razor := false, withShared := false, grouping := .rescuedSubset,
              picked := .pickedGroup, label := "Picked Protein Group FDR" }], [.skipped, .table]) := by
  decide +kernel

example : runCli Generated.methods false everything [.builtin "no_such_method"] = .error .unknownMethod := by
  decide +kernel

example : has "Perc no_remap bestPEP" "Perc" = true ∧ has "Perc no_remap bestPEP" "no_remap" = true := by
  decide +kernel

/-! ## "… for which the ranking, q-value and row-consistency guarantees above hold"

`toPipelineConfig` (`Model/C18Pipeline.lean`) maps a parsed method to the configuration
`PgFdr.Pipeline.Config` with which the composed model `Pipeline.run` of `get_protein_group_results` is run
(grouping, razor flag, competition mode; `picked_group` is `PickedGroupStrategy()` with its default
`"leading"`).  `PipelineGuarantees pc` (`Proofs/PipelineC18.lean`) is, word for word, the conjunction of the
end-to-end theorems `C01.pipeline_ranked_nonincreasing`, `C01.pipeline_qvals_spec`,
`C01.pipeline_threshold_sound`, `C01.pipeline_report_alignment`, `C06.pipeline_rows_consistent`,
`C06.pipeline_rows_disjoint` for the configuration `pc`, for every input and every recorded parameter. -/

/-- the generated-table obligation: every shipped TOML file, also when run gene-level with the pseudo-gene
    fallback, parses to a configuration the composed pipeline model covers (no shipped method uses the
    MaxQuant-native groupings, which the model does not compose) — evaluated by the kernel on the current
    TOML files -/
theorem shipped_methods_have_pipeline_config :
    ∀ useGenes : Bool, ∀ m ∈ Generated.methods, (pipelineConfigOf useGenes m).isSome = true := by
  decide +kernel

/-- "For every method configuration shipped with the tool … writes a protein-group table for which the
    ranking, q-value and row-consistency guarantees above hold": every shipped method (run protein-level,
    or gene-level with the pseudo-gene fallback) parses to a configuration `cfg` whose pipeline
    configuration `pc` — same razor flag, its competition strategy, its grouping — satisfies all three
    groups of end-to-end guarantees: whatever the input and whatever the shuffles, cuts and float scores,
    if the inference function returns a table then its ranking is the competition's, non-increasing in
    score; its q-values are the monotone decoy-based estimate; its rows carry the score and q-value of
    their rank; and (the peptide list being a dict) every row is consistent with its group's evidence and
    no protein occurs in two rows. -/
theorem shipped_methods_guarantees :
    ∀ useGenes : Bool, ∀ m ∈ Generated.methods, ∃ (cfg : Cfg) (pc : Pipeline.Config),
      parseMethod useGenes m = .ok cfg ∧ toPipelineConfig cfg = some pc ∧
      pc.razor = cfg.razor ∧ pc.mode = cfg.picked.toMode ∧ cfg.grouping.toPipeline = some pc.grouping ∧
      PipelineGuarantees pc := by
  intro useGenes m hm
  have h := shipped_methods_have_pipeline_config useGenes m hm
  unfold pipelineConfigOf at h
  cases hp : parseMethod useGenes m with
  | error e => rw [hp] at h; simp at h
  | ok cfg =>
    rw [hp] at h
    simp only at h
    obtain ⟨pc, hpc⟩ := Option.isSome_iff_exists.mp h
    refine ⟨cfg, pc, rfl, hpc, ?_, ?_, ?_, pipelineGuarantees pc⟩
    all_goals
      unfold toPipelineConfig at hpc
      cases hg : cfg.grouping.toPipeline with
      | none => rw [hg] at hpc; simp at hpc
      | some g =>
        rw [hg] at hpc
        simp only [Option.some.injEq] at hpc
        subst hpc
        rfl

/-! Non-vacuity: the flagship method `picked_protein_group` maps to the configuration of the two-pass
demonstration call `Pipeline.demo_run2`, `savitski` to that of the one-pass call `Pipeline.demo_run1`
(`Proofs/Pipeline.lean`): calls with these configurations that succeed on a dict input. -/

example : ∃ m ∈ Generated.methods, m.name = "picked_protein_group" ∧
    (pipelineConfigOf false m).map (fun c => (c.grouping, c.razor, c.mode)) =
      some (Pipeline.demoCfg2.grouping, Pipeline.demoCfg2.razor, Pipeline.demoCfg2.mode) := by
  decide +kernel

example : ∃ m ∈ Generated.methods, m.name = "savitski" ∧
    (pipelineConfigOf false m).map (fun c => (c.grouping, c.razor, c.mode)) =
      some (Pipeline.demoCfg1.grouping, Pipeline.demoCfg1.razor, Pipeline.demoCfg1.mode) := by
  decide +kernel

example : ∃ r, Pipeline.run Pipeline.demoCfg2 Pipeline.demoInp2 = .ok r ∧
    Pipeline.distinctPeptides Pipeline.demoInp2.pil := by
  obtain ⟨r, h, -⟩ := Pipeline.demo_run2
  exact ⟨r, h, Pipeline.demo_distinct.2⟩

/-- a configuration the composed model does not cover (not shipped): native MaxQuant grouping -/
example : pipelineConfigOf false { badRescue with grouping := some "mq_native" } = none := by
  decide +kernel

end PgFdr.C18
